"""
Abstract model of a .ff file for C13: generation (Hypothesis strategies that
draw a plain JSON description), serialisation to text in the documented grammar
(with random legal layout), and the *expected* content of the loaded force
field computed from the description alone (no vermouth parsing code).
"""
import json

from hypothesis import strategies as st

ATOM_NAMES = ['BB', 'SC1', 'SC2', 'SC3', 'CA', 'CB', 'N', 'O1']
RESNAMES = ['ALA', 'GLY', 'LYS', 'PO4']
ATYPES = ['P5', 'C1', 'Qd', 'SP2']
# section -> number of atoms (None = variable, needs '--' when parameters follow)
BLOCK_SECTIONS = {'bonds': 2, 'angles': 3, 'dihedrals': 4, 'impropers': 4, 'constraints': 2, 'pairs': 2,
                  'exclusions': None, 'virtual_sitesn': None, 'position_restraints': 1, 'virtual_sites2': 3}
EDGE_SECTIONS = ('bonds', 'angles', 'dihedrals', 'cmap', 'constraints')
PARAM_TOKENS = ['1', '2', '0.47', '1250', '180', '5', '0.1', '9', '-0.5', '1e3']
ORDERS = [0, 0, 0, 1, 1, -1, 2, -2, '>', '>>', '<', '*', '**']


def order_prefix(order):
    if isinstance(order, int):
        return ('+' if order > 0 else '-') * abs(order)
    return order


# ---------------------------------------------------------------------------
# strategies

def _params(min_size=0):
    return st.lists(st.sampled_from(PARAM_TOKENS), min_size=min_size, max_size=4)


def _line_meta():
    return st.one_of(
        st.none(), st.none(),
        st.fixed_dictionaries({'version': st.integers(1, 3)}),
        st.fixed_dictionaries({'comment': st.sampled_from(['c1', 'c2'])}),
        st.fixed_dictionaries({'edge': st.just(False)}),
        st.fixed_dictionaries({'group': st.sampled_from(['g1', 'g2']), 'ifdef': st.just('FLEX')}),
    )


def _section_meta():
    return st.fixed_dictionaries({}, optional={'group': st.sampled_from(['G', 'H']), 'ifdef': st.sampled_from(['A', 'B']),
                                               'edge': st.booleans(), 'comment': st.just('sec')}).filter(lambda d: d)


def block_strategy(name):
    def with_atoms(names):
        n = len(names)
        atoms = st.tuples(*[st.fixed_dictionaries({
            'name': st.just(nm), 'atype': st.sampled_from(ATYPES + ['$mtype']), 'resid': st.integers(1, 3),
            'resname': st.sampled_from(RESNAMES), 'cgnr': st.integers(1, 5),
            'charge': st.one_of(st.none(), st.sampled_from([0.0, 1.0, -0.5])),
            'mass': st.one_of(st.none(), st.sampled_from([72.0, 36.0])),
            'attrs': st.one_of(st.none(), st.none(), st.fixed_dictionaries({'element': st.sampled_from(['C', 'N'])}),
                               st.fixed_dictionaries({'replace': st.fixed_dictionaries({'atype': st.just('Q5')})})),
        }) for nm in names]).map(list)

        def isec(sec):
            natoms = BLOCK_SECTIONS[sec]
            k = st.just(natoms) if natoms is not None else st.integers(2, 4)
            line = k.flatmap(lambda kk: st.fixed_dictionaries({
                'atoms': st.lists(st.integers(0, n - 1), min_size=kk, max_size=kk),
                'ref': st.lists(st.sampled_from(['name', 'name', 'index']), min_size=kk, max_size=kk),
                'delim': st.booleans() if natoms is not None else st.just(True),
                'params': _params(1).map(lambda p: (['2'] + p[1:]) if sec == 'impropers' else p),
                'meta': _line_meta(),
            }))
            if sec == 'dihedrals':
                # make some dihedral lines improper-typed (function type 2): they must end up under impropers
                line = st.one_of(line, line, line.map(lambda l: dict(l, params=['2'] + l['params'][1:])))
            entry = st.one_of(line, line, line, _section_meta().map(lambda m: {'meta_line': m}))
            return st.fixed_dictionaries({'sec': st.just(sec), 'lines': st.lists(entry, min_size=1, max_size=4)})

        subs = st.lists(st.one_of(
            st.sampled_from(sorted(BLOCK_SECTIONS)).flatmap(isec),
            st.sampled_from(sorted(BLOCK_SECTIONS)).flatmap(isec),
            st.fixed_dictionaries({'sec': st.just('edges'),
                                   'pairs': st.lists(st.tuples(st.integers(0, n - 1), st.integers(0, n - 1)).map(list),
                                                     min_size=1, max_size=3)}),
        ), max_size=5)
        return st.fixed_dictionaries({'kind': st.just('block'), 'name': st.just(name), 'nrexcl': st.integers(0, 3),
                                      'atoms': atoms, 'subs': subs})
    return st.lists(st.sampled_from(ATOM_NAMES), min_size=1, max_size=5, unique=True).flatmap(with_atoms)


def _link_node():
    return st.fixed_dictionaries({
        'name': st.sampled_from(['BB', 'SC1', 'SC2']),
        'order': st.sampled_from(ORDERS),
    })


def _node_attrs():
    return st.one_of(
        st.just({}), st.just({}),
        st.fixed_dictionaries({'resname': st.sampled_from(['ALA', 'GLY', 'ALA|GLY|LYS'])}),
        st.fixed_dictionaries({'cgsecstruc': st.sampled_from(['H', 'E', 'H|1|2'])}),
        st.fixed_dictionaries({'replace': st.fixed_dictionaries({'atype': st.sampled_from(['P4', 'Q5'])})}),
        st.just({'PTM_atom': True}),
    )


def link_like_strategy(kind, name=None):
    """kind: 'link' or 'modification'."""
    def with_nodes(nodes):
        # nodes: list of unique (name, order) with their one and only attribute dict
        n = len(nodes)
        idx = st.integers(0, n - 1)

        def isec(sec, delete=False):
            natoms = BLOCK_SECTIONS[sec]
            k = st.just(natoms) if natoms is not None else st.integers(2, 3)

            def line(kk):
                return st.fixed_dictionaries({
                    'atoms': st.lists(idx, min_size=kk, max_size=kk),
                    'style': st.lists(st.sampled_from(['prefix', 'prefix', 'attr', 'both']), min_size=kk, max_size=kk),
                    'show_attrs': st.lists(st.booleans(), min_size=kk, max_size=kk),
                    'delim': st.booleans() if natoms is not None else st.just(True),
                    'params': st.one_of(_params(1), _params(1),
                                        st.just(['1', 'dist(0,1)', '1250']) if kk >= 2 else _params(1),
                                        st.just(['2', 'angle(0,1,2|.2f)', '25']) if kk >= 3 else _params(1)),
                    'meta': _line_meta(),
                })
            entry = st.one_of(k.flatmap(line), k.flatmap(line), _section_meta().map(lambda m: {'meta_line': m}))
            return st.fixed_dictionaries({'sec': st.just(('!' if delete else '') + sec),
                                          'lines': st.lists(entry, min_size=1, max_size=3)})

        choices = [
            st.sampled_from(sorted(BLOCK_SECTIONS)).flatmap(isec),
            st.sampled_from(sorted(BLOCK_SECTIONS)).flatmap(isec),
            st.fixed_dictionaries({'sec': st.just('atoms'),
                                   'lines': st.lists(st.fixed_dictionaries({'node': idx, 'style': st.sampled_from(['prefix', 'attr', 'both']),
                                                                            # the atom is mentioned with all its attributes or with none of them
                                                                            'show': st.sampled_from([True, True, False])}),
                                                     min_size=1, max_size=3)}),
        ]
        if kind == 'link':
            choices += [
                st.sampled_from(sorted(BLOCK_SECTIONS)).flatmap(lambda s: isec(s, delete=True)),
                st.fixed_dictionaries({'sec': st.just('patterns'),
                                       'lines': st.lists(st.lists(st.tuples(idx, st.booleans()).map(list), min_size=1, max_size=3),
                                                         min_size=1, max_size=2)}),
                st.fixed_dictionaries({'sec': st.just('features'), 'names': st.lists(st.sampled_from(['scfix', 'extdih', 'collagen']),
                                                                                     min_size=1, max_size=2)}),
                st.fixed_dictionaries({'sec': st.just('non-edges'),
                                       'pairs': st.lists(st.tuples(idx, idx).map(list), min_size=1, max_size=2),
                                       'styles': st.lists(st.sampled_from(['prefix', 'attr', 'both']), min_size=4, max_size=4)}),
                st.fixed_dictionaries({'sec': st.just('molmeta'),
                                       'items': st.lists(st.tuples(st.sampled_from(['extdih', 'scfix', 'tag']),
                                                                   st.sampled_from([True, False, 3, 'x'])).map(list),
                                                         min_size=1, max_size=2)}),
            ]
        subs = st.lists(st.one_of(*choices), min_size=1, max_size=5)
        base = {'kind': st.just(kind), 'nodes': st.just(nodes), 'subs': subs}
        if kind == 'link':
            # link-wide attribute names are disjoint from the per-atom ones, so no documented attribute conflict can arise
            base['attrs'] = st.lists(st.tuples(st.sampled_from(['chain', 'restype', 'mol_idx']),
                                               st.sampled_from(['ALA', 'H', 'ALA|GLY', 'A', 'not:X'])).map(list),
                                     max_size=2, unique_by=lambda t: t[0])
        else:
            base['name'] = st.just(name)
        return st.fixed_dictionaries(base)

    nodes = st.lists(st.tuples(_link_node(), _node_attrs()), min_size=1, max_size=4,
                     unique_by=lambda t: (t[0]['name'], order_prefix(t[0]['order'])))
    return nodes.map(lambda ns: [dict(n, attrs=a) for n, a in ns]).flatmap(with_nodes)


def file_strategy(tier):
    def body(names):
        blocks = [block_strategy('B%d%s' % (i, nm)) for i, nm in enumerate(names['blocks'])]
        mods = [link_like_strategy('modification', 'M%d-%s' % (i, nm)) for i, nm in enumerate(names['mods'])]
        links = [link_like_strategy('link') for _ in range(names['nlinks'])]
        others = [st.fixed_dictionaries({'kind': st.just('macros'),
                                         'items': st.lists(st.tuples(st.sampled_from(['m1', 'm2', 'long_name', 'm1-x', 'fc.k', 'm1']),
                                                                     st.sampled_from(['P1', '0.33', 'X'])).map(list), min_size=1, max_size=2)})
                  for _ in range(names['nmacros'])]
        others += [st.fixed_dictionaries({'kind': st.just('citations'), 'keys': st.lists(st.sampled_from(['Martini3', 'ref2']), min_size=1, max_size=2)})
                   for _ in range(names['ncit'])]
        items = blocks + mods + links + others
        if not items:
            items = [block_strategy('B0X')]
        return st.tuples(st.tuples(*items), st.permutations(list(range(len(items)))),
                         st.one_of(st.none(), st.lists(st.tuples(st.sampled_from(['v_int', 'v_str', 'v_float', 'v_list']),
                                                                 st.sampled_from([1, 'mass', 0.3, [1, 2], True])).map(list),
                                                       min_size=1, max_size=3)),
                         st.integers(0, 2 ** 30)).map(assemble)
    counts = st.fixed_dictionaries({
        'blocks': st.lists(st.sampled_from(['A', 'B', 'C']), max_size=3),
        'mods': st.lists(st.sampled_from(['P', 'Q']), max_size=2),
        'nlinks': st.integers(0, 4), 'nmacros': st.integers(0, 2), 'ncit': st.integers(0, 1),
    })
    return counts.flatmap(body)


def assemble(t):
    items, perm, variables, layout = t
    sections = [items[i] for i in perm]
    if variables is not None:
        sections.insert(0, {'kind': 'variables', 'items': variables})
    # make macro use explicit: '$mtype' becomes a reference to a macro defined earlier in the file, or a plain type
    defined = []
    for sec in sections:
        if sec['kind'] == 'macros':
            for k, _ in sec['items']:
                if k not in defined:
                    defined.append(k)
        elif sec['kind'] == 'block':
            for i, a in enumerate(sec['atoms']):
                if a['atype'] == '$mtype':
                    a['atype'] = ('$' + defined[i % len(defined)]) if defined else 'P5'
    return {'sections': sections, 'layout': layout}


# ---------------------------------------------------------------------------
# serialisation

class Layout:
    """Deterministic pseudo-random layout choices derived from one drawn integer (layout only, never content)."""

    def __init__(self, seed):
        self.state = seed * 2654435761 % (2 ** 32) or 1

    def pick(self, n):
        self.state = (self.state * 1103515245 + 12345) % (2 ** 31)
        return (self.state >> 8) % n

    def sep(self):
        return [' ', '  ', '\t', '   '][self.pick(4)]


def jdump(obj):
    return json.dumps(obj)


def _attr_value_json(val):
    return val


def ref_token(node, style, lay, show_attrs=True, extra=None):
    """Text for a link atom reference: name with prefix and/or order attribute, plus attributes."""
    order = node['order']
    attrs = dict(node['attrs']) if show_attrs else {}
    if extra:
        attrs.update(extra)
    name = node['name']
    if order == 0 or style == 'prefix':
        ref = order_prefix(order) + name if order != 0 else name
    elif style == 'attr':
        ref = name
        attrs['order'] = order
    else:
        ref = order_prefix(order) + name
        attrs['order'] = order
    if attrs:
        glue = ['', ' '][lay.pick(2)]
        return ref + glue + jdump(attrs)
    return ref


def _settle_atom_mentions(case):
    """An atom of a modification that is mentioned in [ atoms ] without PTM_atom gets PTM_atom false; saying true later is a
    redefinition, which the format forbids.  The first [ atoms ] mention of such an atom therefore states its attributes."""
    for sec in case['sections']:
        if sec.get('kind') != 'modification':
            continue
        stated = set()
        for sub in sec['subs']:
            if sub['sec'] != 'atoms':
                continue
            for line in sub['lines']:
                node = sec['nodes'][line['node']]
                if (node.get('attrs') or {}).get('PTM_atom') and line['node'] not in stated:
                    line['show'] = True
                if line.get('show', True):
                    stated.add(line['node'])


def serialise(case):
    _settle_atom_mentions(case)
    lay = Layout(case['layout'])
    out = []

    def header(name):
        out.append(['[ %s ]', '[%s]', '[  %s  ]'][lay.pick(3)] % name)

    def emit(tokens, comment=True):
        line = (['', ' ', '\t'][lay.pick(3)]) + lay.sep().join(tokens)
        if comment and lay.pick(4) == 0:
            line += ' ; a comment'
        out.append(line)
        if lay.pick(6) == 0:
            out.append('')
        if lay.pick(8) == 0:
            out.append('; full comment line')

    for sec in case['sections']:
        kind = sec['kind']
        if kind == 'macros':
            header('macros')
            for k, v in sec['items']:
                emit([k, v])
        elif kind == 'variables':
            header('variables')
            for k, v in sec['items']:
                emit([k, json.dumps(v, separators=(',', ':')) if not isinstance(v, str) or lay.pick(2) else v])
        elif kind == 'citations':
            header('citations')
            emit(list(sec['keys']))
        elif kind == 'block':
            header('moleculetype')
            emit([sec['name'], str(sec['nrexcl'])])
            header('atoms')
            for i, a in enumerate(sec['atoms'], 1):
                toks = [str(i), a['atype'], str(a['resid']), a['resname'], a['name'], str(a['cgnr'])]
                if a['charge'] is not None:
                    toks.append(repr(a['charge']))
                    if a['mass'] is not None:
                        toks.append(repr(a['mass']))
                if a['attrs']:
                    toks.append(jdump(a['attrs']))
                emit(toks)
            names = [a['name'] for a in sec['atoms']]
            for sub in sec['subs']:
                header(sub['sec'])
                if sub['sec'] == 'edges':
                    for i, j in sub['pairs']:
                        emit([names[i], names[j]])
                    continue
                for line in sub['lines']:
                    if 'meta_line' in line:
                        emit(['#meta', jdump(line['meta_line'])], comment=False)
                        continue
                    toks = [names[i] if r == 'name' else str(i + 1) for i, r in zip(line['atoms'], line['ref'])]
                    if line['delim']:
                        toks.append('--')
                    toks += line['params']
                    if line['meta'] is not None:
                        toks.append(jdump(line['meta']))
                    emit(toks)
        else:
            nodes = sec['nodes']
            if kind == 'link':
                header('link')
                for k, v in sec['attrs']:
                    if v.startswith('not:'):
                        emit([k, 'not(%s)' % jdump(v[4:])])
                    else:
                        emit([k, jdump(v)])
            else:
                header('modification')
                emit([sec['name']], comment=False)
            for sub in sec['subs']:
                header(sub['sec'])
                name = sub['sec']
                if name == 'atoms':
                    for line in sub['lines']:
                        node = nodes[line['node']]
                        extra = {}
                        tok = ref_token(node, line['style'], lay, show_attrs=line.get('show', True), extra=extra)
                        if '{' not in tok:
                            tok = tok + ' {}'
                        emit([tok])
                elif name == 'patterns':
                    for pat in sub['lines']:
                        emit([ref_token(nodes[i], 'prefix', lay, show_attrs=show) for i, show in pat])
                elif name == 'features':
                    emit(list(sub['names']))
                elif name == 'non-edges':
                    styles = sub.get('styles') or ['prefix'] * 4
                    for pidx, (i, j) in enumerate(sub['pairs']):
                        emit([ref_token(nodes[i], styles[2 * pidx], lay, show_attrs=False),
                              ref_token(nodes[j], styles[2 * pidx + 1], lay)])
                elif name == 'molmeta':
                    for k, v in sub['items']:
                        emit([k, jdump(v)])
                else:
                    for line in sub['lines']:
                        if 'meta_line' in line:
                            emit(['#meta', jdump(line['meta_line'])], comment=False)
                            continue
                        toks = [ref_token(nodes[i], s, lay, show_attrs=sh)
                                for i, s, sh in zip(line['atoms'], line['style'], line['show_attrs'])]
                        if line['delim']:
                            toks.append('--')
                        toks += _effector_params(line, nodes)
                        if line['meta'] is not None:
                            toks.append(jdump(line['meta']))
                        emit(toks)
    return '\n'.join(out) + '\n'


def node_key(node):
    return order_prefix(node['order']) + node['name'] if node['order'] != 0 else node['name']


def _effector_params(line, nodes):
    """'dist(0,1)' style placeholders refer to positions in the line's atom list."""
    out = []
    for p in line['params']:
        if '(' in p:
            fname, rest = p.split('(', 1)
            rest = rest[:-1]
            fmt = None
            if '|' in rest:
                rest, fmt = rest.split('|')
            keys = [node_key(nodes[line['atoms'][int(i)]]) for i in rest.split(',')]
            out.append('%s(%s%s)' % (fname, ','.join(keys), '|' + fmt if fmt else ''))
        else:
            out.append(p)
    return out


# ---------------------------------------------------------------------------
# expectation

def substitute(token, macros):
    if token.startswith('$'):
        return macros[token[1:]]
    return token


def attr_expected(value):
    """JSON attribute values containing '|' become Choice([...])."""
    if isinstance(value, str) and '|' in value:
        return ('choice', value.split('|'))
    return value


def attrs_expected(attrs):
    return {k: attr_expected(v) for k, v in attrs.items()}


def expected(case):
    """Returns dict(blocks=[...], links=[...], modifications=[...], variables={...}) in file order."""
    _settle_atom_mentions(case)
    macros = {}
    exp = {'blocks': [], 'links': [], 'modifications': [], 'variables': {}}
    for sec in case['sections']:
        kind = sec['kind']
        if kind == 'macros':
            for k, v in sec['items']:
                macros[k] = v
        elif kind == 'variables':
            for k, v in sec['items']:
                exp['variables'][k] = v
        elif kind == 'block':
            exp['blocks'].append(_expected_block(sec, macros))
        elif kind in ('link', 'modification'):
            e = _expected_linklike(sec)
            if kind == 'link':
                exp['links'].append(e)
            else:
                exp['modifications'].append(e)
    return exp


def uses_macro(case):
    """True if some block atom uses $mtype; requires macro 'mtype'... we map $mtype to macro m1 at serialisation."""
    return False


def _merge_meta(line_meta, sec_meta):
    meta = dict(sec_meta)
    if line_meta:
        meta.update(line_meta)
    return meta


def _expected_block(sec, macros):
    nodes = []
    for a in sec['atoms']:
        attrs = {'atomname': a['name'], 'atype': substitute(a['atype'], macros), 'resname': a['resname'], 'resid': a['resid'],
                 'charge_group': a['cgnr']}
        if a['charge'] is not None:
            attrs['charge'] = a['charge']
            if a['mass'] is not None:
                attrs['mass'] = a['mass']
        if a['attrs']:
            attrs.update(attrs_expected(a['attrs']))
        nodes.append((a['name'], attrs))
    names = [a['name'] for a in sec['atoms']]
    inter = {}
    edges = set()
    sec_meta = {}
    for sub in sec['subs']:
        if sub['sec'] == 'edges':
            for i, j in sub['pairs']:
                edges.add(frozenset((names[i], names[j])))
            continue
        meta_acc = sec_meta.setdefault(sub['sec'], {})
        for line in sub['lines']:
            if 'meta_line' in line:
                meta_acc.update(line['meta_line'])
                continue
            atoms = tuple(names[i] for i in line['atoms'])
            params = list(line['params'])
            meta = _merge_meta(line['meta'], meta_acc)
            target = sub['sec']
            if target == 'dihedrals' and params and params[0] == '2':
                target = 'impropers'
            inter.setdefault(target, []).append((atoms, params, meta))
    for itype in EDGE_SECTIONS:
        for atoms, params, meta in inter.get(itype, []):
            if meta.get('edge', True):
                for a, b in zip(atoms[:-1], atoms[1:]):
                    edges.add(frozenset((a, b)))
    return {'name': sec['name'], 'nrexcl': sec['nrexcl'], 'nodes': nodes, 'inter': inter, 'edges': edges}


def _expected_linklike(sec):
    nodes_desc = sec['nodes']
    apply_all = {}
    if sec['kind'] == 'link':
        for k, v in sec['attrs']:
            if v.startswith('not:'):
                apply_all[k] = ('not', v[4:])
            else:
                apply_all[k] = attr_expected(v)
    nodes = {}      # key -> attrs (insertion ordered)
    inter, removed = {}, {}
    patterns, features, non_edges, molmeta = [], set(), [], {}
    edges = set()
    sec_meta = {}

    def touch(idx, show_attrs=True, with_defaults=None):
        nd = nodes_desc[idx]
        key = node_key(nd)
        attrs = dict(apply_all)
        if show_attrs:
            attrs.update(attrs_expected(nd['attrs']))
        attrs['order'] = nd['order']
        attrs['atomname'] = nd['name']
        if key in nodes:
            nodes[key].update(attrs)
        else:
            base = dict(with_defaults or {})
            base.update(attrs)
            nodes[key] = base
        return key

    for sub in sec['subs']:
        name = sub['sec']
        if name == 'atoms':
            for line in sub['lines']:
                touch(line['node'], show_attrs=line.get('show', True),
                      with_defaults={'PTM_atom': False} if sec['kind'] == 'modification' else None)
                if sec['kind'] == 'modification':
                    nodes[node_key(nodes_desc[line['node']])].setdefault('PTM_atom', False)
        elif name == 'patterns':
            for pat in sub['lines']:
                row = []
                for i, show in pat:
                    nd = nodes_desc[i]
                    row.append([node_key(nd), attrs_expected(nd['attrs']) if show and nd['attrs'] else {}])
                patterns.append(row)
        elif name == 'features':
            features.update(sub['names'])
        elif name == 'non-edges':
            for i, j in sub['pairs']:
                nd = nodes_desc[j]
                full = dict(apply_all)
                full.update(attrs_expected(nd['attrs']))
                full['order'] = nd['order']
                full['atomname'] = nd['name']
                non_edges.append([node_key(nodes_desc[i]), full])
        elif name == 'molmeta':
            for k, v in sub['items']:
                molmeta[k] = v
        else:
            delete = name.startswith('!')
            base = name[1:] if delete else name
            meta_acc = sec_meta.setdefault(base, {})
            for line in sub['lines']:
                if 'meta_line' in line:
                    meta_acc.update(line['meta_line'])
                    continue
                keys = tuple(touch(i, show_attrs=sh) for i, sh in zip(line['atoms'], line['show_attrs']))
                params = []
                for p in line['params']:
                    if '(' in p:
                        fname, rest = p.split('(', 1)
                        rest = rest[:-1]
                        fmt = None
                        if '|' in rest:
                            rest, fmt = rest.split('|')
                        params.append(('effector', fname, [node_key(nodes_desc[line['atoms'][int(i)]]) for i in rest.split(',')], fmt))
                    else:
                        params.append(p)
                meta = _merge_meta(line['meta'], meta_acc)
                if delete:
                    atom_attrs = []
                    for i, sh, style in zip(line['atoms'], line['show_attrs'], line['style']):
                        nd = nodes_desc[i]
                        d = attrs_expected(nd['attrs']) if sh else {}
                        if nd['order'] != 0 and style in ('attr', 'both'):
                            d = dict(d, order=nd['order'])
                        atom_attrs.append(d)
                    removed.setdefault(base, []).append((keys, params, meta, atom_attrs))
                else:
                    target = base
                    if target == 'dihedrals' and params and params[0] == '2':
                        target = 'impropers'
                    inter.setdefault(target, []).append((keys, params, meta))
    # only links derive edges from their interactions; a modification's edges are those listed under [ edges ]
    for itype in (EDGE_SECTIONS if sec['kind'] == 'link' else ()):
        for atoms, params, meta in inter.get(itype, []):
            if meta.get('edge', True):
                for a, b in zip(atoms[:-1], atoms[1:]):
                    if a != b:
                        edges.add(frozenset((a, b)))
                    else:
                        edges.add(frozenset((a,)))
    return {'kind': sec['kind'], 'name': sec.get('name'), 'nodes': list(nodes.items()), 'inter': inter, 'removed': removed,
            'patterns': patterns, 'features': features, 'non_edges': non_edges, 'molmeta': molmeta, 'edges': edges}
