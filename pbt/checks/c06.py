"""
C06  Subgraph matching (vermouth.ismags.ISMAGS) is sound, complete and
symmetry-reduced.

ISMAGS(graph, subgraph, node_match, edge_match): `subgraph` is the *pattern*,
`graph` the *host*; every yielded mapping is a dict {host node: pattern node}
(docstring of find_isomorphisms, and vermouth/processors/repair_graph.py uses it
that way).  Symmetry reduction is with respect to the automorphisms of the
pattern only.

Oracle (independent of the implementation):
  * soundness of one mapping: checked directly from the definition of a
    colour-preserving node-induced subgraph isomorphism (own code);
  * the full set I of isomorphisms and the colour-preserving automorphism group
    A of the pattern: networkx VF2 GraphMatcher;
  * symmetry=False: yielded multiset == I;
  * symmetry=True: A acts freely on I by f -> f o sigma; the orbit of every
    yielded mapping is generated and marked in I: no element may be marked
    twice (orbit hit twice), at the end all of I must be marked (no orbit
    missed).  Cost O(|I| * |pattern|) whatever |A| is, because |A| divides |I|.
  * largest common subgraph: reference maximum by descending enumeration of
    pattern node subsets with VF2.
"""
import hashlib
import itertools
import os

import networkx as nx
from networkx.algorithms.isomorphism import GraphMatcher
from hypothesis import strategies as st

from pbt.core import Part, Outcome, Violation, HarnessError

from vermouth.ismags import ISMAGS

PROPERTY = 'C06'
LEVEL = 'exploration'
RULE = (
    'exhaustive: every ordered pair (pattern, host) of labelled simple graphs on node keys 0..n-1 is enumerated completely - '
    'quick tier: all patterns with 0-4 nodes (76 graphs) x all hosts with 0-4 nodes (76 graphs) = 5 776 pairs, thorough tier: '
    'patterns 0-4 nodes x hosts 0-5 nodes (76 x 1 100 = 83 600 pairs); each pair is run (a) uncoloured with node_match=edge_match=None '
    'and (b) with one 2-colouring of nodes and edges derived by hashing (VERIF_SEED, pair) and colour-equality node_match/edge_match; '
    'isomorphism enumeration (symmetry on and off) and largest_common_subgraph are both checked on every pair.  '
    'random: G(n,p) hosts of 2-10 nodes with 1-3 node and 1-2 edge colours, arbitrary distinct int keys in arbitrary insertion order, '
    'edges inserted in arbitrary order/orientation; pattern = induced subgraph of the host on 1-6 nodes re-keyed and re-ordered '
    '(optionally with one pair/colour perturbed) or an independent G(m,p).  symmetric: pattern from a symmetric family with 6-12 nodes '
    '(cycle, path, star, spider, Pruefer tree, K_{m,n}, two copies of a tree joined by an edge or through a middle node, the shape of '
    'the comment at ismags.py:872, disjoint unions of 2-3 small graphs, prism, wheel, cube, Petersen, complete graph), optionally with a '
    'few nodes/edges recoloured; host = the same structure re-keyed, or extended by extra nodes, or two copies (optionally bridged), '
    'or one pair/colour perturbed, or a random graph; the symmetry-reduced enumeration is additionally run against two further re-keyed/re-ordered '
    'copies of the same host (|I|, A unchanged).  lcs: pattern 1-7 nodes (cycles and prisms up to 9 and 8 nodes) vs host 1-9 nodes, '
    'independent, or host = damaged pattern, or small symmetric families.  Non-trivial: isomorphism cases with |I| >= 2 and |A| >= 2 (the symmetry reduction has '
    'work to do); LCS cases whose maximum common size is smaller than the pattern (the shrinking search ran).')
ASSUMPTIONS = [
    'graph = host, subgraph = pattern; yielded dicts map host node -> pattern node (docstrings, repair_graph.py)',
    'only undirected simple graphs without self loops, int node keys (the module documents: undirected only, orderable keys)',
    'node/edge equality is equality of a colour attribute, hence transitive and symmetric as the module requires',
    'empty pattern: exactly one (empty) mapping is expected; non-empty pattern on an empty host: none',
    'LCS when not even one node pair is compatible (maximum size 0, non-empty pattern): yielding nothing or one empty mapping are both accepted',
    'LCS: the same mapping yielded more than once is counted (class lcs-duplicates) but not reported - the statement only says "returned"',
    'pairs with more than %d isomorphisms / %d maximum common mappings are skipped (class skipped-cap) to bound the cost',
]

IMAX = 6000      # cap on |I|
RMAX = 3000      # cap on number of maximum common subgraph mappings
LCS_EQUIV_BUDGET = 400000
ASSUMPTIONS[-1] = ASSUMPTIONS[-1] % (IMAX, RMAX)


# ---------------------------------------------------------------------------
# building the objects from a case

def build(desc):
    graph = nx.Graph()
    for key, col in desc['nodes']:
        if key in graph:
            raise HarnessError('duplicate node key in case')
        graph.add_node(key, c=col)
    for u, v, col in desc['edges']:
        if u == v or graph.has_edge(u, v) or u not in graph or v not in graph:
            raise HarnessError('bad edge in case')
        graph.add_edge(u, v, c=col)
    return graph


def _same_colour(attrs1, attrs2):
    return attrs1['c'] == attrs2['c']


def _matchers(case):
    return (_same_colour if case['nm'] else None,
            _same_colour if case['em'] else None)


def make_ismags(host, pat, case, **kwargs):
    node_match, edge_match = _matchers(case)
    return ISMAGS(host, pat, node_match=node_match, edge_match=edge_match, **kwargs)


# ---------------------------------------------------------------------------
# oracle

def why_invalid(host, pat, mapping, nm, em, pattern_nodes):
    """
    None if `mapping` ({host node: pattern node}) is a colour-preserving
    isomorphism between pat[pattern_nodes] and the subgraph of host induced
    by its keys; else a text saying what is wrong.  From the definition.
    """
    if not isinstance(mapping, dict):
        return 'not a dict: %r' % (mapping,)
    values = list(mapping.values())
    if len(set(values)) != len(values):
        return 'two host nodes map to the same pattern node'
    if set(values) != set(pattern_nodes):
        return 'mapped pattern nodes %r != required %r' % (sorted(values, key=repr), sorted(pattern_nodes))
    for gnode in mapping:
        if gnode not in host:
            return 'key %r is not a host node' % (gnode,)
    inv = {p: g for g, p in mapping.items()}
    if nm:
        for pnode, gnode in inv.items():
            if pat.nodes[pnode]['c'] != host.nodes[gnode]['c']:
                return 'node colours differ: pattern %r (%r) vs host %r (%r)' % (
                    pnode, pat.nodes[pnode]['c'], gnode, host.nodes[gnode]['c'])
    for p1, p2 in itertools.combinations(sorted(inv), 2):
        g1, g2 = inv[p1], inv[p2]
        pe = pat.has_edge(p1, p2)
        ge = host.has_edge(g1, g2)
        if pe != ge:
            return 'pattern pair (%r,%r) edge=%s but host pair (%r,%r) edge=%s (not induced)' % (p1, p2, pe, g1, g2, ge)
        if pe and em and pat.edges[p1, p2]['c'] != host.edges[g1, g2]['c']:
            return 'edge colours differ: pattern (%r,%r) vs host (%r,%r)' % (p1, p2, g1, g2)
    return None


def ref_isomorphisms(host, pat, nm, em, cap):
    """All {host: pattern} node-induced subgraph isomorphisms by VF2; at most cap+1."""
    if len(pat) == 0:
        return [{}]
    if len(host) < len(pat):
        return []
    matcher = GraphMatcher(host, pat, node_match=_same_colour if nm else None,
                           edge_match=_same_colour if em else None)
    return list(itertools.islice(matcher.subgraph_isomorphisms_iter(), cap + 1))


def ref_automorphisms(pat, nm, em, cap):
    if len(pat) == 0:
        return [{}]
    matcher = GraphMatcher(pat, pat, node_match=_same_colour if nm else None,
                           edge_match=_same_colour if em else None)
    return list(itertools.islice(matcher.isomorphisms_iter(), cap + 1))


def ref_lcs(host, pat, nm, em, cap):
    """
    (size, mappings) of all maximum common induced subgraphs, mappings as
    {host: pattern}; mappings is None when there are more than cap.
    """
    if len(pat) == 0:
        return 0, [{}]
    pnodes = sorted(pat)
    for size in range(min(len(pat), len(host)), 0, -1):
        found = []
        for subset in itertools.combinations(pnodes, size):
            sub = pat.subgraph(subset).copy()
            matcher = GraphMatcher(host, sub, node_match=_same_colour if nm else None,
                                   edge_match=_same_colour if em else None)
            found.extend(itertools.islice(matcher.subgraph_isomorphisms_iter(), cap + 1 - len(found)))
            if len(found) > cap:
                return size, None
        if found:
            return size, found
    return 0, []


def _show(mapping):
    try:
        return repr(dict(sorted(mapping.items())))
    except Exception:  # pylint: disable=broad-except
        return repr(mapping)


def _check_symmetric(ismags, host, pat, case, pnodes, auts, n_ref, ref_keys, ref):
    """
    symmetry=True must yield exactly one representative of every orbit of the
    n_ref isomorphisms under the pattern automorphisms `auts`.  ref_keys/ref
    (the reference set) may be None for a host that is a relabelled copy of a
    host for which n_ref is known; then "none missed" is decided by counting.
    """
    nm, em = case['nm'], case['em']
    got_sym = list(itertools.islice(ismags.subgraph_isomorphisms_iter(), n_ref + 1))
    mark = {}
    for idx, mapping in enumerate(got_sym):
        reason = why_invalid(host, pat, mapping, nm, em, pnodes)
        if reason:
            raise Violation('unsound', 'subgraph_isomorphisms_iter(symmetry=True) yielded %s which is not an induced '
                            'subgraph isomorphism: %s' % (_show(mapping), reason))
        if not auts:
            raise HarnessError('mapping %s is valid by definition but VF2 lists no isomorphism' % _show(mapping))
        inv = {p: g for g, p in mapping.items()}
        if ref_keys is not None and tuple(inv[p] for p in pnodes) not in ref_keys:
            raise HarnessError('mapping %s is valid by definition but VF2 does not list it' % _show(mapping))
        for sigma in auts:
            k = tuple(inv[sigma[p]] for p in pnodes)
            if ref_keys is not None and k not in ref_keys:
                raise HarnessError('orbit element not in I')
            other = mark.get(k)
            if other is not None:
                if other == idx:
                    raise HarnessError('automorphism group does not act freely')
                raise Violation('sym-orbit-twice', 'symmetry=True yielded two mappings that differ only by a symmetry of the '
                                'pattern: %s and %s (|I|=%d |A|=%d, expected %d mappings)' % (
                                    _show(got_sym[other]), _show(mapping), n_ref, len(auts), n_ref // len(auts)))
            mark[k] = idx
    if len(mark) > n_ref:
        raise HarnessError('more orbit elements than isomorphisms')
    if len(mark) != n_ref:
        if ref is not None:
            inv_key = lambda m: tuple({p: g for g, p in m.items()}[p] for p in pnodes)
            missing = _show(next(m for m in ref if inv_key(m) not in mark))
        else:
            missing = '(one of the %d isomorphisms onto a relabelled copy of the host)' % n_ref
        raise Violation('sym-orbit-missed', 'symmetry=True yielded %d mappings, expected %d (|I|=%d |A|=%d); isomorphism %s '
                        'is not symmetry-equivalent to any yielded mapping' % (
                            len(got_sym), n_ref // len(auts), n_ref, len(auts), missing))
    return got_sym


def check_isomorphisms(host, pat, case, more_hosts=()):
    nm, em = case['nm'], case['em']
    pnodes = sorted(pat)
    classes = []
    ref = ref_isomorphisms(host, pat, nm, em, IMAX)
    if len(ref) > IMAX:
        return ['skipped-cap'], False
    for mapping in ref[:3]:
        reason = why_invalid(host, pat, mapping, nm, em, pnodes)
        if reason:
            raise HarnessError('VF2 reference mapping rejected by the definition: %s' % reason)

    def key(mapping):
        inv = {p: g for g, p in mapping.items()}
        return tuple(inv[p] for p in pnodes)

    ref_keys = set(key(m) for m in ref)
    if len(ref_keys) != len(ref):
        raise HarnessError('VF2 reference yields duplicates')
    if ref:
        auts = ref_automorphisms(pat, nm, em, IMAX)
        if len(auts) > len(ref) or len(ref) % len(auts):
            raise HarnessError('|A|=%d does not divide |I|=%d' % (len(auts), len(ref)))
    else:
        auts = None

    # --- symmetry=False: every isomorphism exactly once
    ismags = make_ismags(host, pat, case)
    got = list(itertools.islice(ismags.find_isomorphisms(False), len(ref) + 1))
    seen = set()
    for mapping in got:
        reason = why_invalid(host, pat, mapping, nm, em, pnodes)
        if reason:
            raise Violation('unsound', 'find_isomorphisms(symmetry=False) yielded %s which is not an induced subgraph '
                            'isomorphism: %s' % (_show(mapping), reason))
        k = key(mapping)
        if k not in ref_keys:
            raise HarnessError('mapping %s is valid by definition but VF2 does not list it' % _show(mapping))
        if k in seen:
            raise Violation('nosym-duplicate', 'find_isomorphisms(symmetry=False) yielded %s more than once' % _show(mapping))
        seen.add(k)
    if len(seen) != len(ref_keys):
        missing = next(m for m in ref if key(m) not in seen)
        raise Violation('nosym-missing', 'find_isomorphisms(symmetry=False) yielded %d of %d isomorphisms; e.g. %s is missing'
                        % (len(seen), len(ref_keys), _show(missing)))

    # --- symmetry=True (the default): exactly one representative per orbit of I under A
    ismags = make_ismags(host, pat, case)
    got_sym = _check_symmetric(ismags, host, pat, case, pnodes, auts, len(ref), ref_keys, ref)
    # --- the same pattern against re-keyed / re-ordered copies of the host: |I| is the same, A is the same
    for other in more_hosts:
        if len(other) != len(host) or other.number_of_edges() != host.number_of_edges():
            raise HarnessError('extra host is not a copy of the host')
        _check_symmetric(make_ismags(other, pat, case), other, pat, case, pnodes, auts, len(ref), None, None)

    # --- the other entry points
    if len(host) == len(pat):
        full = list(itertools.islice(ismags.isomorphisms_iter(symmetry=False), len(ref) + 1))
        keys_full = []
        for mapping in full:
            reason = why_invalid(host, pat, mapping, nm, em, pnodes)
            if reason:
                raise Violation('unsound', 'isomorphisms_iter yielded %s: %s' % (_show(mapping), reason))
            keys_full.append(key(mapping))
        if sorted(keys_full) != sorted(ref_keys):
            raise Violation('iso-iter', 'isomorphisms_iter(symmetry=False) yielded %d mappings (%d distinct), expected the %d '
                            'isomorphisms' % (len(keys_full), len(set(keys_full)), len(ref)))
        classes.append('same-size')
    else:
        full = list(itertools.islice(ismags.isomorphisms_iter(), 1))
        if full:
            raise Violation('iso-iter', 'isomorphisms_iter yielded %s for graphs of different size' % _show(full[0]))
    for sym in (False, True):
        if bool(ismags.subgraph_is_isomorphic(sym)) != bool(ref):
            raise Violation('bool', 'subgraph_is_isomorphic(%s) is %s but there are %d isomorphisms' % (
                sym, ismags.subgraph_is_isomorphic(sym), len(ref)))
        expect = bool(ref) and len(host) == len(pat)
        if bool(ismags.is_isomorphic(sym)) != expect:
            raise Violation('bool', 'is_isomorphic(%s) is %s, expected %s' % (sym, ismags.is_isomorphic(sym), expect))

    # --- a symmetry cache shared between ISMAGS objects (as repair_graph passes one) must not change the answer.
    # The cache is first filled by matching the colour-less version of the pattern (same nodes and edges).
    if case.get('cache'):
        cache = {}
        blank = nx.Graph()
        blank.add_nodes_from(pat.nodes, c=0)
        blank.add_edges_from(pat.edges, c=0)
        warm = make_ismags(blank, blank, case, cache=cache)
        n_blank = len(list(itertools.islice(warm.find_isomorphisms(True), 2)))
        if n_blank != 1:
            raise Violation('sym-self', 'symmetry=True yields %d mappings of the colour-less pattern onto itself, expected 1' % n_blank)
        # ... and by re-coloured versions of the pattern: same nodes, edges and number of nodes per colour, but the colours
        # sit on other nodes (what consecutive residues of one type but different chemistry look like to repair_graph)
        colours = [pat.nodes[n].get('c', 0) for n in pat.nodes]
        if len(set(colours)) > 1:
            order = list(pat.nodes)
            for shift in (1, 2):
                rec = nx.Graph()
                rec.add_nodes_from((n, {'c': colours[(i + shift) % len(order)]}) for i, n in enumerate(order))
                rec.add_edges_from(pat.edges(data=True))
                list(itertools.islice(make_ismags(rec, rec, case, cache=cache).find_isomorphisms(True), 3))
            classes.append('cache-recoloured')
        for turn in range(2):
            cached = make_ismags(host, pat, case, cache=cache)
            got_cached = list(itertools.islice(cached.find_isomorphisms(True), len(ref) + 1))
            if got_cached != got_sym:
                raise Violation('cache', 'with a shared cache= (use %d) symmetry=True yields %d mappings, without cache %d (or '
                                'other mappings/order)' % (turn + 1, len(got_cached), len(got_sym)))
        classes.append('cache')

    n_aut = len(auts) if auts else 0
    if ref:
        classes.append('match')
        if len(ref) >= 2:
            classes.append('I>=2')
        if n_aut >= 2:
            classes.append('A>=2')
        if n_aut >= 12:
            classes.append('A>=12')
        if n_aut >= 100:
            classes.append('A>=100')
        if len(ref) > n_aut >= 2:
            classes.append('several-orbits')
    else:
        classes.append('no-match')
    return classes, bool(ref) and len(ref) >= 2 and n_aut >= 2


def check_lcs(host, pat, case):
    nm, em = case['nm'], case['em']
    classes = []
    size, ref = ref_lcs(host, pat, nm, em, RMAX)
    if ref is None:
        return ['skipped-cap'], False

    def key(mapping):
        return tuple(sorted(mapping.items()))

    ref_keys = set(key(m) for m in ref)
    limit = 20 * (len(ref) + 5)
    results = {}
    for sym in (False, True):
        ismags = make_ismags(host, pat, case)
        if sym:
            got = list(itertools.islice(ismags.largest_common_subgraph(), limit + 1))
        else:
            got = list(itertools.islice(ismags.largest_common_subgraph(symmetry=False), limit + 1))
        if len(got) > limit:
            raise Violation('lcs-runaway', 'largest_common_subgraph(symmetry=%s) yielded more than %d mappings while only '
                            '%d maximum common subgraph mappings exist' % (sym, limit, len(ref)))
        for mapping in got:
            if not isinstance(mapping, dict):
                raise Violation('lcs-unsound', 'largest_common_subgraph yielded %r' % (mapping,))
            if len(mapping) != size:
                if size == 0 or len(mapping) > size:
                    reason = why_invalid(host, pat, mapping, nm, em, set(mapping.values()))
                    if reason is None:
                        raise HarnessError('reference LCS size %d but valid mapping of size %d' % (size, len(mapping)))
                    raise Violation('lcs-unsound', 'largest_common_subgraph(symmetry=%s) yielded %s: %s' % (
                        sym, _show(mapping), reason))
                raise Violation('lcs-size', 'largest_common_subgraph(symmetry=%s) yielded %s with %d nodes but a common induced '
                                'subgraph with %d nodes exists, e.g. %s' % (sym, _show(mapping), len(mapping), size, _show(ref[0])))
            reason = why_invalid(host, pat, mapping, nm, em, set(mapping.values()))
            if reason:
                raise Violation('lcs-unsound', 'largest_common_subgraph(symmetry=%s) yielded %s which is not a common induced '
                                'subgraph: %s' % (sym, _show(mapping), reason))
            if key(mapping) not in ref_keys:
                raise HarnessError('valid maximum mapping %s not in reference' % _show(mapping))
        results[sym] = got
        if len(set(key(m) for m in got)) != len(got):
            classes.append('lcs-duplicates')

    if size == 0 and len(pat) > 0:
        # nothing is compatible at all: [] and [{}] both accepted
        classes.append('lcs-size0')
        return classes, False
    got_keys = set(key(m) for m in results[False])
    if got_keys != ref_keys:
        missing = next(m for m in ref if key(m) not in got_keys)
        raise Violation('lcs-nosym-missing', 'largest_common_subgraph(symmetry=False) yielded %d of the %d maximum (size %d) '
                        'common subgraph mappings; e.g. %s is missing' % (len(got_keys), len(ref_keys), size, _show(missing)))
    if not results[True]:
        raise Violation('lcs-sym-missing', 'largest_common_subgraph(symmetry=True) yielded nothing but %d common subgraph '
                        'mappings of size %d exist, e.g. %s' % (len(ref), size, _show(ref[0])))
    auts = ref_automorphisms(pat, nm, em, 5040)
    n_aut = len(auts)
    sym_keys = set(key(m) for m in results[True])
    if n_aut > 5040 or n_aut * len(sym_keys) > LCS_EQUIV_BUDGET:
        classes.append('lcs-equiv-skipped')
    else:
        closure = set()
        for mapping in results[True]:
            items = list(mapping.items())
            for sigma in auts:
                closure.add(tuple(sorted((g, sigma[p]) for g, p in items)))
        if not ref_keys <= closure:
            missing = next(m for m in ref if key(m) not in closure)
            raise Violation('lcs-sym-missing', 'largest_common_subgraph(symmetry=True): maximum common subgraph mapping %s '
                            '(size %d) is not equivalent under the %d pattern symmetries to any of the %d yielded mappings'
                            % (_show(missing), size, n_aut, len(sym_keys)))
        if len(sym_keys) < len(ref_keys):
            classes.append('lcs-reduced')
    if size < len(pat):
        classes.append('lcs-shrunk')
        if len(pat) - size >= 2:
            classes.append('lcs-shrunk>=2')
    else:
        classes.append('lcs-full')
    if n_aut >= 2:
        classes.append('lcs-A>=2')
    if n_aut >= 2 and size < len(pat):
        classes.append('lcs-shrunk-A>=2')
    return classes, size < len(pat)


REUSE_OPS = ['bool-sub-T', 'bool-sub-F', 'bool-iso', 'iso-T', 'iso-F', 'iso-first', 'lcs-T', 'lcs-F', 'lcs-first']
REUSE_CAP = 400


def _reuse_ops(number):
    """A query sequence derived from one drawn integer (three in four numbers give one): 2-4 operations."""
    if number % 4 == 3:
        return []
    bits = int.from_bytes(hashlib.blake2b(b'reuse/%d' % number, digest_size=8).digest(), 'big')
    return [REUSE_OPS[(bits >> (8 * i)) % len(REUSE_OPS)] for i in range(2 + bits % 3)]


def _reuse_query(ismags, op):
    """One query on an ISMAGS object, result in a comparable form (order of the yielded mappings is not part of it)."""
    def keys(mappings):
        return sorted(tuple(sorted(m.items())) if isinstance(m, dict) else ('<not a dict>', repr(m)) for m in mappings)
    if op == 'bool-sub-T':
        return bool(ismags.subgraph_is_isomorphic(True))
    if op == 'bool-sub-F':
        return bool(ismags.subgraph_is_isomorphic(False))
    if op == 'bool-iso':
        return bool(ismags.is_isomorphic(True))
    if op == 'iso-T':
        return keys(itertools.islice(ismags.find_isomorphisms(True), REUSE_CAP))
    if op == 'iso-F':
        return keys(itertools.islice(ismags.find_isomorphisms(False), REUSE_CAP))
    if op == 'iso-first':
        return keys(itertools.islice(ismags.subgraph_isomorphisms_iter(True), 1))
    if op == 'lcs-T':
        return keys(itertools.islice(ismags.largest_common_subgraph(True), REUSE_CAP))
    if op == 'lcs-F':
        return keys(itertools.islice(ismags.largest_common_subgraph(False), REUSE_CAP))
    if op == 'lcs-first':
        return keys(itertools.islice(ismags.largest_common_subgraph(True), 1))
    raise HarnessError('unknown reuse op %r' % op)


def check_reuse(host, pat, case):
    """
    Several queries on ONE ISMAGS object (is it contained? if not, what is the largest common part? ...): every answer must
    be the one a fresh object gives for that query alone.  The fresh answers themselves are judged against the reference
    matcher by check_isomorphisms / check_lcs in the same case.
    """
    ops = case['reuse']
    shared = make_ismags(host, pat, case)
    for pos, op in enumerate(ops):
        fresh = _reuse_query(make_ismags(host, pat, case), op)
        got = _reuse_query(shared, op)
        if got != fresh:
            raise Violation('reuse', 'query %d (%s) on an ISMAGS object that already answered %r gives %s, a fresh object gives %s'
                            % (pos + 1, op, ops[:pos], _show_result(got), _show_result(fresh)))
    classes = ['reuse']
    if any(op.startswith('lcs') for op in ops[1:]) and any(not op.startswith('lcs') for op in ops):
        classes.append('reuse-mixed')
    return classes


def _show_result(res):
    if isinstance(res, bool):
        return repr(res)
    return '%d mappings%s' % (len(res), (' e.g. %r' % (dict(res[0]),)) if res else '')


def run_case(case):
    host = build(case['host'])
    pat = build(case['pat'])
    classes = []
    nontrivial = False
    if 'iso' in case['do']:
        more = [build(desc) for desc in case.get('more_hosts', ())]
        cls, nt = check_isomorphisms(host, pat, case, more)
        classes += cls
        if more and 'skipped-cap' not in cls:
            classes.append('more-hosts')
        nontrivial = nontrivial or nt
    if 'lcs' in case['do']:
        cls, nt = check_lcs(host, pat, case)
        classes += cls
        nontrivial = nontrivial or nt
    if case.get('reuse'):
        classes += check_reuse(host, pat, case)
    if case['nm'] and len({c for _, c in case['pat']['nodes']}) > 1:
        classes.append('node-colours')
    if case['em'] and len({c for _, _, c in case['pat']['edges']}) > 1:
        classes.append('edge-colours')
    if case.get('kind'):
        classes.append('kind:' + case['kind'])
    return Outcome(classes, nontrivial)


# ---------------------------------------------------------------------------
# part (i): exhaustive

_REUSE_SEQUENCES = [['bool-sub-T', 'lcs-T'], ['iso-first', 'lcs-F'], ['lcs-T', 'iso-T'], ['bool-iso', 'lcs-T', 'iso-F'],
                    ['iso-F', 'lcs-T', 'iso-T'], ['lcs-first', 'iso-T', 'lcs-F'], ['bool-sub-F', 'iso-T', 'lcs-T']]


def _labelled_graphs(max_nodes):
    """(n, mask) for every labelled simple graph on 0..n-1, n = 0..max_nodes."""
    for n in range(max_nodes + 1):
        npairs = n * (n - 1) // 2
        for mask in range(1 << npairs):
            yield n, mask


def _desc_from_mask(n, mask, ncols=None, ecols=None):
    pairs = list(itertools.combinations(range(n), 2))
    edges = []
    for idx, (u, v) in enumerate(pairs):
        if mask >> idx & 1:
            edges.append([u, v, (ecols >> idx & 1) if ecols is not None else 0])
    nodes = [[i, (ncols >> i & 1) if ncols is not None else 0] for i in range(n)]
    return {'nodes': nodes, 'edges': edges}


def _enumerate_exhaustive(tier, shard, nshards):
    max_pat = 4
    max_host = 4 if tier == 'quick' else 5
    try:
        seed = int(os.environ.get('VERIF_SEED', '1'))
    except ValueError:
        seed = 1
    hosts = list(_labelled_graphs(max_host))
    idx = 0
    for pn, pmask in _labelled_graphs(max_pat):
        for hn, hmask in hosts:
            idx += 1
            if idx % nshards != shard:
                continue
            yield {'host': _desc_from_mask(hn, hmask), 'pat': _desc_from_mask(pn, pmask),
                   'nm': False, 'em': False, 'do': ['iso', 'lcs'], 'cache': False,
                   'reuse': _REUSE_SEQUENCES[idx % len(_REUSE_SEQUENCES)]}
            digest = hashlib.blake2b(('%d/%d/%d/%d/%d' % (seed, pn, pmask, hn, hmask)).encode(), digest_size=8).digest()
            bits = int.from_bytes(digest, 'big')
            yield {'host': _desc_from_mask(hn, hmask, bits & 31, bits >> 5 & 1023),
                   'pat': _desc_from_mask(pn, pmask, bits >> 15 & 15, bits >> 19 & 63),
                   'nm': True, 'em': bool(bits >> 25 & 1), 'do': ['iso', 'lcs'], 'cache': False,
                   'reuse': _REUSE_SEQUENCES[(bits >> 26) % len(_REUSE_SEQUENCES)]}


# ---------------------------------------------------------------------------
# drawing graphs

def _pairs(n):
    return list(itertools.combinations(range(n), 2))


@st.composite
def _gnp_edges(draw, n, density=None):
    pairs = _pairs(n)
    if not pairs:
        return []
    top = (1 << len(pairs)) - 1
    if density is None:
        density = draw(st.sampled_from(['sparse', 'mid', 'mid', 'dense']))
    mask = draw(st.integers(0, top))
    if density == 'sparse':
        mask &= draw(st.integers(0, top))
    elif density == 'dense':
        mask |= draw(st.integers(0, top))
    return [pair for idx, pair in enumerate(pairs) if mask >> idx & 1]


@st.composite
def _colours(draw, count, ncolours):
    if ncolours <= 1 or count == 0:
        return [0] * count
    return draw(st.lists(st.integers(0, ncolours - 1), min_size=count, max_size=count))


@st.composite
def _few_recoloured(draw, count, max_changed=2):
    """all 0 but up to max_changed entries 1."""
    cols = [0] * count
    if count:
        for idx in draw(st.lists(st.integers(0, count - 1), min_size=1, max_size=max_changed)):
            cols[idx] = 1
    return cols


@st.composite
def _describe(draw, n, edges, ncols, ecols):
    """
    Structure on 0..n-1 -> case description with arbitrary distinct int keys,
    arbitrary node insertion order, arbitrary edge insertion order/orientation.
    """
    keys = draw(st.lists(st.integers(-9, 60), min_size=n, max_size=n, unique=True))
    order = list(draw(st.permutations(list(range(n))))) if n else []
    # structural node i gets keys[order[i]]; insertion order is the order of `keys`
    key_of = [keys[order[i]] for i in range(n)]
    col_of = {key_of[i]: ncols[i] for i in range(n)}
    nodes = [[k, col_of[k]] for k in keys]
    eorder = list(draw(st.permutations(list(range(len(edges)))))) if edges else []
    flips = draw(st.integers(0, (1 << len(edges)) - 1)) if edges else 0
    out = []
    for j in eorder:
        u, v = edges[j]
        a, b = key_of[u], key_of[v]
        if flips >> j & 1:
            a, b = b, a
        out.append([a, b, ecols[j]])
    return {'nodes': nodes, 'edges': out}


def _match_flags(draw, knc, kec):
    nm = draw(st.booleans()) if knc == 1 else draw(st.sampled_from([True, True, True, False]))
    em = draw(st.booleans()) if kec == 1 else draw(st.sampled_from([True, True, True, False]))
    return nm, em


# ---------------------------------------------------------------------------
# part (ii): random

@st.composite
def _strategy_random_case(draw, tier):
    n = draw(st.integers(2, 10))
    hedges = draw(_gnp_edges(n))
    knc = draw(st.sampled_from([1, 2, 2, 3]))
    kec = draw(st.sampled_from([1, 2, 2]))
    hnc = draw(_colours(n, knc))
    hec = draw(_colours(len(hedges), kec))
    kind = draw(st.sampled_from(['induced', 'induced', 'induced', 'perturbed', 'independent']))
    if kind == 'independent':
        m = draw(st.integers(0, 6))
        pedges = draw(_gnp_edges(m))
        pnc = draw(_colours(m, knc))
        pec = draw(_colours(len(pedges), kec))
    else:
        m = draw(st.integers(1, min(n, 6)))
        chosen = list(draw(st.permutations(list(range(n)))))[:m]
        index = {h: i for i, h in enumerate(chosen)}
        pnc = [hnc[h] for h in chosen]
        edge_col = {}
        for (u, v), col in zip(hedges, hec):
            if u in index and v in index:
                edge_col[tuple(sorted((index[u], index[v])))] = col
        if kind == 'perturbed':
            what = draw(st.sampled_from(['pair', 'pair', 'node-colour', 'edge-colour']))
            if what == 'pair' and m >= 2:
                pair = draw(st.sampled_from(_pairs(m)))
                if pair in edge_col:
                    del edge_col[pair]
                else:
                    edge_col[pair] = draw(st.integers(0, kec - 1))
            elif what == 'node-colour':
                idx = draw(st.integers(0, m - 1))
                pnc[idx] = (pnc[idx] + 1) % max(knc, 2)
            elif edge_col:
                pair = draw(st.sampled_from(sorted(edge_col)))
                edge_col[pair] = (edge_col[pair] + 1) % max(kec, 2)
        pedges = sorted(edge_col)
        pec = [edge_col[e] for e in pedges]
    nm, em = _match_flags(draw, knc, kec)
    return {'host': draw(_describe(n, hedges, hnc, hec)),
            'pat': draw(_describe(m, pedges, pnc, pec)),
            'nm': nm, 'em': em, 'do': ['iso'], 'cache': draw(st.sampled_from([False, False, False, True])),
            'reuse': _reuse_ops(draw(st.integers(0, 2 ** 20))),
            'kind': kind}


def _strategy_random(tier):
    return _strategy_random_case(tier)


# ---------------------------------------------------------------------------
# part (iii): symmetric families

def _cycle(n):
    assert n >= 3
    return n, [(i, (i + 1) % n) for i in range(n)]


def _path(n):
    return n, [(i, i + 1) for i in range(n - 1)]


def _spider(legs):
    """centre 0 with legs of the given lengths"""
    edges = []
    nxt = 1
    for length in legs:
        prev = 0
        for _ in range(length):
            edges.append((prev, nxt))
            prev = nxt
            nxt += 1
    return nxt, edges


def _prufer_tree(n, seq):
    """tree on 0..n-1 from a Pruefer sequence of length n-2 (own implementation)."""
    if n == 1:
        return 1, []
    if n == 2:
        return 2, [(0, 1)]
    degree = [1] * n
    for x in seq:
        degree[x] += 1
    edges = []
    for x in seq:
        leaf = min(i for i in range(n) if degree[i] == 1)
        edges.append((leaf, x))
        degree[leaf] -= 1
        degree[x] -= 1
    last = [i for i in range(n) if degree[i] == 1]
    edges.append((last[0], last[1]))
    return n, edges


def _kmn(a, b):
    return a + b, [(i, a + j) for i in range(a) for j in range(b)]


def _union(parts):
    n = 0
    edges = []
    for pn, pedges in parts:
        edges.extend((u + n, v + n) for u, v in pedges)
        n += pn
    return n, edges


def _prism(k):
    edges = [(i, (i + 1) % k) for i in range(k)]
    edges += [(k + i, k + (i + 1) % k) for i in range(k)]
    edges += [(i, k + i) for i in range(k)]
    return 2 * k, edges


def _wheel(k):
    return k + 1, [(0, i) for i in range(1, k + 1)] + [(i, i % k + 1) for i in range(1, k + 1)]


def _cube():
    return 8, [(u, v) for u in range(8) for v in range(u + 1, 8) if bin(u ^ v).count('1') == 1]


def _petersen():
    edges = [(i, (i + 1) % 5) for i in range(5)]
    edges += [(5 + i, 5 + (i + 2) % 5) for i in range(5)]
    edges += [(i, 5 + i) for i in range(5)]
    return 10, edges


def _complete(n):
    return n, _pairs(n)


_KMN = [(1, 6), (2, 5), (2, 6), (3, 4), (3, 5), (3, 6), (4, 4), (4, 5), (2, 7)]
# the shape in the comment at ismags.py:872: two centres joined, two legs of length two each
_FABIAN = (10, [(0, 1), (0, 2), (2, 3), (0, 4), (4, 5), (1, 6), (6, 7), (1, 8), (8, 9)])
FAMILIES = ['cycle', 'path', 'star', 'spider', 'tree', 'kmn', 'doubled-tree', 'fabian', 'union', 'prism', 'wheel',
            'cube', 'petersen', 'complete', 'cycles', 'star-of-stars', 'star-of-stars', 'star-of-stars', 'star-of-stars']


@st.composite
def _small_component(draw):
    kind = draw(st.sampled_from(['cycle', 'path', 'star', 'tree']))
    if kind == 'cycle':
        return _cycle(draw(st.integers(3, 6)))
    if kind == 'path':
        return _path(draw(st.integers(2, 5)))
    if kind == 'star':
        return _spider([1] * draw(st.integers(3, 4)))
    n = draw(st.integers(4, 6))
    return _prufer_tree(n, draw(st.lists(st.integers(0, n - 1), min_size=n - 2, max_size=n - 2)))


@st.composite
def _family(draw, name):
    if name == 'cycle':
        return _cycle(draw(st.integers(7, 12)))
    if name == 'path':
        return _path(draw(st.integers(7, 12)))
    if name == 'star':
        return _spider([1] * draw(st.integers(5, 7)))
    if name == 'spider':
        legs = draw(st.lists(st.integers(1, 3), min_size=3, max_size=6))
        while sum(legs) > 11:
            legs = legs[:-1]
        return _spider(legs)
    if name == 'tree':
        n = draw(st.integers(7, 12))
        return _prufer_tree(n, draw(st.lists(st.integers(0, n - 1), min_size=n - 2, max_size=n - 2)))
    if name == 'kmn':
        return _kmn(*draw(st.sampled_from(_KMN)))
    if name == 'doubled-tree':
        m = draw(st.integers(3, 6))
        tn, tedges = _prufer_tree(m, draw(st.lists(st.integers(0, m - 1), min_size=m - 2, max_size=m - 2)))
        root = draw(st.integers(0, m - 1))
        n, edges = _union([(tn, tedges), (tn, tedges)])
        if draw(st.integers(0, 3)) == 0 and n < 12:
            edges += [(root, n), (n, root + m)]
            n += 1
        else:
            edges.append((root, root + m))
        return n, edges
    if name == 'fabian':
        return _FABIAN
    if name == 'union':
        first = draw(_small_component())
        copies = draw(st.sampled_from([2, 2, 3]))
        parts = [first] * copies
        while sum(p[0] for p in parts) > 12:
            parts = parts[:-1]
        if draw(st.integers(0, 2)) == 0:
            other = draw(_small_component())
            if sum(p[0] for p in parts) + other[0] <= 12:
                parts.append(other)
            else:
                parts[-1] = other
        return _union(parts)
    if name == 'star-of-stars':
        # three or four equivalent arms that each carry two or three equivalent leaves (guanidinium, tert-butyl, neopentane):
        # coupling one arm splits the leaves of the others into equally large cells
        arms, leaves, tail = draw(st.sampled_from([(3, 2, 0), (3, 2, 1), (3, 2, 2), (3, 3, 0), (4, 2, 0), (3, 2, 0)]))
        edges = []
        n = 1
        for _ in range(arms):
            arm = n
            edges.append((0, arm))
            n += 1
            for _ in range(leaves):
                edges.append((arm, n))
                n += 1
        prev = 0
        for _ in range(tail):
            edges.append((prev, n))
            prev = n
            n += 1
        return n, edges
    if name == 'cycles':
        # components that colour refinement cannot tell apart although they are not isomorphic (C5 + C3, C6 + C3 + C3)
        lengths = draw(st.lists(st.integers(3, 6), min_size=2, max_size=3))
        while sum(lengths) > 12:
            lengths = lengths[:-1]
        return _union([_cycle(k) for k in lengths])
    if name == 'prism':
        return _prism(draw(st.integers(3, 6)))
    if name == 'wheel':
        return _wheel(draw(st.integers(5, 9)))
    if name == 'cube':
        return _cube()
    if name == 'petersen':
        return _petersen()
    if name == 'complete':
        return _complete(draw(st.integers(5, 6)))
    raise HarnessError('unknown family %s' % name)


@st.composite
def _strategy_symmetric_case(draw, tier):
    name = draw(st.sampled_from(FAMILIES))
    n, edges = draw(_family(name))
    edges = [tuple(e) for e in edges]
    ncmode = draw(st.sampled_from(['none', 'none', 'few', 'random']))
    ecmode = draw(st.sampled_from(['none', 'none', 'none', 'few', 'random']))
    pnc = [0] * n if ncmode == 'none' else draw(_few_recoloured(n)) if ncmode == 'few' else draw(_colours(n, 2))
    pec = ([0] * len(edges) if ecmode == 'none' else draw(_few_recoloured(len(edges))) if ecmode == 'few'
           else draw(_colours(len(edges), 2)))
    knc = 1 if ncmode == 'none' else 2
    kec = 1 if ecmode == 'none' else 2
    hostkind = draw(st.sampled_from(['self', 'self', 'extended', 'extended', 'copies', 'perturbed', 'random']))
    hn, hedges, hnc, hec = n, list(edges), list(pnc), list(pec)
    if hostkind == 'extended':
        extra = draw(st.integers(1, 3))
        for _ in range(extra):
            targets = draw(st.lists(st.integers(0, hn - 1), min_size=1, max_size=2, unique=True))
            for t in targets:
                hedges.append((t, hn))
                hec.append(draw(st.integers(0, kec - 1)))
            hnc.append(draw(st.integers(0, knc - 1)))
            hn += 1
    elif hostkind == 'copies':
        hedges += [(u + n, v + n) for u, v in edges]
        hec += pec
        hnc += pnc
        hn = 2 * n
        if draw(st.booleans()):
            hedges.append((draw(st.integers(0, n - 1)), n + draw(st.integers(0, n - 1))))
            hec.append(0)
    elif hostkind == 'perturbed':
        what = draw(st.sampled_from(['pair', 'pair', 'node-colour', 'edge-colour']))
        if what == 'pair':
            pair = draw(st.sampled_from(_pairs(hn)))
            if pair in hedges or pair[::-1] in hedges:
                idx = hedges.index(pair) if pair in hedges else hedges.index(pair[::-1])
                del hedges[idx]
                del hec[idx]
            else:
                hedges.append(pair)
                hec.append(0)
        elif what == 'node-colour':
            idx = draw(st.integers(0, hn - 1))
            hnc[idx] = 1 - hnc[idx]
            knc = 2
        elif hedges:
            idx = draw(st.integers(0, len(hedges) - 1))
            hec[idx] = 1 - hec[idx]
            kec = 2
    elif hostkind == 'random':
        hn = draw(st.integers(n, 13))
        hedges = draw(_gnp_edges(hn, draw(st.sampled_from(['sparse', 'mid']))))
        hnc = draw(_colours(hn, knc))
        hec = draw(_colours(len(hedges), kec))
    nm, em = _match_flags(draw, knc, kec)
    return {'host': draw(_describe(hn, hedges, hnc, hec)),
            'pat': draw(_describe(n, edges, pnc, pec)),
            'more_hosts': [draw(_describe(hn, hedges, hnc, hec)) for _ in range(2)],
            'nm': nm, 'em': em, 'do': ['iso'], 'cache': draw(st.sampled_from([False, False, False, True])),
            'kind': name}


def _strategy_symmetric(tier):
    return _strategy_symmetric_case(tier)


# ---------------------------------------------------------------------------
# part (iv): largest common subgraph

@st.composite
def _small_family(draw):
    kind = draw(st.sampled_from(['cycle', 'path', 'star', 'spider', 'tree', 'kmn', 'union', 'wheel', 'prism']))
    if kind == 'cycle':
        return _cycle(draw(st.sampled_from([4, 5, 6, 7, 8, 9, 9])))
    if kind == 'path':
        return _path(draw(st.integers(3, 7)))
    if kind == 'star':
        return _spider([1] * draw(st.integers(3, 5)))
    if kind == 'spider':
        legs = draw(st.lists(st.integers(1, 2), min_size=3, max_size=4))
        while sum(legs) > 6:
            legs = legs[:-1]
        return _spider(legs)
    if kind == 'tree':
        n = draw(st.integers(4, 7))
        return _prufer_tree(n, draw(st.lists(st.integers(0, n - 1), min_size=n - 2, max_size=n - 2)))
    if kind == 'kmn':
        return _kmn(*draw(st.sampled_from([(2, 2), (2, 3), (2, 4), (3, 3), (3, 4), (2, 5)])))
    if kind == 'union':
        first = draw(st.sampled_from([_path(2), _path(3), _cycle(3), _spider([1, 1, 1])]))
        second = draw(st.sampled_from([first, first, _path(2), _path(3), _cycle(3)]))
        return _union([first, second])
    if kind == 'wheel':
        return _wheel(draw(st.integers(4, 6)))
    return _prism(draw(st.sampled_from([3, 3, 4])))


@st.composite
def _strategy_lcs_case(draw, tier):
    kind = draw(st.sampled_from(['independent', 'damaged', 'damaged', 'family', 'family']))
    knc = draw(st.sampled_from([1, 1, 1, 2, 3]))
    kec = draw(st.sampled_from([1, 1, 1, 2]))
    if kind == 'independent':
        n = draw(st.integers(1, 7))
        edges = draw(_gnp_edges(n))
    elif kind == 'damaged':
        n = draw(st.integers(3, 7))
        edges = draw(_gnp_edges(n))
    else:
        n, edges = draw(_small_family())
        edges = [tuple(e) for e in edges]
    if kind == 'family' and knc > 1:
        pnc = draw(_few_recoloured(n))
        knc = 2
    else:
        pnc = draw(_colours(n, knc))
    pec = draw(_colours(len(edges), kec))
    if kind == 'independent' or (kind == 'family' and draw(st.integers(0, 3)) == 0):
        if kind == 'family':
            hn, hedges = draw(_small_family())
            hedges = [tuple(e) for e in hedges]
        else:
            hn = draw(st.integers(1, 8))
            hedges = draw(_gnp_edges(hn))
        hnc = draw(_colours(hn, knc))
        hec = draw(_colours(len(hedges), kec))
    else:
        # host = pattern with some nodes removed, some pairs flipped, some nodes added
        keep = list(range(n))
        ndrop = draw(st.integers(0, 2))
        for _ in range(min(ndrop, n - 1)):
            keep.remove(draw(st.sampled_from(keep)))
        index = {old: new for new, old in enumerate(keep)}
        hn = len(keep)
        edge_col = {}
        for (u, v), col in zip(edges, pec):
            if u in index and v in index:
                edge_col[tuple(sorted((index[u], index[v])))] = col
        hnc = [pnc[old] for old in keep]
        nflip = draw(st.integers(0, 2))
        if hn >= 2:
            for _ in range(nflip):
                pair = draw(st.sampled_from(_pairs(hn)))
                if pair in edge_col:
                    del edge_col[pair]
                else:
                    edge_col[pair] = draw(st.integers(0, kec - 1))
        nadd = draw(st.integers(0, 2))
        for _ in range(nadd):
            if hn >= 8:
                break
            for t in draw(st.lists(st.integers(0, hn - 1), min_size=0, max_size=2, unique=True)):
                edge_col[(t, hn)] = draw(st.integers(0, kec - 1))
            hnc.append(draw(st.integers(0, knc - 1)))
            hn += 1
        if draw(st.integers(0, 4)) == 0:
            idx = draw(st.integers(0, hn - 1))
            hnc[idx] = (hnc[idx] + 1) % max(knc, 2)
        hedges = sorted(edge_col)
        hec = [edge_col[e] for e in hedges]
    nm, em = _match_flags(draw, knc, kec)
    return {'host': draw(_describe(hn, hedges, hnc, hec)),
            'pat': draw(_describe(n, edges, pnc, pec)),
            'nm': nm, 'em': em, 'do': ['lcs'], 'cache': False, 'kind': kind,
            'reuse': _reuse_ops(draw(st.integers(0, 2 ** 20)))}


def _strategy_lcs(tier):
    return _strategy_lcs_case(tier)


# One case takes at most a few seconds on the unchanged tree (slowest_case_s in the evidence).  A case that runs for
# three minutes is given up as inconclusive (class inconclusive:case-exceeded-180s), never reported as a violation.
CASE_TIMEOUT = 180

PARTS = [
    Part('exhaustive', run_case, case_timeout=CASE_TIMEOUT, enumerate=_enumerate_exhaustive,
         floors={'match': 0.05, 'A>=2': 0.03, 'several-orbits': 0.01, 'lcs-shrunk': 0.3, 'lcs-shrunk-A>=2': 0.2,
                 'node-colours': 0.2, 'edge-colours': 0.05}),
    Part('random', run_case, case_timeout=CASE_TIMEOUT, strategy=_strategy_random,
         examples={'quick': 1600, 'thorough': 40000},
         floors={'match': 0.4, 'no-match': 0.04, 'A>=2': 0.1, 'several-orbits': 0.05, 'node-colours': 0.08,
                 'edge-colours': 0.03, 'cache': 0.05, 'reuse': 0.5, 'reuse-mixed': 0.1}),
    Part('symmetric', run_case, case_timeout=CASE_TIMEOUT, strategy=_strategy_symmetric,
         examples={'quick': 1600, 'thorough': 32000},
         floors={'match': 0.4, 'no-match': 0.05, 'A>=12': 0.15, 'A>=100': 0.04, 'several-orbits': 0.04,
                 'node-colours': 0.1, 'edge-colours': 0.08, 'cache': 0.05, 'more-hosts': 0.8}),
    Part('lcs', run_case, case_timeout=CASE_TIMEOUT, strategy=_strategy_lcs,
         examples={'quick': 1200, 'thorough': 30000},
         floors={'lcs-shrunk': 0.4, 'lcs-shrunk>=2': 0.15, 'lcs-shrunk-A>=2': 0.25, 'lcs-reduced': 0.3, 'lcs-full': 0.08,
                 'node-colours': 0.1, 'edge-colours': 0.04, 'reuse': 0.5, 'reuse-mixed': 0.1}),
]


# ---------------------------------------------------------------------------
# matchers for known findings (referenced from known_findings.json)

def _match_refine_branch(params, part_name, case, violation):
    """
    Known finding: ISMAGS._refine_node_partitions(branch=True) loses orderings
    (generator exhausted after the first partial partition) and cells
    (`permutation[0]`), so analyze_symmetry finds too few symmetries of some
    patterns with >= 8 nodes or dies with KeyError in _find_node_edge_color.
    Matches only the symptoms crash / sym-orbit-twice / sym-self, the latter
    two only when the cosets reported by analyze_symmetry really describe
    fewer symmetries than exist.
    """
    pat = build(case['pat'])
    if len(pat) < params.get('min_pattern_nodes', 8):
        return False
    if violation.bucket == 'crash:KeyError:vermouth/ismags.py:_find_node_edge_color':
        return True
    if violation.bucket == 'sym-self':
        # the cache sub-check matches the colour-less pattern onto itself
        blank = nx.Graph()
        blank.add_nodes_from(pat.nodes, c=0)
        blank.add_edges_from(pat.edges, c=0)
        pat = blank
    elif violation.bucket != 'sym-orbit-twice':
        return False
    ismags = make_ismags(pat, pat, case)
    _, cosets = ismags.analyze_symmetry(pat, ismags._sgn_partitions, ismags._sge_colors)  # pylint: disable=protected-access
    described = 1
    for members in cosets.values():
        described *= len(members)
    return described < len(ref_automorphisms(pat, case['nm'], case['em'], IMAX))


MATCHERS = {'refine-branch-loses-orderings': _match_refine_branch}
