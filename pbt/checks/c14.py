"""
C14  Every unrecognised atom is explained by a known modification or reported.

A case is a toy force field (1-3 residue templates with unique atom names,
2-5 modifications written as ``.ff`` text and parsed by the real parser) and a
molecule of 1-5 residues on which modification instances are attached (the
ground-truth cover), optionally perturbed (unexplained atom, extra bond inside
a placement, extra bond to an outside atom, wrong element, missing atom, two
separate unexplained groups on the same residue(s) with different anchor
multisets).
The unrecognised atoms are flagged either directly or by the real RepairGraph.

Oracle (independent of vermouth's matcher): an own induced-subgraph matcher
(anchors by name, added atoms by element) enumerates candidate placements; an
own exact-cover search looks for a cover of the surviving flagged atoms that is
consistent with the names, `replace` changes and residue labels found in the
output.  Removed atoms need an unknown-input warning that names them
(<atomid>-<atomname>, as the documented warning does) and kept atoms are named
by none; when the ground-truth cover is intact nothing may be removed or
warned about.
"""
import re

import networkx as nx

from hypothesis import strategies as st

from pbt.core import Part, Outcome, Violation, HarnessError
from pbt.util import capture_logs

import vermouth
from vermouth.forcefield import ForceField
from vermouth.ffinput import read_ff
from vermouth.molecule import Molecule
from vermouth.processors.canonicalize_modifications import CanonicalizeModifications
from vermouth.processors.repair_graph import RepairGraph

PROPERTY = 'C14'
LEVEL = 'exploration'
RULE = ('toy force field: 1-3 residue templates (2-5 atoms, tree + optional ring, unique atom names per template) and 2-5 '
        'modifications (1-3 anchors by name, 1-4 added atoms by element from {H,O,P}; grown op by op so they stay connected; '
        'deliberately: sub-pattern of an earlier modification, shared first anchor, spanning two residues (bridge / ring / context '
        'anchor), added atoms on different anchors, replace attributes incl. renames of added atoms and of anchors, atomname null) '
        'written as .ff text and parsed by read_ff; molecule of 1-5 residues, 1-4 ground-truth instances attached (at most 6 flagged '
        'atoms in total because the implementation is factorial in the size of a group it cannot cover; optionally bonds between '
        'added atoms of different instances), in ~40% of the draws one perturbation (unexplained atom on a template atom / on an '
        'added atom / floating, extra bond inside a placement, extra bond to an outside template atom, wrong element, missing added '
        'atom, two separate unexplained one-atom groups on residue p: one on a single template atom, one bridging two template atoms '
        'of p, both optionally also bonded to an atom of residue p+1); flags set directly (2/3) or by the real RepairGraph (1/3).  Non-trivial = a connected group of flagged atoms holds '
        'added atoms of >= 2 ground-truth instances, or some flagged atom lies in >= 2 different candidate placements '
        '(overlapping candidates).')
ASSUMPTIONS = [
    'anchors are matched on the atom names the molecule has when CanonicalizeModifications starts (renames by `replace` apply afterwards)',
    'every added atom carries the resid of a residue that holds one of the anchors of its modification instance (what RepairGraph produces for real input)',
    'extra labels are tolerated on residues touched by the same connected group of flagged atoms (incl. its anchors); multiplicity of labels is not checked',
    'when the input was perturbed, removing (with a warning) a group for which the harness still finds a cover is accepted: the documentation '
    'only promises identification when a modification can be identified, and the implementation additionally demands all anchors be covered',
    'completeness (nothing removed, no warning) is only demanded for unperturbed ground truth whose renamed anchors are not needed by any other candidate placement',
    'no preference between several valid covers is checked (the documentation does not state one)',
]

BLOCK_ELEMS = ['C', 'N', 'O', 'S']
PTM_ELEMS = ['H', 'O', 'P']
TYPE_LETTERS = 'ABC'
MAX_PTM = 4
MAX_ANCHORS = 3
MAX_FLAGGED = 6
PERTURBATIONS = ['extra-atom-on-template', 'extra-atom-on-template', 'extra-atom-on-added', 'floating-atom',
                 'bond-inside-placement', 'bond-inside-placement', 'bond-inside-placement',
                 'bond-to-outside-template-atom', 'wrong-element', 'missing-atom', 'fake-anchor', 'fake-anchor',
                 'two-unknown-groups', 'two-unknown-groups']
UNKNOWN_ELEMS = ['F', 'H', 'O', 'F', 'P']
CHECKED_ATTRS = ('element', 'resid', 'resname', 'chain')
REPLACE_ATTRS = ('atype', 'charge')
D1_BUCKET = 'crash:AssertionError:vermouth/processors/canonicalize_modifications.py:identify_ptms'


# ---------------------------------------------------------------------------
# model: from the raw case (ints) to concrete templates / modifications

def resolve_blocks(case):
    blocks = []
    for t, spec in enumerate(case['blocks']):
        elems = spec['elems']
        n = len(elems)
        names = ['%s%s%d' % (elems[i], TYPE_LETTERS[t], i) for i in range(n)]
        edges = set()
        for i in range(1, n):
            edges.add((spec['parents'][i - 1] % i, i))
        if spec['ring'] is not None and n >= 3:
            a = spec['ring'][0] % n
            b = spec['ring'][1] % n
            if a != b:
                edges.add((min(a, b), max(a, b)))
        blocks.append({'name': 'R' + TYPE_LETTERS[t], 'names': names, 'elems': list(elems),
                       'edges': sorted(edges)})
    return blocks


def _template(blocks, types):
    """Graph over (res, atom) of one or two consecutive residues."""
    graph = nx.Graph()
    for r, t in enumerate(types):
        for i in range(len(blocks[t]['names'])):
            graph.add_node((r, i))
        for a, b in blocks[t]['edges']:
            graph.add_edge((r, a), (r, b))
    if len(types) == 2:
        graph.add_edge((0, len(blocks[types[0]]['names']) - 1), (1, 0))
    return graph


def _span_mode(spec):
    return ['ring', 'ring', 'bridge', 'bridge', 'bridge', 'bridge', 'bridge', 'context'][spec['span_mode'] % 8]


def _grow_mod(spec, blocks, types, a0):
    """Applies the op list; returns (nodes, edges).  nodes: dicts with kind
    'anchor' (res, atom) or 'ptm' (element)."""
    template = _template(blocks, types)
    nodes = [{'kind': 'anchor', 'res': a0[0], 'atom': a0[1]}]
    edges = set()

    def anchors():
        return [(n['res'], n['atom']) for n in nodes if n['kind'] == 'anchor']

    def ptms():
        return [i for i, n in enumerate(nodes) if n['kind'] == 'ptm']

    def add_ptm(parent, elem):
        nodes.append({'kind': 'ptm', 'element': PTM_ELEMS[elem % len(PTM_ELEMS)]})
        edges.add((parent, len(nodes) - 1))

    ops = [list(op) for op in spec['ops']]
    first = ops[0] if ops else [0, 0, 0, 0]
    add_ptm(0, first[3])
    if len(types) == 2:
        # make the modification really span: bridge over the first added atom,
        # or take the bonded pair tail/head as anchors
        current = anchors()
        mode = _span_mode(spec)
        if mode in ('ring', 'context') and a0 == (0, len(blocks[types[0]]['names']) - 1):
            # bonded pair tail/head as anchors; the first added atom sits on
            # both ('ring') or on the tail only ('context')
            nodes.append({'kind': 'anchor', 'res': 1, 'atom': 0})
            if mode == 'ring':
                edges.add((1, 2))
        else:
            cands = sorted(n for n in template if n[0] == 1 and n not in current)
            pick = cands[first[1] % len(cands)]
            nodes.append({'kind': 'anchor', 'res': pick[0], 'atom': pick[1]})
            edges.add((1, len(nodes) - 1))
    for code, x, y, elem in ops[1:]:
        code = code % 8
        plist = ptms()
        alist = anchors()
        if code <= 3:
            if len(plist) < MAX_PTM:
                # mostly grow from an added atom or from the first anchor, so
                # that the added atoms of one modification rarely fall apart
                # into groups attached to different residues
                if code <= 1:
                    add_ptm(plist[x % len(plist)], elem)
                elif code == 2:
                    add_ptm(0, elem)
                else:
                    add_ptm(x % len(nodes), elem)
        elif code == 4:
            if len(alist) < MAX_ANCHORS:
                cands = sorted(set(nb for a in alist for nb in template[a]) - set(alist))
                if cands:
                    pick = cands[x % len(cands)]
                    nodes.append({'kind': 'anchor', 'res': pick[0], 'atom': pick[1]})
        elif code == 5:
            if len(alist) < MAX_ANCHORS:
                cands = sorted(set(template) - set(alist))
                if cands:
                    pick = cands[x % len(cands)]
                    nodes.append({'kind': 'anchor', 'res': pick[0], 'atom': pick[1]})
                    edges.add((plist[y % len(plist)], len(nodes) - 1))
        else:
            p = plist[x % len(plist)]
            others = [i for i in range(len(nodes)) if i != p
                      and (min(i, p), max(i, p)) not in edges]
            if code == 6:
                # ring among the added atoms rather than a second bond to an anchor
                others = [i for i in others if nodes[i]['kind'] == 'ptm'] or others
            if others:
                o = others[y % len(others)]
                edges.add((min(o, p), max(o, p)))
    return nodes, edges, template


def _ptm_groups(nodes, edges):
    """Connected groups of added atoms of a modification with the sorted list
    of residues (0/1) of the anchors bonded to each."""
    graph = nx.Graph()
    ptm = [i for i, n in enumerate(nodes) if n['kind'] == 'ptm']
    graph.add_nodes_from(ptm)
    graph.add_edges_from((a, b) for a, b in edges if a in ptm and b in ptm)
    out = []
    for comp in sorted(nx.connected_components(graph), key=min):
        key = sorted(nodes[b if a in comp else a]['res'] for a, b in edges
                     if (a in comp) != (b in comp))
        out.append((tuple(key), comp))
    return out


def _finish_mod(index, spec, blocks, types, nodes, edges, template):
    """Normalises residues, adds the induced template edges between anchors,
    names, owner residues and replace attributes."""
    used_res = sorted(set(n['res'] for n in nodes if n['kind'] == 'anchor'))
    if used_res == [1]:
        for n in nodes:
            if n['kind'] == 'anchor':
                n['res'] = 0
        types = [types[1]]
        template = _template(blocks, types)
    elif used_res == [0]:
        types = [types[0]]
        template = _template(blocks, types)
    edges = set((min(a, b), max(a, b)) for a, b in edges)
    anchor_idx = [i for i, n in enumerate(nodes) if n['kind'] == 'anchor']
    for i in anchor_idx:
        for j in anchor_idx:
            if i < j and template.has_edge((nodes[i]['res'], nodes[i]['atom']),
                                           (nodes[j]['res'], nodes[j]['atom'])):
                edges.add((i, j))
    if spec['split'] % 10:
        # Unless asked for (1 in 10), the added atoms of one modification do not
        # fall apart into groups whose anchors lie in different residue lists:
        # such groups are joined by a bond between added atoms.
        while True:
            groups = _ptm_groups(nodes, edges)
            keys = sorted(set(k for k, _ in groups))
            if len(keys) < 2:
                break
            first = min(min(g) for k, g in groups if k == keys[0])
            second = min(min(g) for k, g in groups if k == keys[1])
            edges.add((min(first, second), max(first, second)))
    graph = nx.Graph()
    graph.add_nodes_from(range(len(nodes)))
    graph.add_edges_from(edges)
    if not nx.is_connected(graph):
        raise HarnessError('generated modification is not connected: %r %r' % (nodes, edges))
    taken = set()
    k = 0
    for i, n in enumerate(nodes):
        if n['kind'] == 'anchor':
            block = blocks[types[n['res']]]
            n['atomname'] = block['names'][n['atom']]
            n['element'] = block['elems'][n['atom']]
        else:
            num = spec['names'][k % len(spec['names'])] % 4
            k += 1
            name = '%sX%d' % (n['element'], num)
            while name in taken:
                num += 1
                name = '%sX%d' % (n['element'], num)
            taken.add(name)
            n['atomname'] = name
            # owner residue: residue of the nearest anchor (lowest index on ties)
            dist = nx.single_source_shortest_path_length(graph, i)
            best = min(anchor_idx, key=lambda a: (dist[a], a))
            n['res'] = nodes[best]['res']
    replace = {}
    for i, n in enumerate(nodes):
        r = spec['replace'][i % len(spec['replace'])]
        if n['kind'] == 'ptm':
            r = r % 8
            if r == 4:
                replace[i] = {'atomname': n['atomname']}
            elif r == 5:
                replace[i] = {'atomname': 'R' + n['atomname']}
            elif r == 6:
                replace[i] = {'atype': 'T%d%d' % (index, i)}
            elif r == 7:
                replace[i] = {'charge': index + i / 10.0 + 0.05}
        else:
            r = r % 12
            if r == 6:
                replace[i] = {'atype': 'Q%d%d' % (index, i)}
            elif r == 7:
                replace[i] = {'charge': -(index + i / 10.0 + 0.05)}
            elif r == 8:
                replace[i] = {'atomname': 'Z%d%s' % (index, n['atomname'])}
            elif r == 9:
                replace[i] = {'atomname': None}
            elif r == 10:
                replace[i] = {'atype': 'Q%d%d' % (index, i), 'charge': 1.0 + index}
    return {'name': 'M%d' % index, 'types': types, 'nodes': nodes, 'edges': sorted(edges),
            'replace': replace}


def resolve_mods(case, blocks):
    ntypes = len(blocks)
    mods = []
    raw = []   # (types, a0, ops-spec) per modification, for derived ones
    for index, spec in enumerate(case['mods']):
        kind = spec['kind'] % 6 if index else 0
        types = [spec['t1'] % ntypes]
        if spec['span']:
            types.append(spec['t2'] % ntypes)
        a0 = (0, spec['a0'] % len(blocks[types[0]]['names']))
        if spec['span'] and _span_mode(spec) != 'bridge':
            a0 = (0, len(blocks[types[0]]['names']) - 1)
        grow = spec
        if kind in (3, 4) and mods:
            # sub-pattern: the op list of an earlier modification, cut short
            base_types, base_a0, base_spec = raw[spec['base'] % len(raw)]
            nodes, edges, template = _grow_mod(base_spec, blocks, base_types, base_a0)
            nptm = sum(1 for n in nodes if n['kind'] == 'ptm')
            if nptm >= 2:
                keep_ptm = 1 + spec['drop'] % (nptm - 1)
                keep = []
                seen = 0
                for i, n in enumerate(nodes):
                    if n['kind'] == 'ptm':
                        seen += 1
                        if seen > keep_ptm:
                            break
                    keep.append(i)
                keep = set(keep)
                # drop anchors that lost their connection
                sub = nx.Graph()
                sub.add_nodes_from(keep)
                sub.add_edges_from((a, b) for a, b in edges if a in keep and b in keep)
                anchor_idx = [i for i in keep if nodes[i]['kind'] == 'anchor']
                for i in anchor_idx:
                    for j in anchor_idx:
                        if i < j and template.has_edge((nodes[i]['res'], nodes[i]['atom']),
                                                       (nodes[j]['res'], nodes[j]['atom'])):
                            sub.add_edge(i, j)
                comp = nx.node_connected_component(sub, 0)
                if any(nodes[i]['kind'] == 'ptm' for i in comp):
                    order = sorted(comp)
                    relabel = {old: new for new, old in enumerate(order)}
                    nodes2 = [dict(nodes[i]) for i in order]
                    edges2 = set((relabel[a], relabel[b]) for a, b in edges if a in comp and b in comp)
                    raw.append((base_types, base_a0, base_spec))
                    mods.append(_finish_mod(index, spec, blocks, list(base_types), nodes2, edges2, template))
                    mods[-1]['derived'] = True
                    continue
        elif kind == 5 and mods:
            # share the first anchor with an earlier modification
            base_types, base_a0, _ = raw[spec['base'] % len(raw)]
            if not spec['span']:
                types = [base_types[0]]
                a0 = base_a0
            elif _span_mode(spec) == 'bridge':
                types = [base_types[0], types[1]]
                a0 = base_a0
        nodes, edges, template = _grow_mod(grow, blocks, types, a0)
        raw.append((list(types), a0, grow))
        mods.append(_finish_mod(index, spec, blocks, list(types), nodes, edges, template))
    # two modifications with identical graphs and names would be the same
    # modification twice; that is fine for the property (either explains).
    return mods


def ff_text(blocks, mods):
    import json
    lines = []
    for block in blocks:
        lines += ['[ moleculetype ]', '%s 1' % block['name'], '[ atoms ]']
        for i, (name, elem) in enumerate(zip(block['names'], block['elems'])):
            lines.append('%d t%s 1 %s %s %d 0.0 {"element": "%s"}' % (
                i + 1, name, block['name'], name, i + 1, elem))
        if block['edges']:
            lines.append('[ edges ]')
            for a, b in block['edges']:
                lines.append('%s %s' % (block['names'][a], block['names'][b]))
        lines.append('')
    for mod in mods:
        keys = mod_keys(mod)
        lines += ['[ modification ]', mod['name'], '[ atoms ]']
        for i, node in enumerate(mod['nodes']):
            attrs = {'element': node['element']}
            if keys[i] != node['atomname']:
                attrs['atomname'] = node['atomname']
            if node['kind'] == 'ptm':
                attrs['PTM_atom'] = True
            if i in mod['replace']:
                attrs['replace'] = mod['replace'][i]
            lines.append('%s %s' % (keys[i], json.dumps(attrs)))
        lines.append('[ edges ]')
        for a, b in mod['edges']:
            lines.append('%s %s' % (keys[a], keys[b]))
        lines.append('')
    return lines


def mod_keys(mod):
    names = [n['atomname'] for n in mod['nodes']]
    keys = []
    for i, name in enumerate(names):
        if names.count(name) > 1:
            keys.append('%s_%d' % (name, i))
        else:
            keys.append(name)
    return keys


def build_force_field(blocks, mods):
    ff = ForceField(name='toy_c14')
    read_ff(ff_text(blocks, mods), ff)
    # harness sanity: the parser produced what the model says
    for mod in mods:
        parsed = ff.modifications.get(mod['name'])
        if parsed is None or len(parsed) != len(mod['nodes']) or parsed.number_of_edges() != len(mod['edges']):
            raise HarnessError('parsed modification %s differs from the model' % mod['name'])
        keys = mod_keys(mod)
        for i, node in enumerate(mod['nodes']):
            pnode = parsed.nodes[keys[i]]
            if (pnode['atomname'] != node['atomname'] or pnode['element'] != node['element']
                    or bool(pnode['PTM_atom']) != (node['kind'] == 'ptm')
                    or pnode.get('replace', None) != mod['replace'].get(i)):
                raise HarnessError('parsed modification %s node %s differs from the model' % (mod['name'], keys[i]))
    for block in blocks:
        if block['name'] not in ff.blocks:
            raise HarnessError('block %s was not parsed' % block['name'])
    return ff


# ---------------------------------------------------------------------------
# molecule

def build_molecule(case, blocks, mods, ff):
    """Returns (molecule, info).  info: ground truth and bookkeeping."""
    ntypes = len(blocks)
    drawn = [r % ntypes for r in case['residues']]
    # residue sequence: make room for the modifications the instances ask for,
    # then fill up with the drawn residue types
    restypes = []
    for spec in case['instances']:
        wanted = mods[spec[0] % len(mods)]['types']
        have = any(restypes[p:p + len(wanted)] == wanted for p in range(len(restypes)))
        if not have and len(restypes) + len(wanted) <= 5:
            restypes += wanted
    while len(restypes) < len(drawn):
        restypes.append(drawn[len(restypes)])
    resids = []
    resid = case['resid0']
    for p in range(len(restypes)):
        resids.append(resid)
        resid += 1 + case['gaps'][p % len(case['gaps'])]
    mol = Molecule(force_field=ff)
    node_of = {}
    nid = 0
    explicit_false = case['false_flags']
    for p, t in enumerate(restypes):
        block = blocks[t]
        for i, name in enumerate(block['names']):
            attrs = {'atomname': name, 'element': block['elems'][i], 'resname': block['name'],
                     'resid': resids[p], 'chain': 'A', 'atomid': nid + 1,
                     'atype': 't' + name, 'charge': 0.0, 'charge_group': i + 1}
            if explicit_false:
                attrs['PTM_atom'] = False
            if case['flagging'] != 'repair' and (p + case['input_names']) % 3 == 0:
                # what a -modify / -nter request leaves on every atom of the residue (RepairGraph is not run in this mode)
                attrs['modification'] = ['asked-for']
            mol.add_node(nid, **attrs)
            node_of[(p, i)] = nid
            nid += 1
        for a, b in block['edges']:
            mol.add_edge(node_of[(p, a)], node_of[(p, b)])
        if p:
            mol.add_edge(node_of[(p - 1, len(blocks[restypes[p - 1]]['names']) - 1)], node_of[(p, 0)])
    n_template = nid

    flagged = []
    junk = [0]

    def add_flagged(elem, canonical, p):
        nonlocal nid
        if case['input_names'] % 3 == 0:
            name = canonical
        elif case['input_names'] % 3 == 1:
            junk[0] += 1
            name = 'q%d' % junk[0]
        else:
            junk[0] += 1
            name = '%s%d' % (elem, 90 + junk[0])
        attrs = {'atomname': name, 'element': elem, 'resname': blocks[restypes[p]]['name'],
                 'resid': resids[p], 'chain': 'A', 'atomid': nid + 1}
        if case['flagging'] != 'repair' and (p + case['input_names']) % 3 == 0:
            attrs['modification'] = ['asked-for']
        mol.add_node(nid, **attrs)
        flagged.append(nid)
        nid += 1
        return nid - 1

    instances = []
    anchor_users = {}    # node -> number of instances using it as anchor
    renamed = set()      # anchors renamed by some instance
    skipped = 0
    pert = case['perturb']
    pert_kind = PERTURBATIONS[pert[0] % len(PERTURBATIONS)] if pert is not None else None
    # The implementation's search is factorial in the number of flagged atoms of
    # a group it cannot cover (measured: 8 atoms 4 s, 9 atoms 40 s), so the total is capped.
    cap = MAX_FLAGGED - (1 if pert_kind in ('extra-atom-on-template', 'extra-atom-on-added', 'floating-atom') else 0)
    if pert_kind == 'fake-anchor':
        cap = MAX_FLAGGED - 3
    if pert_kind == 'two-unknown-groups':
        cap = MAX_FLAGGED - 2

    def sites_of(mod):
        span = len(mod['types']) == 2
        return [p for p in range(len(restypes))
                if restypes[p] == mod['types'][0]
                and (not span or (p + 1 < len(restypes) and restypes[p + 1] == mod['types'][1]))]

    for spec in case['instances']:
        placed = False
        for shift in range(len(mods)):
            m = (spec[0] + shift) % len(mods)
            mod = mods[m]
            nptm = sum(1 for n in mod['nodes'] if n['kind'] == 'ptm')
            sites = sites_of(mod)
            if not sites or len(flagged) + nptm > cap:
                continue
            p0 = sites[spec[1] % len(sites)]
            anchors = {i: node_of[(p0 + n['res'], n['atom'])]
                       for i, n in enumerate(mod['nodes']) if n['kind'] == 'anchor'}
            renames = [anchors[i] for i in anchors if 'atomname' in mod['replace'].get(i, {})]
            if (any(node in renamed for node in anchors.values())
                    or any(anchor_users.get(node, 0) for node in renames)):
                # an anchor that gets renamed belongs to one instance only
                continue
            mapping = dict(anchors)
            for i, n in enumerate(mod['nodes']):
                if n['kind'] == 'ptm':
                    mapping[i] = add_flagged(n['element'], n['atomname'], p0 + n['res'])
            for a, b in mod['edges']:
                if mod['nodes'][a]['kind'] == 'ptm' or mod['nodes'][b]['kind'] == 'ptm':
                    mol.add_edge(mapping[a], mapping[b])
            for node in anchors.values():
                anchor_users[node] = anchor_users.get(node, 0) + 1
            renamed.update(renames)
            instances.append({'mod': m, 'map': mapping})
            placed = True
            break
        if not placed:
            skipped += 1

    # bonds between added atoms of different instances keep every placement induced
    cross = 0
    for i, k, j, l in case['cross']:
        if len(instances) < 2:
            break
        i %= len(instances)
        j %= len(instances)
        if i == j:
            continue
        pi = sorted(v for r, v in instances[i]['map'].items() if mods[instances[i]['mod']]['nodes'][r]['kind'] == 'ptm')
        pj = sorted(v for r, v in instances[j]['map'].items() if mods[instances[j]['mod']]['nodes'][r]['kind'] == 'ptm')
        a, b = pi[k % len(pi)], pj[l % len(pj)]
        if not mol.has_edge(a, b):
            mol.add_edge(a, b)
            cross += 1

    perturbed = None
    if pert is not None:
        _, x, y, z = pert
        kind = pert_kind
        template_nodes = list(range(n_template))
        if kind == 'two-unknown-groups':
            # Two separate unexplained groups (one atom each) anchored in the same residue(s) but on different multisets of
            # anchors: the first hangs on one template atom of residue p, the second bridges two template atoms of the same
            # residue p; in about half of the draws both are also bonded to an atom of residue p+1 (anchors (p, q) and (p, p, q)).
            p = x % len(restypes)
            own = [node_of[(p, i)] for i in range(len(blocks[restypes[p]]['names']))]
            single = own[y % len(own)]
            first = own[z % len(own)]
            second = own[(z + 1 + (y // 4) % (len(own) - 1)) % len(own)]
            beyond = None
            if (x // len(restypes)) % 2 and p + 1 < len(restypes):
                beyond = node_of[(p + 1, (y + z) % len(blocks[restypes[p + 1]]['names']))]
            new = add_flagged(UNKNOWN_ELEMS[(y + z) % len(UNKNOWN_ELEMS)], 'UNK', p)
            mol.add_edge(single, new)
            if beyond is not None:
                mol.add_edge(beyond, new)
            new = add_flagged(UNKNOWN_ELEMS[(x + z) % len(UNKNOWN_ELEMS)], 'UNL', p)
            mol.add_edge(first, new)
            mol.add_edge(second, new)
            if beyond is not None:
                mol.add_edge(beyond, new)
            perturbed = kind
        elif kind == 'extra-atom-on-template' or not instances:
            # unexplained atom on a template atom
            target = template_nodes[x % n_template]
            p = resids.index(mol.nodes[target]['resid'])
            new = add_flagged(PTM_ELEMS[y % len(PTM_ELEMS)], 'UNK', p)
            mol.add_edge(target, new)
            perturbed = 'extra-atom-on-template'
        elif kind == 'fake-anchor' and [m for m in mods if sum(n['kind'] == 'anchor' for n in m['nodes']) == 1
                                         and sum(n['kind'] == 'ptm' for n in m['nodes']) <= 2]:
            # an unrecognised atom that carries the NAME of a modification's anchor, with that modification's added atoms
            # attached to it: nothing explains the named atom (anchors are recognised atoms), so the whole group has no cover
            pool = [m for m in mods if sum(n['kind'] == 'anchor' for n in m['nodes']) == 1
                    and sum(n['kind'] == 'ptm' for n in m['nodes']) <= 2]
            mod = pool[z % len(pool)]
            target = template_nodes[x % n_template]
            p = resids.index(mol.nodes[target]['resid'])
            role_atom = {}
            for role, node in enumerate(mod['nodes']):
                if node['kind'] == 'anchor':
                    new = add_flagged(PTM_ELEMS[y % len(PTM_ELEMS)], node['atomname'], p)
                    mol.nodes[new]['atomname'] = node['atomname']
                    mol.add_edge(target, new)
                else:
                    new = add_flagged(node['element'], node['atomname'], p)
                role_atom[role] = new
            for a, b in mod['edges']:
                mol.add_edge(role_atom[a], role_atom[b])
            perturbed = 'fake-anchor'
        elif kind == 'extra-atom-on-added' and flagged:
            target = flagged[x % len(flagged)]
            p = resids.index(mol.nodes[target]['resid'])
            new = add_flagged(PTM_ELEMS[y % len(PTM_ELEMS)], 'UNK', p)
            mol.add_edge(target, new)
            perturbed = kind
        elif kind == 'floating-atom':
            add_flagged(PTM_ELEMS[y % len(PTM_ELEMS)], 'UNK', x % len(restypes))
            perturbed = kind
        elif kind == 'bond-inside-placement':
            for shift in range(len(instances)):
                inst = instances[(x + shift) % len(instances)]
                nodes_i = sorted(inst['map'].values())
                ptm_i = [v for v in nodes_i if v in flagged]
                pairs = [(a, b) for a in ptm_i for b in nodes_i if a != b and not mol.has_edge(a, b)
                         and (b not in ptm_i or a < b)]
                if pairs:
                    a, b = pairs[y % len(pairs)]
                    mol.add_edge(a, b)
                    perturbed = kind
                    break
        elif kind == 'bond-to-outside-template-atom':
            inst = instances[x % len(instances)]
            ptm_i = sorted(v for v in inst['map'].values() if v in flagged)
            a = ptm_i[y % len(ptm_i)]
            resid_a = mol.nodes[a]['resid']
            outside = [v for v in template_nodes if v not in inst['map'].values()
                       and mol.nodes[v]['resid'] == resid_a and not mol.has_edge(a, v)]
            if outside:
                mol.add_edge(a, outside[z % len(outside)])
                perturbed = kind
        elif kind == 'wrong-element':
            target = flagged[x % len(flagged)]
            mol.nodes[target]['element'] = 'F' if y % 2 else [e for e in PTM_ELEMS if e != mol.nodes[target]['element']][z % 2]
            perturbed = kind
        elif kind == 'missing-atom':
            target = flagged[x % len(flagged)]
            mol.remove_node(target)
            flagged.remove(target)
            perturbed = kind
    info = {'instances': instances, 'flagged': sorted(flagged), 'perturbed': perturbed,
            'skipped': skipped, 'cross': cross, 'n_template': n_template,
            'renamed_anchors': sorted(renamed)}
    return mol, info


# ---------------------------------------------------------------------------
# reference matcher and cover search (written from the statement)

def candidate_placements(adj, flagged, names, elements, mods, allowed_nodes):
    """All induced placements of all modifications.  Anchor roles take
    unflagged atoms of equal name, added-atom roles take flagged atoms of
    equal element; an edge between two atoms of the placement exists iff the
    modification has it.  Returns a list of (mod index, {role: atom})."""
    found = []
    for m, mod in enumerate(mods):
        nodes = mod['nodes']
        medges = set(mod['edges'])
        madj = {i: set() for i in range(len(nodes))}
        for a, b in medges:
            madj[a].add(b)
            madj[b].add(a)
        # visiting order: connected growth from role 0
        order = [0]
        while len(order) < len(nodes):
            for i in range(len(nodes)):
                if i not in order and madj[i] & set(order):
                    order.append(i)
                    break

        def fits(role, atom):
            if atom not in allowed_nodes:
                return False
            if nodes[role]['kind'] == 'ptm':
                return atom in flagged and elements[atom] == nodes[role]['element']
            return atom not in flagged and names[atom] == nodes[role]['atomname']

        def extend(pos, assigned, used):
            if pos == len(order):
                found.append((m, dict(assigned)))
                return
            role = order[pos]
            prev = [r for r in order[:pos] if r in madj[role]]
            if prev:
                pool = sorted(adj[assigned[prev[0]]])
            else:
                pool = sorted(allowed_nodes)
            for atom in pool:
                if atom in used or not fits(role, atom):
                    continue
                ok = True
                for r in order[:pos]:
                    has_mod = r in madj[role]
                    has_mol = assigned[r] in adj[atom]
                    if has_mod != has_mol:
                        ok = False
                        break
                if ok:
                    assigned[role] = atom
                    used.add(atom)
                    extend(pos + 1, assigned, used)
                    used.discard(atom)
                    del assigned[role]

        extend(0, {}, set())
    return found


def ptm_atoms_of(mods, placement):
    m, mapping = placement
    return frozenset(mapping[r] for r, n in enumerate(mods[m]['nodes']) if n['kind'] == 'ptm')


def exact_covers(target, placements, mods, limit):
    """Yields lists of placements whose added atoms partition `target`."""
    by_atom = {}
    psets = [ptm_atoms_of(mods, p) for p in placements]
    for idx, pset in enumerate(psets):
        if pset <= target:
            for atom in pset:
                by_atom.setdefault(atom, []).append(idx)
    count = [0]

    def rec(uncovered, chosen):
        if count[0] >= limit:
            return
        if not uncovered:
            count[0] += 1
            yield [placements[i] for i in chosen]
            return
        atom = min(uncovered)
        for idx in by_atom.get(atom, []):
            if psets[idx] <= uncovered:
                yield from rec(uncovered - psets[idx], chosen + [idx])

    yield from rec(frozenset(target), [])


def flagged_components(adj, flagged):
    """Connected groups of flagged atoms and the unflagged atoms bonded to them."""
    todo = set(flagged)
    out = []
    while todo:
        start = min(todo)
        comp = {start}
        stack = [start]
        anchors = set()
        while stack:
            cur = stack.pop()
            for nb in sorted(adj[cur]):
                if nb in flagged:
                    if nb not in comp:
                        comp.add(nb)
                        stack.append(nb)
                else:
                    anchors.add(nb)
        todo -= comp
        out.append((comp, anchors))
    return out


def final_name(mod, role):
    rep = mod['replace'].get(role, {})
    if 'atomname' in rep:
        return rep['atomname']
    return mod['nodes'][role]['atomname']


# ---------------------------------------------------------------------------
# the oracle

def snapshot(mol):
    nodes = {}
    for idx in mol.nodes:
        nodes[idx] = {k: v for k, v in mol.nodes[idx].items() if k != 'graph'}
    adj = {idx: set(mol[idx]) for idx in mol.nodes}
    return nodes, adj


def check_cover(cover, mods, pre_nodes, post, comps_of_atom, comp_residues, residue_nodes, survivors_all):
    """Checks names of anchors, replace attributes and labels for one cover.
    Returns None if the output is consistent with it, else (bucket, message)."""
    res_of = {idx: (pre_nodes[idx].get('chain'), pre_nodes[idx]['resid']) for idx in survivors_all}
    required = {}    # residue -> set of modification names
    allowed = {}
    rename_opts = {}
    attr_opts = {}
    for m, mapping in cover:
        mod = mods[m]
        touched = set(res_of[a] for a in mapping.values())
        for res in touched:
            required.setdefault(res, set()).add(mod['name'])
        wide = set(touched)
        for role, atom in mapping.items():
            if mod['nodes'][role]['kind'] == 'ptm':
                wide |= comp_residues[comps_of_atom[atom]]
        for res in wide:
            allowed.setdefault(res, set()).add(mod['name'])
        for role, atom in mapping.items():
            rep = mod['replace'].get(role, {})
            for attr, val in rep.items():
                if attr == 'atomname':
                    if mod['nodes'][role]['kind'] == 'anchor':
                        rename_opts.setdefault(atom, []).append(val)
                else:
                    attr_opts.setdefault((atom, attr), []).append(val)
    # labels
    for res, idxs in residue_nodes.items():
        need = required.get(res, set())
        may = allowed.get(res, set())
        for idx in idxs:
            labels = post[idx].get('modifications') or []
            have = set(getattr(lab, 'name', lab) for lab in labels)
            if need - have:
                return ('labels-missing', 'atom %d (%s, residue %s) lacks the label(s) %s of modifications placed on its residue; has %s'
                        % (idx, post[idx].get('atomname'), res, sorted(need - have), sorted(have)))
            if have - may:
                return ('labels-extra', 'atom %d (%s, residue %s) is labelled %s but no such modification touches its residue or its group'
                        % (idx, post[idx].get('atomname'), res, sorted(have - may)))
    # anchors: names
    for idx in sorted(survivors_all):
        if pre_nodes[idx].get('PTM_atom'):
            continue
        opts = rename_opts.get(idx)
        got = post[idx].get('atomname')
        if opts:
            if got not in opts:
                return ('replace', 'anchor %d: atomname %r, the placed modification(s) rename it to one of %r'
                        % (idx, got, opts))
        elif got != pre_nodes[idx].get('atomname'):
            return ('anchor-renamed', 'template atom %d was renamed %r -> %r though no placed modification says so'
                    % (idx, pre_nodes[idx].get('atomname'), got))
    # replace attributes, both directions
    for idx in sorted(survivors_all):
        for attr in REPLACE_ATTRS:
            opts = attr_opts.get((idx, attr))
            got = post[idx].get(attr)
            if opts:
                if got not in opts:
                    return ('replace', 'atom %d (%s): %s is %r, the placed modification(s) set it to one of %r'
                            % (idx, post[idx].get('atomname'), attr, got, opts))
            elif got != pre_nodes[idx].get(attr):
                return ('attr-changed', 'atom %d (%s): %s changed %r -> %r though no placed modification says so'
                        % (idx, post[idx].get('atomname'), attr, pre_nodes[idx].get(attr), got))
    return None


def run_case(case):
    blocks = resolve_blocks(case)
    mods = resolve_mods(case, blocks)
    ff = build_force_field(blocks, mods)
    mol, info = build_molecule(case, blocks, mods, ff)
    classes = []
    truth_known = True
    if case['flagging'] == 'repair':
        classes.append('flags-by-RepairGraph')
        expected_flagged = set(info['flagged'])
        expected_names = {idx: mol.nodes[idx]['atomname'] for idx in mol.nodes}
        with capture_logs():
            mol = RepairGraph().run_molecule(mol)
        got_flagged = set(idx for idx in mol.nodes if mol.nodes[idx].get('PTM_atom'))
        same = (got_flagged == expected_flagged and set(mol.nodes) == set(expected_names)
                and all(mol.nodes[idx]['atomname'] == expected_names[idx]
                        for idx in mol.nodes if idx not in got_flagged))
        if not same:
            classes.append('repair-differs-from-intended')
            truth_known = False
    else:
        for idx in info['flagged']:
            mol.nodes[idx]['PTM_atom'] = True

    pre_nodes, pre_adj = snapshot(mol)
    flagged = frozenset(idx for idx in pre_nodes if pre_nodes[idx].get('PTM_atom'))
    names = {idx: pre_nodes[idx].get('atomname') for idx in pre_nodes}
    elements = {idx: pre_nodes[idx].get('element') for idx in pre_nodes}

    processor = CanonicalizeModifications()
    if case['flagging'] != 'repair' and len(pre_nodes) % 2 == 0:
        # the processor object has handled a molecule before: the same residues, built a second time
        warm, warm_info = build_molecule(case, blocks, mods, ff)
        for idx in warm_info['flagged']:
            warm.nodes[idx]['PTM_atom'] = True
        with capture_logs():
            try:
                processor.run_molecule(warm)
            except Exception:  # pylint: disable=broad-except
                pass    # the same input is judged below, on the molecule of the case
        classes.append('processor-object-used-before')
    with capture_logs() as logs:
        result = processor.run_molecule(mol)
    if result is not mol and result is not None:
        mol = result
    n_warn = sum(1 for t in logs.types() if t == 'unknown-input')
    other_warn = [t for t in logs.types() if t != 'unknown-input']
    post, post_adj = snapshot(mol)

    # --- structure: only flagged atoms may disappear, nothing appears, bonds stay
    removed = set(pre_nodes) - set(post)
    added = set(post) - set(pre_nodes)
    if added:
        raise Violation('atoms-added', 'atoms %r appeared' % sorted(added))
    if removed - flagged:
        raise Violation('template-atom-removed', 'atoms %r that were not flagged were removed' % sorted(removed - flagged))
    for idx in post:
        want = pre_adj[idx] - removed
        if post_adj[idx] != want:
            raise Violation('bonds-changed', 'bonds of atom %d changed: %r -> %r' % (idx, sorted(want), sorted(post_adj[idx])))
        for attr in CHECKED_ATTRS:
            if post[idx].get(attr) != pre_nodes[idx].get(attr):
                raise Violation('attr-changed', 'atom %d: %s changed %r -> %r' % (idx, attr, pre_nodes[idx].get(attr), post[idx].get(attr)))
    if other_warn:
        raise Violation('other-warning', 'unexpected warnings %r: %r' % (other_warn, logs.messages()))
    if removed and not n_warn:
        raise Violation('removed-silently', 'flagged atoms %r were removed without an unknown-input warning' % sorted(removed))
    if n_warn and not removed:
        raise Violation('warning-without-removal', 'unknown-input warning %r but nothing was removed' % logs.messages())

    # --- the warning reports the atoms it is about (doc: "WARNING - unknown-input - Could not identify the modifications for
    # residues ['SER3'], involving atoms ['21-O1', '22-O2', '23-O3', '24-P']"): every removed atom is named by some
    # unknown-input warning as <atomid>-<atomname>, and no atom that was kept is
    unknown_msgs = [msg for typ, msg in zip(logs.types(), logs.messages()) if typ == 'unknown-input']

    def reported(idx):
        label = '%s-%s' % (pre_nodes[idx].get('atomid'), pre_nodes[idx].get('atomname'))
        pattern = r'(?<![0-9A-Za-z])' + re.escape(label) + r'(?![0-9A-Za-z])'
        return label, any(re.search(pattern, msg) for msg in unknown_msgs)

    for idx in sorted(removed):
        label, named = reported(idx)
        if not named:
            raise Violation('removed-unreported', 'flagged atom %d (%s) was removed but no unknown-input warning names it; warnings: %r'
                            % (idx, label, unknown_msgs))
    for idx in sorted(flagged - removed):
        label, named = reported(idx)
        if named:
            raise Violation('reported-but-kept', 'flagged atom %d (%s) is named by an unknown-input warning but was kept; warnings: %r'
                            % (idx, label, unknown_msgs))

    survivors = flagged - removed
    all_nodes = frozenset(post)
    comps = flagged_components(pre_adj, flagged)
    comp_of_atom = {}
    comp_residues = {}
    for cidx, (comp, anchors) in enumerate(comps):
        for atom in comp:
            comp_of_atom[atom] = cidx
        comp_residues[cidx] = set((pre_nodes[a].get('chain'), pre_nodes[a]['resid']) for a in comp | anchors)
    residue_nodes = {}
    for idx in sorted(post):
        residue_nodes.setdefault((pre_nodes[idx].get('chain'), pre_nodes[idx]['resid']), []).append(idx)

    # --- candidates on the input (for statistics and completeness)
    cands_pre = candidate_placements(pre_adj, flagged, names, elements, mods, frozenset(pre_nodes))
    distinct = {}
    for m, mapping in cands_pre:
        key = (m, frozenset(mapping.values()))
        for atom in ptm_atoms_of(mods, (m, mapping)):
            distinct.setdefault(atom, set()).add(key)
    overlap = any(len(v) >= 2 for v in distinct.values())

    # --- survivors must be exactly covered, consistently with the output
    if survivors:
        cands = [c for c in cands_pre if set(c[1].values()) <= all_nodes]
        consistent = []
        for m, mapping in cands:
            ok = True
            for role, atom in mapping.items():
                if mods[m]['nodes'][role]['kind'] == 'ptm' and post[atom].get('atomname') != final_name(mods[m], role):
                    ok = False
                    break
            if ok:
                consistent.append((m, mapping))
        first_problem = None
        n_covers = 0
        accepted = False
        for cover in exact_covers(survivors, consistent, mods, limit=3000):
            n_covers += 1
            problem = check_cover(cover, mods, pre_nodes, post, comp_of_atom, comp_residues, residue_nodes, all_nodes)
            if problem is None:
                accepted = True
                break
            if first_problem is None:
                first_problem = problem
        if not accepted:
            described = ', '.join('%d:%s/%s' % (a, post[a].get('atomname'), post[a].get('element')) for a in sorted(survivors))
            if n_covers >= 3000:
                return Outcome(classes + ['inconclusive-too-many-covers'], False)
            if first_problem is not None:
                raise Violation(first_problem[0], first_problem[1] + ' (flagged atoms kept: %s)' % described)
            any_cover = next(exact_covers(survivors, cands, mods, limit=1), None)
            if any_cover is not None:
                raise Violation('names', 'flagged atoms kept (%s): covers by induced placements exist, but none gives these atom names'
                                % described)
            uncoverable = sorted(a for a in survivors if not any(a in ptm_atoms_of(mods, c) for c in cands))
            raise Violation('kept-without-cover', 'flagged atoms kept (%s) but no set of induced placements (anchors by name, added atoms by '
                            'element) covers each of them exactly once; atoms in no placement at all: %r' % (described, uncoverable))
        if n_covers > 1:
            classes.append('several-consistent-covers')
    else:
        # nothing kept: no labels, no attribute changes anywhere
        problem = check_cover([], mods, pre_nodes, post, comp_of_atom, comp_residues, residue_nodes, all_nodes)
        if problem is not None:
            raise Violation(problem[0], problem[1] + ' (no flagged atom kept)')

    # --- completeness on intact ground truth
    clean = truth_known and info['perturbed'] is None
    truth = [(inst['mod'], inst['map']) for inst in info['instances']]
    rename_conflict = False
    if clean:
        truth_keys = set((m, frozenset(mapping.values())) for m, mapping in truth)
        for atom in info['renamed_anchors']:
            for m, mapping in cands_pre:
                if atom in mapping.values() and (m, frozenset(mapping.values())) not in truth_keys:
                    rename_conflict = True
        # any *candidate* placement (not only the ground truth) that renames an anchor which another candidate needs makes
        # the outcome depend on the order in which equally valid modifications are applied: completeness is undefined
        for m, mapping in cands_pre:
            for role, atom in mapping.items():
                if mods[m]['nodes'][role]['kind'] == 'anchor' and 'atomname' in mods[m]['replace'].get(role, {}):
                    for m2, mapping2 in cands_pre:
                        if (m2, mapping2) != (m, mapping) and atom in mapping2.values():
                            rename_conflict = True
        # harness self check: the ground truth is a set of induced placements
        cand_keys = set((m, tuple(sorted(mapping.items()))) for m, mapping in cands_pre)
        for m, mapping in truth:
            if (m, tuple(sorted(mapping.items()))) not in cand_keys:
                raise HarnessError('ground-truth placement of %s is not found by the reference matcher' % mods[m]['name'])
        if rename_conflict:
            classes.append('clean-but-renamed-anchor-shared')
        elif removed and _removal_shape(removed, truth, mods, comps, comp_of_atom, pre_nodes) != 'other':
            # The statement allows "removed together with an unknown-input warning" for any atom; identification of
            # these two shapes (added atoms in groups with different anchor residues; an anchor in a residue that is
            # not bonded to an added atom) is not promised anywhere, so this is counted, not judged (DESIGN.md §7).
            classes.append('explained-but-removed-with-warning:' + _removal_shape(removed, truth, mods, comps, comp_of_atom, pre_nodes))
        elif removed:
            raise Violation('removed-though-explained:' + _removal_shape(removed, truth, mods, comps, comp_of_atom, pre_nodes),
                            'every flagged atom belongs to an attached instance of a known modification (%s), yet atoms %s were removed: %r'
                            % (', '.join(mods[m]['name'] for m, _ in truth),
                               ', '.join('%d:%s' % (a, names[a]) for a in sorted(removed)), logs.messages()))

    # --- classification
    if not flagged:
        classes.append('no-flagged-atom')
    classes.append('clean' if clean else ('perturbed:%s' % info['perturbed'] if info['perturbed'] else 'truth-unknown'))
    if removed:
        classes.append('some-removed')
        if survivors:
            classes.append('some-removed-some-kept')
        if not clean:
            full = [c for c in cands_pre]
            if next(exact_covers(frozenset(removed), full, mods, limit=1), None) is not None:
                classes.append('removed-though-harness-finds-cover')
    if survivors:
        classes.append('some-kept')
    if overlap:
        classes.append('overlapping-candidates')
    multi_group = False
    shared_anchor = False
    if truth_known:
        owners = {}
        for k, (m, mapping) in enumerate(truth):
            for atom in ptm_atoms_of(mods, (m, mapping)):
                if atom in comp_of_atom:
                    owners.setdefault(comp_of_atom[atom], set()).add(k)
        multi_group = any(len(v) >= 2 for v in owners.values())
        users = {}
        for k, (m, mapping) in enumerate(truth):
            for role, atom in mapping.items():
                if mods[m]['nodes'][role]['kind'] == 'anchor':
                    users.setdefault(atom, set()).add(k)
        shared_anchor = any(len(v) >= 2 for v in users.values())
        if len(truth) >= 2:
            classes.append('instances>=2')
        if any(len(mods[m]['types']) == 2 for m, _ in truth):
            classes.append('spanning-instance')
        if any(mods[m]['replace'] for m, _ in truth):
            classes.append('instance-with-replace')
        if any('atomname' in rep and mods[m]['nodes'][r]['kind'] == 'anchor'
               for m, _ in truth for r, rep in mods[m]['replace'].items()):
            classes.append('instance-renames-anchor')
        if any('atomname' in rep and mods[m]['nodes'][r]['kind'] == 'ptm'
               for m, _ in truth for r, rep in mods[m]['replace'].items()):
            classes.append('instance-renames-added-atom')
        if any(mod.get('derived') for mod in mods):
            classes.append('ff-has-subpattern-mod')
    if multi_group:
        classes.append('group-with>=2-instances')
    if shared_anchor:
        classes.append('shared-anchor')
    if info['cross']:
        classes.append('bond-between-instances')
    if _differently_keyed_groups_share_residue(comps, pre_nodes):
        classes.append('groups-with-different-anchor-residues-share-a-residue')
    if _removed_groups_same_residues_different_anchors(comps, removed, pre_nodes):
        classes.append('removed-groups-on-same-residues-with-different-anchor-multisets')
    if n_warn >= 2:
        classes.append('warnings>=2')
    return Outcome(classes, multi_group or overlap)


def _removal_shape(removed, truth, mods, comps, comp_of_atom, pre_nodes):
    """Sub-bucket for a completeness failure: what is special about the
    instances that lost atoms."""
    def key(cidx):
        return tuple(sorted(pre_nodes[a]['resid'] for a in comps[cidx][1]))
    shapes = set()
    for m, mapping in truth:
        ptm = ptm_atoms_of(mods, (m, mapping))
        if not ptm & set(removed):
            continue
        cidxs = sorted(set(comp_of_atom[a] for a in ptm))
        keys = set(key(c) for c in cidxs)
        bonded_residues = set(r for k in keys for r in k)
        anchor_residues = set(pre_nodes[a]['resid'] for r, a in mapping.items()
                              if mods[m]['nodes'][r]['kind'] == 'anchor')
        if len(keys) > 1:
            shapes.add('added-atoms-in-groups-with-different-anchor-residues')
        elif anchor_residues - bonded_residues:
            shapes.add('anchor-in-residue-not-bonded-to-added-atoms')
    if not shapes:
        # collateral: removed together with such an instance in the same residue?
        return 'other'
    return sorted(shapes)[0]


def _differently_keyed_groups_share_residue(comps, pre_nodes):
    """Two connected groups of flagged atoms whose anchors lie in different
    (multi)sets of residues, while some residue holds anchors of both."""
    keys = []
    for comp, anchors in comps:
        keys.append(tuple(sorted(pre_nodes[a]['resid'] for a in anchors)))
    for i, ki in enumerate(keys):
        for kj in keys[i + 1:]:
            if ki != kj and set(ki) & set(kj):
                return True
    return False


def _removed_groups_same_residues_different_anchors(comps, removed, pre_nodes):
    """Two connected groups of flagged atoms that were both removed, whose
    anchors lie in the same set of residues but in different multisets."""
    keys = []
    for comp, anchors in comps:
        if comp <= set(removed):
            keys.append(tuple(sorted(pre_nodes[a]['resid'] for a in anchors)))
    for i, ki in enumerate(keys):
        for kj in keys[i + 1:]:
            if ki != kj and set(ki) == set(kj):
                return True
    return False


def _run(case):
    return run_case(case)


# ---------------------------------------------------------------------------
# known finding matcher

def _match_bucket(params, part_name, case, violation):
    """Known findings of this check are told apart by their bucket: the two
    crashes have distinct crash buckets, the completeness failures carry the
    shape of the instance that lost atoms."""
    return violation.bucket == params.get('bucket')


MATCHERS = {'c14_bucket': _match_bucket}


# ---------------------------------------------------------------------------
# strategy

def _strategy(tier):
    small = st.integers(0, 11)

    block = st.integers(2, 5).flatmap(lambda n: st.fixed_dictionaries({
        'elems': st.lists(st.sampled_from(BLOCK_ELEMS), min_size=n, max_size=n),
        'parents': st.lists(small, min_size=n - 1, max_size=n - 1),
        'ring': st.one_of(st.none(), st.none(), st.tuples(small, small).map(list)),
    }))
    op = st.tuples(st.integers(0, 7), small, small, st.integers(0, 2)).map(list)
    mod = st.fixed_dictionaries({
        'kind': st.integers(0, 5),
        't1': st.integers(0, 2), 't2': st.integers(0, 2),
        'span': st.sampled_from([False, False, False, True]),
        'span_mode': st.integers(0, 7),
        'a0': small, 'base': st.integers(0, 4), 'drop': st.integers(0, 2), 'split': st.integers(0, 9),
        'ops': st.lists(op, min_size=1, max_size=6),
        'names': st.lists(st.integers(0, 3), min_size=1, max_size=4),
        'replace': st.lists(st.sampled_from([0, 0, 0, 1, 4, 5, 6, 7, 8, 9, 10, 11]), min_size=1, max_size=6),
    })
    instance = st.tuples(st.integers(0, 4), small).map(list)
    perturb = st.one_of(st.none(), st.none(), st.none(), st.none(), st.none(), st.none(),
                        st.tuples(st.integers(0, len(PERTURBATIONS) - 1), small, small, small).map(list),
                        st.tuples(st.integers(0, len(PERTURBATIONS) - 1), small, small, small).map(list),
                        st.tuples(st.integers(0, len(PERTURBATIONS) - 1), small, small, small).map(list),
                        st.tuples(st.integers(0, len(PERTURBATIONS) - 1), small, small, small).map(list))
    return st.fixed_dictionaries({
        'blocks': st.lists(block, min_size=1, max_size=3),
        'mods': st.lists(mod, min_size=2, max_size=5),
        'residues': st.lists(st.integers(0, 2), min_size=1, max_size=5),
        'resid0': st.integers(1, 40),
        'gaps': st.lists(st.sampled_from([0, 0, 0, 1, 3]), min_size=1, max_size=4),
        'instances': st.lists(instance, min_size=1, max_size=4),
        'cross': st.one_of(st.just([]),
                           st.lists(st.tuples(st.integers(0, 3), small, st.integers(0, 3), small).map(list),
                                    min_size=1, max_size=2)),
        'perturb': perturb,
        'flagging': st.sampled_from(['direct', 'direct', 'repair']),
        'false_flags': st.booleans(),
        'input_names': st.integers(0, 2),
    })


PARTS = [
    Part('cover', _run, strategy=_strategy,
         examples={'quick': 2400, 'thorough': 50000},
         floors={'clean': 0.35, 'overlapping-candidates': 0.12, 'group-with>=2-instances': 0.01, 'instances>=2': 0.12,
                 'spanning-instance': 0.04, 'flags-by-RepairGraph': 0.06, 'some-removed': 0.04, 'shared-anchor': 0.06,
                 'instance-with-replace': 0.15, 'perturbed:bond-inside-placement': 0.008,
                 'perturbed:two-unknown-groups': 0.008,
                 'removed-groups-on-same-residues-with-different-anchor-multisets': 0.008}),
]
