"""
C07  No output from a run with unwaived warnings; existing files are never lost.

Four parts:

* `history`       model-based operation sequences over a fresh directory and a
                  fresh DeferredFileWriter: preexist / deferred open+write /
                  re-open / read / chdir / finalise / discard.  The model is a
                  dict path -> bytes plus a pending table; after every step the
                  directory tree must equal the model exactly.
* `crash-points`  histories that end in a finalise.  The filesystem calls that
                  `vermouth.file_writer` makes during that finalise are counted
                  (its module-level names `shutil`, `os`, `_open` are replaced by
                  counting proxies in the harness only); then the history is
                  re-run once per call and per variant (fail before / after the
                  effect, torn write) and every file that existed before the
                  finalise must survive under its own or a '#name.N#' name.
* `writers-defer` the library writers with default arguments in a temp cwd:
                  destinations untouched until finalise, present after, absent
                  for good after discard.
* `cli-gate`      bin/martinize2 as a subprocess with warning producing
                  ingredients and -maxwarn specifications; the WARNING/ERROR
                  lines of stderr and the specifications go into C08's reference
                  formula; leftover == 0 <=> exit 0 and outputs (+ backups),
                  leftover > 0 <=> exit 2 and an unchanged directory.
"""
import errno
import logging
import os
import re
import shutil
import stat
import subprocess
import sys
import tempfile

from hypothesis import strategies as st

from pbt.core import Part, Outcome, Violation, HarnessError, REPO
from pbt.checks.c08 import ref_left

import vermouth
import vermouth.forcefield
import vermouth.file_writer as fw_module
from vermouth.file_writer import DeferredFileWriter

PROPERTY = 'C07'
LEVEL = 'fault_enumeration'
RULE = ('history: 3-30 operations (preexist incl. occupied #name.k# slots, deferred open in w/a/wb/ab/w+/r+/wt/w+b/r+b with 0-3 '
        'written chunks, re-open w->w, w->a, a->a, read, chdir, finalise, discard) over a pool of 2-4 paths in 3 directories '
        '(+ a symlinked directory; paths spelled relative, ./, absolute, via .., via the symlink, as pathlib.Path), temp files on '
        'the same or on another filesystem; directory tree compared with a dict model after every step; non-trivial = a finalise '
        'that replaces a pre-existing destination which has at least one occupied backup slot.  '
        'crash-points: the same histories forced to end in a finalise; EVERY filesystem call made by file_writer during that '
        'finalise is failed once before and once after its effect (writes also torn); non-trivial = a fault point lies between '
        'the backup move and the move of the new file.  '
        'writers-defer: 1-6 of write_pdb / write_gro / write_gmx_topology (itp + parameter itp files) / write_atomtypes / '
        'write_nonbond_params / run_dssp(savedir) with a fake dssp / GenerateContactMap(write_file) / _write_contacts called with '
        'default arguments, destinations optionally pre-existing, ended by finalise, discard or discard-then-finalise; non-trivial '
        '= at least one destination pre-exists.  '
        'cli-gate: martinize2 on 3-5 residues of 1UBQ with 0-3 altloc-B atoms, optional unknown residue, -scfix, -collagen, '
        'unmatched -mutate, and -maxwarn built around the expected counts (exact / one short / surplus; typed, bare, blanket); '
        'non-trivial = the run logged at least one warning.  Distinct by hash of the whole case.')
ASSUMPTIONS = [
    'handles returned by the deferred open are closed before finalise/discard (all callers use with-statements)',
    'text payloads are ASCII without carriage returns and text-mode keyword arguments are limited to encoding="utf-8" / newline="\\n": '
    'append-mode finalisation re-reads the temp file in default text mode, so other encodings/newlines are outside the sound domain',
    'mode a+ is generated since finding F22 (a+ finalised as a replacement) was fixed in /repo; VERIF_C07_APLUS=0 switches it off',
    're-open of a deferred path is limited to w->w, w->a, a->a with the same text/binary kind (a->w and r+ re-opens are unspecified)',
    'extra arguments of the deferred open are passed by keyword (extra positional arguments raise TypeError in open(), see notes/C07.md)',
    'r+ is only used on existing, not yet deferred paths; destination directories exist at finalise; destinations never look like #name.N#',
    'append finalisation may or may not leave a backup copy of the old file: both are accepted (the old bytes stay a prefix of the destination)',
    'crash-points: faults are injected at the calls file_writer makes through its own namespace (shutil.*, os.remove/rename/replace/unlink, '
    'open, handle.write); power loss inside one system call and concurrent writers are not reached',
    'cli-gate: counts are taken from the WARNING/ERROR lines the run printed (format "{level} - {type} - {message}"); the final '
    '"N warnings were encountered" ERROR line is the gate itself and is not counted',
    'cli-gate: files named by -write-graph are debug dumps and may appear regardless of the gate',
]

WARNING = logging.WARNING
SHM = '/dev/shm'
PYTHON = '/venv/bin/python' if os.path.exists('/venv/bin/python') else sys.executable

DIRS = ['', 'sub', 'sub/deep']
NAMES = ['a.txt', 'b', 'cg.pdb', 'topol.top', 'x.tar.gz', '.hid', 'sp ace.itp', 'we#ird', 'é.dat',
         'frame[1].pdb', 'st*r.txt', 'q?.itp', '[ab].top']   # legal file names that are also glob patterns
TEXT_ALPHA = 'abcxyzABC019 ;#.\n\n'
MODES = ['w', 'a', 'w', 'a', 'wb', 'ab', 'w+', 'r+', 'wt', 'w+b', 'r+b', 'at']
if os.environ.get('VERIF_C07_APLUS', '1') == '1':
    # a+ used to be finalised as a replacement (finding F22, fixed in /repo 4ef4454); generated by default since then
    MODES = MODES + ['a+', 'a+b']


# ---------------------------------------------------------------------------
# sandbox: fresh directory, fresh writer state, own temp directory

class Sandbox:
    """root/n1/n2/n3/work is the directory under test (cwd), `tmp` receives the temp
    files of the deferred writer (tempfile.tempdir), on the same filesystem or
    (other_fs) under /tmp."""

    def __init__(self, other_fs=False):
        self.other_fs = other_fs

    def __enter__(self):
        self.old_cwd = os.getcwd()
        self.old_tempdir = tempfile.tempdir
        tempfile.tempdir = None
        base = SHM if os.path.isdir(SHM) and os.access(SHM, os.W_OK | os.X_OK) else None
        self.root = os.path.realpath(tempfile.mkdtemp(prefix='c07_', dir=base))
        self.extra = None
        # nested so that a relative '../..' resolved against the wrong cwd (a defect this check looks for) stays inside root
        self.work = os.path.join(self.root, 'n1', 'n2', 'n3', 'work')
        os.makedirs(self.work)
        if self.other_fs and base is not None:
            self.extra = os.path.realpath(tempfile.mkdtemp(prefix='c07tmp_', dir='/tmp'))
            self.tmp = self.extra
        else:
            self.tmp = os.path.join(self.root, 'tmp')
            os.mkdir(self.tmp)
        self.cross_device = os.stat(self.tmp).st_dev != os.stat(self.work).st_dev
        tempfile.tempdir = self.tmp
        os.chdir(self.work)
        self.writer = DeferredFileWriter()
        if self.writer.open_files:      # stale state of an earlier, failed case
            self.writer.close()
        return self

    def __exit__(self, *exc):
        try:
            self.writer.close()
        finally:
            os.chdir(self.old_cwd)
            tempfile.tempdir = self.old_tempdir
            shutil.rmtree(self.root, ignore_errors=True)
            if self.extra:
                shutil.rmtree(self.extra, ignore_errors=True)
        return False

    def snapshot(self):
        out = {}
        # walk the whole nest: a file written outside `work` shows up as '../name'
        for dirpath, _, filenames in os.walk(os.path.join(self.root, 'n1')):
            for name in filenames:
                full = os.path.join(dirpath, name)
                if os.path.islink(full):
                    continue
                with open(full, 'rb') as fh:
                    out[os.path.relpath(full, self.work)] = fh.read()
        return out

    def tmp_leftovers(self):
        return sorted(os.listdir(self.tmp))


def backup_name(rel, k):
    head, name = os.path.split(rel)
    return os.path.join(head, '#%s.%d#' % (name, k))


def first_free_backup(files, rel):
    k = 1
    while backup_name(rel, k) in files:
        k += 1
    return backup_name(rel, k)


_BACKUP_RE = re.compile(r'^#(.*)\.(\d+)#$')


def is_backup_of(candidate, rel):
    chead, cname = os.path.split(candidate)
    head, name = os.path.split(rel)
    match = _BACKUP_RE.match(cname)
    return chead == head and match is not None and match.group(1) == name and int(match.group(2)) >= 1


def _show(data, limit=40):
    return repr(data if len(data) <= limit else data[:limit] + b'...')


def diff_trees(actual, expected):
    lines = []
    for key in sorted(set(actual) | set(expected)):
        if key not in actual:
            lines.append('missing %r (expected %s)' % (key, _show(expected[key])))
        elif key not in expected:
            lines.append('unexpected %r = %s' % (key, _show(actual[key])))
        elif actual[key] != expected[key]:
            lines.append('%r holds %s, expected %s' % (key, _show(actual[key]), _show(expected[key])))
    return '; '.join(lines[:6])


def compare_tree(actual, expected, optional, bucket, where):
    """actual must equal expected; keys of `optional` may additionally be
    present with exactly the given bytes.  Returns the accepted tree."""
    trimmed = dict(actual)
    for key, data in optional.items():
        if key in trimmed and key not in expected and trimmed[key] == data:
            del trimmed[key]
    if trimmed != expected:
        raise Violation(bucket, '%s: %s' % (where, diff_trees(trimmed, expected)))
    return actual


# ---------------------------------------------------------------------------
# fault injection (harness side only)

class InjectedFault(OSError):
    pass


class Injector:
    WRAP_SHUTIL = ('move', 'copy', 'copy2', 'copyfile', 'copyfileobj')
    WRAP_OS = ('remove', 'unlink', 'rename', 'replace', 'link', 'symlink', 'truncate')

    def __init__(self, fail_at=None, variant=None):
        self.fail_at = fail_at
        self.variant = variant
        self.active = False
        self.calls = []
        self.fired = False

    def invoke(self, label, fn, args, kwargs):
        if not self.active:
            return fn(*args, **kwargs)
        idx = len(self.calls)
        self.calls.append((label, [a if isinstance(a, (str, bytes)) else str(a) for a in args]))
        if idx == self.fail_at:
            self.fired = True
            if self.variant == 'before':
                raise InjectedFault(errno.EIO, 'injected fault before %s (call %d)' % (label, idx))
            if self.variant == 'torn':
                data = args[0]
                fn(data[:len(data) // 2])
                raise InjectedFault(errno.EIO, 'injected fault inside %s (call %d)' % (label, idx))
            res = fn(*args, **kwargs)
            if label == 'open':
                res.close()
            raise InjectedFault(errno.EIO, 'injected fault after %s (call %d)' % (label, idx))
        res = fn(*args, **kwargs)
        if label == 'open':
            mode = kwargs.get('mode', args[1] if len(args) > 1 else 'r')
            if any(c in mode for c in 'wa+x'):
                res = _Handle(res, self)
        return res

    def wrap(self, label, fn):
        def wrapper(*args, **kwargs):
            return self.invoke(label, fn, args, kwargs)
        return wrapper


class _Handle:
    """Proxy of a writable file object: `write` is a fault point."""

    def __init__(self, handle, injector):
        self._handle = handle
        self._injector = injector

    def __enter__(self):
        return self

    def __exit__(self, *exc):
        self._handle.close()
        return False

    def _write(self, data):
        res = self._handle.write(data)
        self._handle.flush()
        return res

    def write(self, data):
        return self._injector.invoke('handle.write', self._write, (data,), {})

    def __getattr__(self, name):
        return getattr(self._handle, name)


class _ModuleProxy:
    def __init__(self, real, prefix, names, injector):
        self.__dict__['_real'] = real
        self.__dict__['_prefix'] = prefix
        self.__dict__['_names'] = names
        self.__dict__['_injector'] = injector

    def __getattr__(self, name):
        value = getattr(self._real, name)
        if name in self._names:
            return self._injector.wrap('%s.%s' % (self._prefix, name), value)
        return value


class injected:
    """Context manager: route the filesystem calls of vermouth.file_writer
    through `injector` while active."""

    def __init__(self, injector):
        self.injector = injector

    def __enter__(self):
        self.saved = (fw_module.shutil, fw_module.os, fw_module._open)  # pylint: disable=protected-access
        fw_module.shutil = _ModuleProxy(self.saved[0], 'shutil', Injector.WRAP_SHUTIL, self.injector)
        fw_module.os = _ModuleProxy(self.saved[1], 'os', Injector.WRAP_OS, self.injector)
        fw_module._open = self.injector.wrap('open', self.saved[2])  # pylint: disable=protected-access
        self.injector.active = True
        return self.injector

    def __exit__(self, *exc):
        self.injector.active = False
        fw_module.shutil, fw_module.os, fw_module._open = self.saved  # pylint: disable=protected-access
        return False


# ---------------------------------------------------------------------------
# history interpreter

def _latin(text):
    return text.encode('latin-1')


def _as_text(raw):
    return ''.join(TEXT_ALPHA[ord(c) % len(TEXT_ALPHA)] for c in raw)


class History:
    def __init__(self, case, sandbox, check=True):
        self.case = case
        self.sb = sandbox
        self.check = check
        self.files = {}        # model of the directory: rel path -> bytes
        self.pending = {}      # rel path -> {'family', 'binary', 'data'}
        self.cwd = ''          # canonical, relative to work
        self.flags = set()
        os.makedirs(os.path.join(sandbox.work, 'sub', 'deep'))
        os.symlink('sub', os.path.join(sandbox.work, 'lnk'))
        self.paths = [os.path.join(p['dir'], p['name']) for p in case['paths']]

    # -- helpers
    def rel(self, idx):
        return self.paths[idx % len(self.paths)]

    def spell(self, rel, style):
        work = self.sb.work
        full = os.path.join(work, rel)
        head, name = os.path.split(rel)
        here = os.path.join(work, self.cwd) if self.cwd else work
        if style == 'rel':
            return os.path.relpath(full, here)
        if style == 'dot':
            return './' + os.path.relpath(full, here)
        if style == 'updown':
            return os.path.join(work, 'sub', '..', rel)
        if style == 'lnk' and head.startswith('sub'):
            return os.path.join(work, 'lnk' + head[3:], name)
        if style == 'pathobj':
            import pathlib
            return pathlib.Path(full)
        return full

    def write_real(self, rel, data):
        with open(os.path.join(self.sb.work, rel), 'wb') as fh:
            fh.write(data)
        self.files[rel] = data

    def verify(self, where, optional=None, bucket='tree'):
        if not self.check:
            return
        actual = self.sb.snapshot()
        self.files = dict(compare_tree(actual, self.files, optional or {}, bucket, where))

    def verify_no_temp(self, where):
        if not self.check:
            return
        left = self.sb.tmp_leftovers()
        if left:
            raise Violation('temp-left', '%s: temporary files left behind: %r' % (where, left))

    # -- operations
    def op_preexist(self, op, where):
        rel = self.rel(op['p'])
        tag = rel.encode('utf-8')
        self.write_real(rel, b'OLD<' + tag + b'>' + _latin(op['data']))
        for k in op['slots']:
            self.write_real(backup_name(rel, k), b'BK%d<' % k + tag + b'>' + _latin(op['data']))
        if op['slots']:
            self.flags.add('backup-slots-occupied')
        self.verify(where)

    def op_dopen(self, op, where):
        rel = self.rel(op['p'])
        entry = self.pending.get(rel)
        if entry is None:
            mode = op['mode']
            if mode.startswith('r+') and rel not in self.files:
                mode = 'w' + ('b' if 'b' in mode else '')
            binary = 'b' in mode
            family = 'a' if 'a' in mode else ('r+' if mode.startswith('r+') else 'w')
            entry = {'family': family, 'binary': binary,
                     'data': bytearray(self.files[rel]) if family == 'r+' else bytearray()}
            reopen = None
            self.flags.add('open-' + family)
        else:
            if entry['family'] == 'w':
                reopen = op['re']
            elif entry['family'] == 'a':
                reopen = 'a'
            else:
                self.flags.add('skipped-r+-reopen')
                return
            mode = reopen + ('b' if entry['binary'] else '')
            binary = entry['binary']
            self.flags.add('reopen-%s->%s' % (entry['family'], reopen))
        kwargs = {} if binary else dict(op['kw'])
        chunks = [_latin(c) if binary else _as_text(c) for c in op['chunks']]
        spelled = self.spell(rel, op['style'])
        if op['style'] != 'abs':
            self.flags.add('style-' + op['style'])
        with fw_module.deferred_open(spelled, mode, **kwargs) as handle:
            for chunk in chunks:
                handle.write(chunk)
        new = b''.join(c if binary else c.encode('utf-8') for c in chunks)
        if reopen is None:
            if entry['family'] == 'r+':
                entry['data'][0:len(new)] = new
            else:
                entry['data'] = bytearray(new)
            self.pending[rel] = entry
        elif reopen == 'w':
            entry['data'] = bytearray(new)
        else:
            entry['data'] += new
        if self.cwd:
            self.flags.add('open-in-subdir-cwd')
        entry['cwd_at_open'] = self.cwd
        self.verify(where, bucket='changed-before-finalise')

    def op_dread(self, op, where):
        rel = self.rel(op['p'])
        spelled = self.spell(rel, op['style'])
        if rel in self.pending:
            with fw_module.deferred_open(spelled, 'rb') as handle:
                handle.read()
            self.flags.add('read-pending')
        elif rel in self.files:
            with fw_module.deferred_open(spelled, 'rb') as handle:
                got = handle.read()
            if got != self.files[rel]:
                raise Violation('read', '%s: reading %r gave %s, file holds %s' % (where, rel, _show(got), _show(self.files[rel])))
            self.flags.add('read-existing')
        else:
            try:
                fw_module.deferred_open(spelled, 'rb').close()
            except FileNotFoundError:
                pass
            else:
                raise Violation('read', '%s: reading absent %r did not raise' % (where, rel))
        self.verify(where, bucket='changed-by-read')

    def op_chdir(self, op, where):
        target = op['to']
        os.chdir(os.path.join(self.sb.work, target))
        self.cwd = 'sub' + target[3:] if target.startswith('lnk') else target
        for entry in self.pending.values():
            if entry.get('cwd_at_open') != self.cwd:
                self.flags.add('chdir-while-pending')
        self.verify(where)

    def expected_after_finalise(self):
        expected = dict(self.files)
        optional = {}
        for rel, entry in self.pending.items():
            data = bytes(entry['data'])
            if entry['family'] == 'a':
                if rel in expected:
                    optional[first_free_backup(expected, rel)] = expected[rel]
                    self.flags.add('finalise-append-existing')
                expected[rel] = expected.get(rel, b'') + data
            else:
                if rel in expected:
                    free = first_free_backup(expected, rel)
                    self.flags.add('finalise-backup')
                    if free != backup_name(rel, 1):
                        self.flags.add('finalise-backup-occupied')
                    if backup_name(rel, 1) not in expected and any(is_backup_of(f, rel) for f in expected):
                        self.flags.add('finalise-backup-gap')
                    expected[free] = expected[rel]
                expected[rel] = data
        return expected, optional

    def op_finalise(self, op, where):
        if len(self.pending) >= 2:
            self.flags.add('finalise-multi')
        if self.pending:
            self.flags.add('finalise-nonempty')
        expected, optional = self.expected_after_finalise()
        self.sb.writer.write()
        self.files = expected
        self.pending = {}
        self.verify(where, optional=optional, bucket='finalise')
        self.verify_no_temp(where)

    def op_discard(self, op, where):
        if self.pending:
            self.flags.add('discard-nonempty')
        self.sb.writer.close()
        self.pending = {}
        self.verify(where, bucket='changed-by-discard')
        self.verify_no_temp(where)

    def step(self, idx, op):
        where = 'step %d (%s)' % (idx, op['op'])
        getattr(self, 'op_' + op['op'])(op, where)


def _run_history(case):
    with Sandbox(case['other_fs']) as sb:
        hist = History(case, sb)
        for idx, op in enumerate(case['ops']):
            hist.step(idx, op)
        # the implicit end of every case: discarding never changes anything
        hist.op_discard({}, 'final discard')
        flags = hist.flags
        if sb.cross_device:
            flags.add('temp-on-other-filesystem')
    return Outcome(sorted(flags), 'finalise-backup-occupied' in flags)


# ---------------------------------------------------------------------------
# crash points

def check_survival(before, pending, after, where):
    for rel, old in before.items():
        if after.get(rel) == old:
            continue
        entry = pending.get(rel)
        if entry is not None and entry['family'] == 'a' and rel in after and after[rel].startswith(old):
            continue
        if any(is_backup_of(cand, rel) and data == old for cand, data in after.items()):
            continue
        state = _show(after[rel]) if rel in after else 'absent'
        backups = sorted(c for c in after if is_backup_of(c, rel))
        raise Violation('lost-on-crash', '%s: pre-existing %r (%s) is neither intact under its own name (now %s) nor under a '
                        'backup name (backups present: %r)' % (where, rel, _show(old), state, backups))


def _crash_run(case, fail_at, variant):
    """Run the history (last op is a finalise); returns the injector and, for
    the counting run, the flags of the history."""
    with Sandbox(case['other_fs']) as sb:
        counting = fail_at is None
        hist = History(case, sb, check=counting)
        ops = case['ops']
        for idx, op in enumerate(ops[:-1]):
            hist.step(idx, op)
        before = sb.snapshot()
        pending = dict(hist.pending)
        injector = Injector(fail_at, variant)
        where = 'fault %s call %s' % (variant, fail_at)
        if counting:
            with injected(injector):
                hist.step(len(ops) - 1, ops[-1])
            return injector, hist, sb.cross_device, before
        try:
            with injected(injector):
                sb.writer.write()
        except InjectedFault:
            pass
        if not injector.fired:
            raise HarnessError('fault point %r of %r was not reached on the re-run' % (fail_at, case))
        label = injector.calls[fail_at][0]
        where = 'finalise interrupted %s call %d (%s %r)' % (variant, fail_at, label, injector.calls[fail_at][1][:2])
        check_survival(before, pending, sb.snapshot(), where)
        sb.writer.close()
        check_survival(before, pending, sb.snapshot(), where + ', then discard')
        return injector, hist, sb.cross_device, before


def _run_crash(case):
    injector, hist, cross, before = _crash_run(case, None, None)
    calls = injector.calls
    flags = set()
    work_prefix = os.sep + 'work' + os.sep
    between = False
    points = 0
    for k, (label, args) in enumerate(calls):
        variants = ['before', 'after']
        if label == 'handle.write':
            variants.append('torn')
        for variant in variants:
            _crash_run(case, k, variant)
            points += 1
        flags.add('fault-at-' + label)
        if label == 'shutil.move' and args and work_prefix in str(args[0]):
            between = True      # 'after' of this call / 'before' of the next lie between backup and move
    if between:
        flags.add('between-backup-and-move')
    if 'finalise-append-existing' in hist.flags:
        flags.add('append-to-existing')
    if 'finalise-multi' in hist.flags:
        flags.add('several-files')
    if 'finalise-backup-occupied' in hist.flags:
        flags.add('backup-slot-occupied')
    if cross:
        flags.add('temp-on-other-filesystem')
    if before:
        flags.add('has-preexisting-files')
    for bound, name in ((0, 'faultpoints=0'), (4, 'faultpoints=1-4'), (8, 'faultpoints=5-8'),
                        (16, 'faultpoints=9-16'), (10 ** 9, 'faultpoints>=17')):
        if points <= bound:
            flags.add(name)
            break
    return Outcome(sorted(flags), between)


# ---------------------------------------------------------------------------
# generators for history / crash-points

def _ops_strategies():
    pidx = st.integers(0, 3)
    raw = st.binary(max_size=10).map(lambda b: b.decode('latin-1'))
    style = st.sampled_from(['rel', 'abs', 'rel', 'dot', 'updown', 'lnk', 'pathobj'])
    slots = st.sampled_from([[1], [], [1, 2], [], [2], [1, 3], [1, 2, 3], [3]])
    preexist = st.fixed_dictionaries({'op': st.just('preexist'), 'p': pidx,
                                      'data': st.binary(min_size=0, max_size=10).map(lambda b: b.decode('latin-1')),
                                      'slots': slots})
    dopen = st.fixed_dictionaries({
        'op': st.just('dopen'), 'p': pidx, 'style': style,
        'mode': st.sampled_from(MODES),
        're': st.sampled_from(['a', 'w']),
        'chunks': st.lists(raw, min_size=0, max_size=3),
        'kw': st.sampled_from([{}, {}, {}, {'encoding': 'utf-8'}, {'newline': '\n'}, {'buffering': -1}]),
    })
    dread = st.fixed_dictionaries({'op': st.just('dread'), 'p': pidx, 'style': style})
    chdir = st.fixed_dictionaries({'op': st.just('chdir'), 'to': st.sampled_from(['sub', '', 'sub/deep', 'lnk', 'lnk/deep'])})
    finalise = st.just({'op': 'finalise'})
    discard = st.just({'op': 'discard'})
    return preexist, dopen, dread, chdir, finalise, discard


def _paths_strategy():
    one = st.fixed_dictionaries({'dir': st.sampled_from(['', '', 'sub', 'sub/deep']), 'name': st.sampled_from(NAMES)})
    return st.lists(one, min_size=2, max_size=4, unique_by=lambda p: (p['dir'], p['name']))


def _scenario(preexist, dopen, extra):
    """preexist(p) ... deferred open of the same p ...: the core backup situation, built rather than hoped for."""
    return st.tuples(st.integers(0, 3), preexist, dopen, st.lists(extra, max_size=3), st.booleans()).map(
        lambda t: ([dict(t[1], p=t[0])] + t[3] + [dict(t[2], p=t[0])]) if t[4] else
                  ([dict(t[2], p=t[0]), dict(t[1], p=t[0])] + t[3]))


def _strategy_history(tier):
    preexist, dopen, dread, chdir, finalise, discard = _ops_strategies()
    edit = st.one_of(preexist, preexist, dopen, dopen, dopen, dopen, dread, chdir)
    n_seg = 4 if tier == 'quick' else 6
    body = st.one_of(st.lists(edit, min_size=1, max_size=7),
                     st.tuples(_scenario(preexist, dopen, edit), st.lists(edit, max_size=3)).map(lambda t: t[0] + t[1]))
    segment = st.tuples(body, st.one_of(finalise, finalise, finalise, discard)).map(lambda t: t[0] + [t[1]])
    ops = st.lists(segment, min_size=1, max_size=n_seg).map(lambda segs: [o for s in segs for o in s])
    return st.fixed_dictionaries({'paths': _paths_strategy(), 'other_fs': st.sampled_from([False, False, True]), 'ops': ops})


def _strategy_crash(tier):
    preexist, dopen, dread, chdir, finalise, discard = _ops_strategies()
    edit = st.one_of(preexist, preexist, dopen, dopen, dopen, dread, chdir, finalise, discard)
    tail = st.one_of(preexist, preexist, dopen, dopen, dopen, chdir)
    body = st.one_of(st.lists(tail, min_size=1, max_size=6),
                     st.tuples(_scenario(preexist, dopen, tail), st.lists(tail, max_size=3)).map(lambda t: t[0] + t[1]))
    ops = st.tuples(st.lists(edit, max_size=6), body, dopen).map(
        lambda t: t[0] + t[1] + [t[2], {'op': 'finalise'}])
    return st.fixed_dictionaries({'paths': _paths_strategy(), 'other_fs': st.sampled_from([False, False, True]), 'ops': ops})


# ---------------------------------------------------------------------------
# part: library writers defer

FAKE_DSSP_OUTPUT = ('==== Secondary Structure Definition by the program DSSP (fake for C07) ==== \n'
                    '  #  RESIDUE AA STRUCTURE BP1 BP2  ACC\n'
                    '    1    1 A A  H              0   0  100\n'
                    '    2    2 A A  E              0   0  100\n')
FAKE_DSSP_SCRIPT = ('#!/bin/sh\n'
                    'if [ "$1" = "--version" ]; then echo "mkdssp version 3.0.0"; exit 0; fi\n'
                    "cat <<'EOT'\n" + FAKE_DSSP_OUTPUT + 'EOT\n')

_STATE = {}


def preload():
    """Force field for the contact-map writer and the 1UBQ lines for the CLI
    inputs, loaded once before the workers fork."""
    if 'contact_system' not in _STATE:
        from vermouth.pdb.pdb import read_pdb
        charmm = vermouth.forcefield.get_native_force_field('charmm')
        molecules = read_pdb(os.path.join(REPO, 'vermouth', 'tests', 'data', 'tri_alanine.pdb'))
        system = vermouth.System(force_field=charmm)
        for molecule in molecules:
            for node in molecule.nodes:
                molecule.nodes[node]['chain'] = 'A'
            system.add_molecule(molecule)
        vermouth.MakeBonds().run_system(system)
        _STATE['contact_system'] = system
    if 'ubq' not in _STATE:
        with open(os.path.join(REPO, 'vermouth', 'tests', 'data', '1UBQ.pdb')) as handle:
            _STATE['ubq'] = [line.rstrip('\n') for line in handle if line.startswith('ATOM')]


def _cg_system(n_mols, n_atoms, with_params):
    import numpy as np
    from vermouth.gmx.topology import Atomtype, NonbondParam
    system = vermouth.System()
    for midx in range(n_mols):
        mol = vermouth.Molecule()
        for i in range(n_atoms):
            mol.add_node(i, atype='P%d' % (i % 3 + 1), resid=1 + i // 2, resname='ALA' if i % 2 == 0 else 'GLY',
                         atomname='B%d' % i, chain='A' if midx == 0 else 'B', charge_group=i + 1, charge=0.0, mass=72,
                         position=np.array([0.3 * i, 0.1 * midx, 0.25]), element='C')
        for i in range(n_atoms - 1):
            mol.add_edge(i, i + 1)
            mol.add_interaction('bonds', (i, i + 1), ['1', '0.35', '1250'])
        mol.meta['moltype'] = 'molecule_%d' % midx
        mol.nrexcl = 1
        system.add_molecule(mol)
    system.meta['header'] = ['written by the C07 check']
    if with_params:
        first = system.molecules[0]
        system.gmx_topology_params['atomtypes'].append(Atomtype(molecule=first, node=0, sigma=0.47, epsilon=2.1, meta={}))
        system.gmx_topology_params['nonbond_params'].append(NonbondParam(atoms=('P1', 'P2'), sigma=0.47, epsilon=2.1, meta={}))
    return system


def _writer_table(case, sb):
    """name -> (callable(system), [destinations], {destination: checker(bytes) -> problem or None})"""
    from vermouth.pdb.pdb import write_pdb
    from vermouth.gmx.gro import write_gro
    from vermouth.gmx.topology import write_gmx_topology, write_atomtypes, write_nonbond_params
    from vermouth.dssp.dssp import run_dssp
    from vermouth.rcsu.contact_map import GenerateContactMap, _write_contacts
    import networkx as nx

    def same_as_direct(writer, suffix):
        def checker(data, system):
            direct = os.path.join(sb.tmp, 'direct' + suffix)
            writer(system, direct, defer_writing=False)
            with open(direct, 'rb') as handle:
                ref = handle.read()
            os.remove(direct)
            return None if data == ref else 'differs from the same call with defer_writing=False'
        return checker

    def contains(marker):
        def checker(data, system):
            return None if marker in data else 'does not contain %r' % marker
        return checker

    moltypes = ['molecule_%d' % i for i in range(case['n_mols'])]
    top_dests = ['topol.top'] + ['%s.itp' % m for m in moltypes]
    top_checks = {'topol.top': contains(b'[ molecules ]')}
    for m in moltypes:
        top_checks['%s.itp' % m] = contains(b'[ moleculetype ]')
    if case['params']:
        top_dests += ['extra_atomtypes.itp', 'extra_nbparams.itp']
        top_checks['extra_atomtypes.itp'] = contains(b'[ atomtypes ]')
        top_checks['extra_nbparams.itp'] = contains(b'[ nonbond_params ]')
    savedir = case['savedir']
    ssd = os.path.normpath(os.path.join(savedir, 'chain_A,B.ssd' if case['n_mols'] > 1 else 'chain_A.ssd'))

    def dssp(system):
        script = os.path.join(sb.root, 'fake_dssp')
        if not os.path.exists(script):
            with open(script, 'w') as handle:
                handle.write(FAKE_DSSP_SCRIPT)
            os.chmod(script, stat.S_IRWXU)
        run_dssp(system, executable=script, savedir=savedir)

    def contacts(system):
        preload()
        GenerateContactMap(write_file='contacts.out').run_system(_STATE['contact_system'].copy())

    def contacts_direct(system):
        graph = nx.Graph()
        graph.add_node(0, resname='ALA', chain='A', resid=1)
        graph.add_node(1, resname='GLY', chain='A', resid=5)
        ca_pos = {0: [0.0, 0.0, 0.0], 1: [0.5, 0.0, 0.0]}
        _write_contacts('cm.out', [[1, 5, 0, 1, 1, 3, 2, 1]], ca_pos, graph)

    return {
        'pdb': (lambda s: write_pdb(s, 'out.pdb'), ['out.pdb'], {'out.pdb': same_as_direct(write_pdb, '.pdb')}),
        'gro': (lambda s: write_gro(s, 'out.gro'), ['out.gro'], {'out.gro': same_as_direct(write_gro, '.gro')}),
        'top': (lambda s: write_gmx_topology(s, 'topol.top'), top_dests, top_checks),
        'atomtypes': (lambda s: write_atomtypes(s, 'at.itp'), ['at.itp'], {'at.itp': contains(b'[ atomtypes ]')}),
        'nbparams': (lambda s: write_nonbond_params(s, 'nb.itp'), ['nb.itp'], {'nb.itp': contains(b'[ nonbond_params ]')}),
        'dssp': (dssp, [ssd], {ssd: lambda data, s: None if data == FAKE_DSSP_OUTPUT.encode() else 'is not the DSSP output'}),
        'contacts': (contacts, ['contacts.out'], {'contacts.out': contains(b'Residue-Residue Contacts')}),
        'contacts-direct': (contacts_direct, ['cm.out'], {'cm.out': contains(b'Residue-Residue Contacts')}),
    }


def _run_writers(case):
    classes = set()
    # the parameter writers read system.gmx_topology_params (a defaultdict): give it content whenever they are called
    params = case['params'] or 'atomtypes' in case['writers'] or 'nbparams' in case['writers']
    case = dict(case, params=params)
    with Sandbox(False) as sb:
        os.mkdir(os.path.join(sb.work, 'ssd'))
        system = _cg_system(case['n_mols'], case['n_atoms'], params)
        table = _writer_table(case, sb)
        files = {}
        all_dests = []
        for name in case['writers']:
            all_dests.extend(table[name][1])
        # pre-existing destinations (by position in the destination list) and occupied slots
        for pos, slots in case['pre']:
            if not all_dests:
                break
            dest = all_dests[pos % len(all_dests)]
            files[dest] = b'OLD<' + dest.encode() + b'>'
            for k in slots:
                files[backup_name(dest, k)] = b'BK%d<' % k + dest.encode() + b'>'
        for rel, data in files.items():
            with open(os.path.join(sb.work, rel), 'wb') as handle:
                handle.write(data)
        preexisting = [d for d in all_dests if d in files]
        checks = {}
        for name in case['writers']:
            call, dests, checkers = table[name]
            call(system)
            checks.update(checkers)
            classes.add('writer-' + name)
            actual = sb.snapshot()
            if actual != files:
                raise Violation('writer-not-deferred:' + name,
                                'after calling %s with default arguments and before finalise: %s' % (name, diff_trees(actual, files)))
        end = case['end']
        classes.add('end-' + end)
        if end in ('discard', 'discard-then-finalise'):
            sb.writer.close()
            if end == 'discard-then-finalise':
                sb.writer.write()
            actual = sb.snapshot()
            if actual != files:
                raise Violation('writer-output-after-discard', 'after %s: %s' % (end, diff_trees(actual, files)))
        else:
            sb.writer.write()
            actual = sb.snapshot()
            expected_names = set(files) | set(all_dests)
            for dest in dict.fromkeys(all_dests):
                if dest not in actual:
                    raise Violation('writer-output-missing', 'destination %r absent after finalise (%r)' % (dest, sorted(actual)))
                problem = checks[dest](actual[dest], system)
                if problem:
                    raise Violation('writer-output-content', '%r after finalise %s: %s' % (dest, problem, _show(actual[dest], 80)))
                if dest in files:
                    free = first_free_backup(files, dest)
                    expected_names.add(free)
                    if actual.get(free) != files[dest]:
                        raise Violation('writer-backup', 'old %r not intact under first free backup name %r: %s' % (
                            dest, free, diff_trees({k: v for k, v in actual.items() if k not in all_dests},
                                                   dict(files, **{free: files[dest]}))))
            for rel, data in files.items():
                if rel not in all_dests and actual.get(rel) != data:
                    raise Violation('writer-touched-other', '%r changed by finalise' % rel)
            extra = set(actual) - expected_names
            if extra:
                raise Violation('writer-extra-files', 'unexpected files after finalise: %r' % sorted(extra))
        left = sb.tmp_leftovers()
        if left:
            raise Violation('temp-left', 'temporary files left after %s: %r' % (end, left))
        if preexisting:
            classes.add('destination-preexists')
        if len(case['writers']) >= 3:
            classes.add('three-or-more-writers')
    return Outcome(sorted(classes), bool(preexisting))


def _strategy_writers(tier):
    names = ['pdb', 'top', 'gro', 'dssp', 'contacts-direct', 'atomtypes', 'nbparams', 'contacts']
    writers = st.lists(st.sampled_from(names), min_size=1, max_size=6, unique=True)
    pre = st.lists(st.tuples(st.integers(0, 11), st.sampled_from([[], [1], [1, 2], [2]])).map(list),
                   min_size=0, max_size=4, unique_by=lambda t: t[0])
    return st.fixed_dictionaries({
        'writers': writers, 'pre': pre,
        'end': st.sampled_from(['finalise', 'discard', 'finalise', 'discard-then-finalise']),
        'n_mols': st.integers(1, 2), 'n_atoms': st.integers(1, 4), 'params': st.booleans(),
        'savedir': st.sampled_from(['.', 'ssd']),
    })


# ---------------------------------------------------------------------------
# part: CLI gate

LOG_LINE = re.compile(r'^\s*(DEBUG|INFO|WARNING|ERROR|CRITICAL)\s+-\s+(\S+)\s+-\s(.*)$')
GATE_LINE = re.compile(r'^(\d+) warnings were encountered after accounting for the -maxwarn flag')
LEVELS = {'DEBUG': logging.DEBUG, 'INFO': logging.INFO, 'WARNING': logging.WARNING,
          'ERROR': logging.ERROR, 'CRITICAL': logging.CRITICAL}
OUTPUT_MARKERS = {'cg.pdb': b'ATOM', 'topol.top': b'[ molecules ]', 'molecule_0.itp': b'[ moleculetype ]'}


def _cli_input(case):
    preload()
    lines = [l for l in _STATE['ubq'] if int(l[22:26]) <= case['n_res']]
    marked = [1, 5, 9, 12][:case['altloc']]
    out = []
    for idx, line in enumerate(lines):
        if idx in marked:
            out.append(line[:16] + 'A' + line[17:])
            out.append(line[:16] + 'B' + line[17:30] + '%8.3f' % (float(line[30:38]) + 0.3) + line[38:])
        else:
            out.append(line)
    if case['unknown']:
        out.append('HETATM  900  C1  XYZ B 900      90.000  90.000  90.000  1.00  0.00           C  ')
        out.append('HETATM  901  C2  XYZ B 900      91.400  90.000  90.000  1.00  0.00           C  ')
    if case.get('error_record'):
        # a residue called ALA that shares nothing with the ALA block: repair_graph logs a non-fatal ERROR record
        # (inconsistent-data, "Can't find isomorphism") and the atom is later reported as unmapped (WARNING)
        out.append('HETATM  950 ZN   ALA C 950      60.000  60.000  60.000  1.00  0.00          ZN  ')
    return '\n'.join(out) + '\nEND\n'


def _format_spec(spec):
    typ, cnt = spec
    if typ is None:
        return str(cnt)
    if cnt is None:
        return typ
    return '%s:%d' % (typ, cnt)


def parse_stderr(text, detailed=False):
    """Counts per level and type of the WARNING-and-above lines, and the number
    in the gate's own ERROR line (None if absent).  With -v the format is
    "{level} - {type} - {logger name} - {message}"."""
    counts = {}
    gate = None
    for line in text.splitlines():
        match = LOG_LINE.match(line)
        if not match:
            continue
        level, typ, message = match.groups()
        if LEVELS[level] < WARNING:
            continue
        if detailed and ' - ' in message:
            message = message.split(' - ', 1)[1]
        gate_match = GATE_LINE.match(message)
        if level == 'ERROR' and gate_match:
            gate = int(gate_match.group(1))
            continue
        table = counts.setdefault(LEVELS[level], {})
        table[typ] = table.get(typ, 0) + 1
    return counts, gate


def _run_cli(case):
    classes = set()
    with Sandbox(False) as sb:
        files = {'in.pdb': _cli_input(case).encode()}
        for name in case['preexist']:
            files[name] = b'OLD<' + name.encode() + b'>\n'
        for name in case['slots']:
            files[backup_name(name, 1)] = b'BK1<' + name.encode() + b'>\n'
        for rel, data in files.items():
            with open(os.path.join(sb.work, rel), 'wb') as handle:
                handle.write(data)
        argv = [PYTHON, os.path.join(REPO, 'bin', 'martinize2'), '-f', 'in.pdb', '-x', 'cg.pdb', '-o', 'topol.top']
        if case['scfix']:
            argv.append('-scfix')
        if case['collagen']:
            argv.append('-collagen')
        if case['mutate']:
            argv += ['-mutate', 'TRP77:ALA']
        if case['write_graph']:
            argv += ['-write-graph', 'graph.pdb']
        if case['verbose']:
            argv.append('-v')
        specs = [[(t, c) for t, c in group] for group in case['maxwarn']]
        for group in specs:
            argv.append('-maxwarn')
            argv.extend(_format_spec(s) for s in group)
        env = dict(os.environ)
        env['PYTHONPATH'] = REPO
        env['TMPDIR'] = sb.tmp
        env.setdefault('PYTHONHASHSEED', '0')
        proc = subprocess.run(argv, cwd=sb.work, env=env, stdout=subprocess.PIPE, stderr=subprocess.PIPE,
                              timeout=900, check=False)
        stderr = proc.stderr.decode('utf-8', 'replace')
        after = sb.snapshot()
        tmp_left = sb.tmp_leftovers()
    if proc.returncode == 2 and 'usage:' in stderr:
        raise HarnessError('martinize2 rejected the generated command line %r: %s' % (argv, stderr[-500:]))
    counts, gate = parse_stderr(stderr, detailed=case['verbose'])
    left, unspecified = ref_left(counts, specs)
    if unspecified:
        raise HarnessError('generator produced an unspecified -maxwarn combination: %r' % (specs,))
    n_warn = sum(counts.get(WARNING, {}).values())
    summary = 'argv=%r counts=%r leftover(ref)=%d exit=%d' % (argv[2:], counts, left, proc.returncode)
    optional = {}
    if case['write_graph'] and 'graph.pdb' in after:
        optional['graph.pdb'] = after['graph.pdb']
    if left > 0:
        if proc.returncode != 2:
            new = sorted(set(after) - set(files))
            raise Violation('gate-exit-code', 'unwaived warnings but exit code %d (new files %r); %s; stderr tail: %s' % (
                proc.returncode, new, summary, stderr[-600:]))
        compare_tree(after, files, optional, 'gate-output-despite-warnings', 'exit 2 run; ' + summary)
        if gate != left:
            raise Violation('gate-count', 'the run reports %r leftover warnings, the reference formula gives %d; %s' % (gate, left, summary))
        classes.add('gate-shut')
        if any(counts.get(lvl) for lvl in counts if lvl > WARNING):
            classes.add('error-logged')
    else:
        if proc.returncode != 0:
            raise Violation('gate-exit-code', 'all warnings waived but exit code %d; %s; stderr tail: %s' % (
                proc.returncode, summary, stderr[-600:]))
        if gate is not None:
            raise Violation('gate-count', 'exit 0 but the run reports %d leftover warnings; %s' % (gate, summary))
        expected_names = set(files)
        for name, marker in OUTPUT_MARKERS.items():
            if name not in after or marker not in after[name]:
                raise Violation('gate-output-missing', 'exit 0 but output %r is %s; %s' % (
                    name, 'absent' if name not in after else 'not a fresh output', summary))
            expected_names.add(name)
            if name in files:
                free = first_free_backup(files, name)
                expected_names.add(free)
                if after.get(free) != files[name]:
                    raise Violation('gate-backup', 'old %r not intact under %r after a successful run: %s' % (
                        name, free, diff_trees({k: v for k, v in after.items() if k not in OUTPUT_MARKERS}, files)))
        for rel, data in files.items():
            if rel not in OUTPUT_MARKERS and after.get(rel) != data:
                raise Violation('gate-touched-other', '%r changed by a successful run; %s' % (rel, summary))
        extra = set(after) - expected_names - set(optional)
        if extra:
            raise Violation('gate-extra-files', 'unexpected files after a successful run: %r; %s' % (sorted(extra), summary))
        classes.add('gate-open-with-warnings' if n_warn else 'gate-open-no-warnings')
    flat = [s for g in specs for s in g]
    if any(t is not None and c is not None for t, c in flat):
        classes.add('spec-type:count')
    if any(t is not None and c is None for t, c in flat):
        classes.add('spec-bare-type')
    if any(t is None for t, c in flat):
        classes.add('spec-blanket')
    if case['preexist']:
        classes.add('outputs-preexist')
    if case['slots'] and set(case['slots']) & set(case['preexist']):
        classes.add('backup-slot-occupied')
    if len(counts.get(WARNING, {})) >= 2:
        classes.add('two-or-more-warning-types')
    for typ in counts.get(WARNING, {}):
        classes.add('warning-' + typ)
    if tmp_left:
        classes.add('temp-files-left-in-TMPDIR')
    return Outcome(sorted(classes), n_warn >= 1)


@st.composite
def _cli_case(draw):
    # the first choices are ordered so that Hypothesis' simplest example (drawn
    # first in every shard) is a useful anchor: two altloc atoms + -scfix, one
    # typed allowance short by one -> gate shut.
    altloc = draw(st.sampled_from([2, 1, 3, 0, 2]))
    scfix = draw(st.sampled_from([True, False]))
    unknown = draw(st.sampled_from([False, False, True]))
    collagen = draw(st.sampled_from([False, True]))
    mutate = draw(st.sampled_from([False, False, True]))
    error_record = draw(st.sampled_from([False, False, False, True]))
    expected = {}
    if error_record:
        expected['unmapped-atom'] = 1
    if altloc:
        expected['pdb-alternate'] = altloc
    if unknown:
        expected['unknown-residue'] = 2
    if scfix or mutate:
        expected['general'] = int(scfix) + int(mutate)
    if collagen:
        expected['missing-feature'] = 1
    target = draw(st.sampled_from(['shut', 'open', 'open', 'open', 'open', 'none', 'open', 'open']))
    types = sorted(expected)
    groups = []
    if target != 'none' and types:
        style = {t: draw(st.sampled_from(['count', 'blanket', 'bare', 'count', 'surplus'])) for t in types}
        short = draw(st.sampled_from(types + ['<blanket>'])) if target == 'shut' else None
        typed = []
        rest = 0
        for t in types:
            if style[t] == 'blanket' and short != t:
                rest += expected[t]
            elif style[t] == 'bare' and short != t:
                typed.append([t, None])
            else:
                n = expected[t] + (2 if style[t] == 'surplus' else 0)
                if short == t:
                    n = expected[t] - 1
                typed.append([t, n])
        blanket = None
        if rest:
            blanket = rest - 1 if short == '<blanket>' else rest + draw(st.sampled_from([0, 0, 3]))
        elif short == '<blanket>':
            # nothing left for the blanket: take an allowance away from a typed entry instead
            typed = [[t, (expected[t] - 1 if i == 0 else c)] for i, (t, c) in enumerate(typed)]
        if draw(st.sampled_from([False, False, True])):
            extra_type = draw(st.sampled_from(['never-occurs', 'unmapped-atom']))
            if any(t == extra_type for t, _ in typed):
                extra_type = 'never-occurs'     # a type both waived by name and given a count is a combination the statement leaves open
            typed.append([extra_type, draw(st.sampled_from([3, None]))])
        if blanket is not None:
            typed.insert(draw(st.integers(0, len(typed))), [None, blanket])
        if typed:
            cut = draw(st.integers(0, len(typed)))
            groups = [g for g in (typed[:cut], typed[cut:]) if g]
    elif target == 'open' and not types:
        groups = [[[None, draw(st.sampled_from([0, 2]))]]]
    preexist = draw(st.sampled_from([['cg.pdb', 'topol.top', 'molecule_0.itp'], ['cg.pdb'], [], ['topol.top', 'molecule_0.itp']]))
    slots = draw(st.sampled_from([[], ['cg.pdb'], ['molecule_0.itp', 'topol.top']]))
    return {
        'n_res': draw(st.sampled_from([3, 4, 5])), 'altloc': altloc, 'unknown': unknown, 'scfix': scfix,
        'collagen': collagen, 'mutate': mutate, 'error_record': error_record, 'maxwarn': groups, 'preexist': preexist,
        'slots': slots,
        'write_graph': draw(st.sampled_from([False, False, False, True])),
        'verbose': draw(st.sampled_from([False, False, False, False, True])),
    }


def _strategy_cli(tier):
    return _cli_case()


# Fixed CLI scenarios that every run contains (the few generated CLI runs of the quick tier cannot be relied on to hit each
# combination): what makes them special is the -maxwarn specification relative to the warnings that occur.
_ANCHOR_BASE = {'n_res': 3, 'unknown': False, 'scfix': False, 'collagen': False, 'mutate': False, 'write_graph': False,
                'verbose': False, 'preexist': ['cg.pdb', 'topol.top', 'molecule_0.itp'], 'slots': ['cg.pdb']}
CLI_ANCHORS = [
    # a typed allowance larger than the number of warnings of its type must not cover warnings of another type -> shut
    dict(_ANCHOR_BASE, name='surplus-typed-allowance-does-not-cover-other-types', altloc=1, unknown=True,
         maxwarn=[[['pdb-alternate', 4]]]),
    # blanket allowance exactly covering everything -> open
    dict(_ANCHOR_BASE, name='blanket-exact', altloc=2, scfix=True, maxwarn=[[[None, 3]]]),
    # one type by name, the other with an exact count, in two -maxwarn groups -> open
    dict(_ANCHOR_BASE, name='bare-plus-exact', altloc=2, scfix=True, maxwarn=[[['pdb-alternate', None]], [['general', 1]]]),
    # an allowance for a type that does not occur changes nothing; the blanket is one short -> shut
    dict(_ANCHOR_BASE, name='absent-type-and-blanket-one-short', altloc=3, maxwarn=[[['unmapped-atom', 5], [None, 2]]]),
    # warnings and no -maxwarn at all -> shut
    dict(_ANCHOR_BASE, name='no-maxwarn', altloc=1, maxwarn=[]),
    # a limit of zero for the only type that occurs -> shut
    dict(_ANCHOR_BASE, name='limit-zero', altloc=2, maxwarn=[[['pdb-alternate', 0]]]),
    # a non-fatal ERROR record is left although every WARNING is waived, by name or by a generous blanket -> shut
    dict(_ANCHOR_BASE, name='error-record-warnings-waived-by-name', altloc=0, error_record=True, maxwarn=[[['unmapped-atom', None]]]),
    dict(_ANCHOR_BASE, name='error-record-generous-blanket', altloc=1, error_record=True, maxwarn=[[[None, 9]]]),
]


def _enum_cli_anchors(tier, shard, nshards):
    for i, case in enumerate(CLI_ANCHORS):
        if i % nshards == shard:
            yield dict(case)


def _run_cli_anchor(case):
    case = dict(case)
    name = case.pop('name')
    out = _run_cli(case)
    return Outcome(list(out.classes) + ['anchor:' + name], True)


# ---------------------------------------------------------------------------
# part: symlinked destination (fixed cases)

def _enum_symlinked(tier, shard, nshards):
    cases = [{'mode': mode, 'link': link, 'slot_taken': slot, 'name': name}
             for mode in ('w', 'wb', 'w+') for link in ('relative', 'absolute') for slot in (False, True)
             for name in ('out.txt', 'cg.pdb')]
    for idx, case in enumerate(cases):
        if idx % nshards == shard:
            yield case


def _run_symlinked(case):
    """The destination is an existing symbolic link to a file in another directory.  The destination is the name that was
    asked for: after finalisation that name holds exactly what was written, what it showed before is kept under the first
    free #name.k# next to it, and the file the link pointed to is neither rewritten nor renamed."""
    name = case['name']
    old, new = b'OLD<' + name.encode() + b'>\n', b'NEW content\n'
    with Sandbox(False) as sb:
        shared = os.path.join(sb.root, 'n1', 'shared')
        os.makedirs(shared)
        target = os.path.join(shared, 'reference.dat')
        with open(target, 'wb') as handle:
            handle.write(old)
        os.symlink(target if case['link'] == 'absolute' else os.path.relpath(target, sb.work), os.path.join(sb.work, name))
        if case['slot_taken']:
            with open(os.path.join(sb.work, backup_name(name, 1)), 'wb') as handle:
                handle.write(b'BK1\n')
        binary = 'b' in case['mode']
        with fw_module.deferred_open(name, case["mode"]) as handle:
            handle.write(new if binary else new.decode())
        with open(target, 'rb') as handle:
            if handle.read() != old:
                raise Violation('symlink-target-touched-early', 'the file the destination links to changed before finalisation')
        sb.writer.write()
        with open(os.path.join(sb.work, name), 'rb') as handle:
            got = handle.read()
        if got != new:
            raise Violation('symlink-destination-content', 'destination %r holds %r after finalisation, %r was written' % (name, got, new))
        with open(target, 'rb') as handle:
            now = handle.read()
        if now != old:
            raise Violation('symlink-target-rewritten', 'the file the destination linked to (in another directory, never opened through '
                            'the writer) now holds %r instead of %r' % (now, old))
        stray = sorted(n for n in os.listdir(shared) if n != 'reference.dat')
        if stray:
            raise Violation('symlink-target-renamed', 'new files next to the link target: %r' % stray)
        slot = 2 if case['slot_taken'] else 1
        backup = os.path.join(sb.work, backup_name(name, slot))
        if not os.path.lexists(backup):
            raise Violation('symlink-backup-missing', 'what %r showed before is not kept under %r; directory holds %r' % (
                name, backup_name(name, slot), sorted(os.listdir(sb.work))))
        with open(backup, 'rb') as handle:
            if handle.read() != old:
                raise Violation('symlink-backup-content', 'the backup %r does not show the old content' % backup_name(name, slot))
        if case['slot_taken']:
            with open(os.path.join(sb.work, backup_name(name, 1)), 'rb') as handle:
                if handle.read() != b'BK1\n':
                    raise Violation('symlink-backup-overwritten', 'an occupied backup slot was overwritten')
        extra = sorted(set(os.listdir(sb.work)) - {name, backup_name(name, 1), backup_name(name, 2)})
        if extra:
            raise Violation('symlink-extra-files', 'unexpected files %r' % extra)
    return Outcome(['mode-' + case['mode'], 'link-' + case['link']] + (['backup-slot-occupied'] if case['slot_taken'] else []), True)


PARTS = [
    # the subprocess runs come first so that their (few, slow) shards start at once
    Part('cli-gate', _run_cli, strategy=_strategy_cli,
         examples={'quick': 12, 'thorough': 96}, per_shard_min=3,
         shrink_budget={'quick': 3, 'thorough': 6},
         floors={'gate-shut': 0.2, 'gate-open-with-warnings': 0.08}),
    Part('cli-gate-anchors', _run_cli_anchor, enumerate=_enum_cli_anchors),
    Part('symlinked-destination', _run_symlinked, enumerate=_enum_symlinked),
    Part('history', _run_history, strategy=_strategy_history,
         examples={'quick': 2400, 'thorough': 60000},
         floors={'finalise-backup': 0.2, 'finalise-backup-occupied': 0.1, 'finalise-backup-gap': 0.03,
                 'finalise-append-existing': 0.1, 'discard-nonempty': 0.2, 'chdir-while-pending': 0.15,
                 'reopen-w->a': 0.03, 'reopen-w->w': 0.03, 'reopen-a->a': 0.03, 'open-r+': 0.05,
                 'temp-on-other-filesystem': 0.15, 'finalise-multi': 0.1}),
    Part('crash-points', _run_crash, strategy=_strategy_crash,
         examples={'quick': 480, 'thorough': 8000},
         floors={'between-backup-and-move': 0.3, 'append-to-existing': 0.12, 'several-files': 0.2,
                 'backup-slot-occupied': 0.15, 'fault-at-handle.write': 0.2, 'fault-at-os.remove': 0.2,
                 'temp-on-other-filesystem': 0.1}),
    Part('writers-defer', _run_writers, strategy=_strategy_writers,
         examples={'quick': 240, 'thorough': 3000},
         floors={'destination-preexists': 0.3, 'end-discard': 0.08, 'end-discard-then-finalise': 0.08, 'end-finalise': 0.3,
                 'writer-top': 0.15, 'writer-pdb': 0.15, 'writer-gro': 0.15, 'writer-dssp': 0.15, 'writer-contacts': 0.15,
                 'writer-contacts-direct': 0.15, 'writer-atomtypes': 0.1, 'writer-nbparams': 0.1}),
]
