"""
C02  A written ITP states exactly the molecule held in memory.

Oracle: the text produced by vermouth.gmx.itp.write_molecule_itp is parsed by
an independent reader (pbt/c02_ref_itp.py, written from the GROMACS format
description, no vermouth import) and compared, in both directions, with the
molecule that was built from the case description: ordered atom table and the
multiset of interactions per (section, conditional guard), with atom indices
mapped back to node keys through the *model order* (atom id, else node order).
Second, weaker oracle: the repository's own read_itp must agree with the
independent reader on the same text.

Parts
  main      random molecules (see RULE)
  contract  the documented preconditions of the writer raise ValueError
"""
import copy
import io

import numpy as np
from hypothesis import strategies as st

from pbt.core import Part, Outcome, Violation
from pbt import c02_ref_itp as ref

import vermouth
from vermouth.gmx.itp import write_molecule_itp
from vermouth.gmx.itp_read import read_itp
from vermouth.forcefield import ForceField

PROPERTY = 'C02'
LEVEL = 'exploration'
RULE = ('main: molecules of 1-25 nodes; node keys = 0..N-1 in order (trivial), 0..N-1 shuffled, offset range, sparse ints '
        '(-40..120) or wild ints (+-1e6) in random insertion order; atomid absent / 1..N in node order / permutation of 1..N / '
        'sparse distinct ints / partially present (consistency only); per node charge+mass, charge only, neither (rarely mass '
        'only: inexpressible, weak check); numbers incl. 0.0, negatives, exponent-form values, ints, optionally numpy scalars; '
        '0-14 interactions drawn from a per-case palette of bonds, angles, dihedrals, impropers, constraints, pairs, pairs_nb, '
        'exclusions (1-5 atoms), virtual_sitesn (2-6 atoms), virtual_sites2/3/4, position_restraints, settles, '
        'distance_restraints, cmap and custom section names; parameters = 0-4 tokens (str/int/float); meta version, ifdef xor '
        'ifndef (small tag pool, explicit None allowed), group, comment, unrelated keys; plus duplicates of earlier interactions '
        '(exact / other version / reversed atoms / other guard); moltype by argument or meta, nrexcl, header, meta[define], '
        'pre/post_section_lines by argument or meta (comment or raw marker lines; used and unused sections), edges and '
        'unrelated node attributes.  non-trivial = node keys are not 0..N-1 in order AND at least one interaction with >= 2 '
        'atoms.  contract: the same molecules broken in one documented way (both ifdef and ifndef, missing required node '
        'attribute, no moltype, nrexcl None) must raise ValueError; non-trivial = always (finite list of breakages x random '
        'molecule).')
ASSUMPTIONS = [
    'interactions of a GROMACS directive have the number of atoms the format prescribes for it; custom directives have one arity per case',
    'exclusions carry no parameters, virtual_sitesn carries exactly one (the function type) - the only layouts the ITP format can express',
    'parameters, names and tags are tokens without whitespace, ";", "#", "[", "{", "$", "@"; comments/groups/header lines are single lines',
    'a node with a mass but no charge cannot be expressed in the positional [ atoms ] columns (repo readers document "charge has to be '
    'defined for mass to be"): only the 7 column layout and the value are checked there, class mass-without-charge',
    'partially present atomid: only consistency is checked (atoms 1..N, every node once, interactions follow the written order)',
    'leading/trailing blanks of comments are not significant; an empty comment equals no comment',
    'pre/post section lines: must appear (nothing dropped) and the argument wins over meta; how often post lines repeat inside a '
    'section with several groups is NOT judged unless STRICT_POST_LINES is set (observation recorded as class post-lines-repeated)',
    'group labels are not compared (not part of the statement)',
]

# The writer emits post_section_lines after every (guard, group) block of a
# section instead of once at the end.  The statement of C02 does not cover
# these lines, so by default it is only counted.  See notes/C02.md.
STRICT_POST_LINES = False

FIXED = {
    'bonds': 2, 'angles': 3, 'dihedrals': 4, 'impropers': 4, 'constraints': 2,
    'pairs': 2, 'pairs_nb': 2, 'virtual_sites2': 3, 'virtual_sites3': 4,
    'virtual_sites4': 5, 'position_restraints': 1, 'settles': 1,
    'distance_restraints': 2, 'cmap': 5,
}
CUSTOM = ['interaction_custom', 'my_section', 'zz_extra', 'angle_like']
READITP_SECTIONS = {
    'bonds', 'angles', 'dihedrals', 'constraints', 'pairs', 'pairs_nb',
    'exclusions', 'virtual_sites2', 'virtual_sites3', 'virtual_sites4',
    'virtual_sitesn', 'position_restraints', 'settles', 'distance_restraints',
}
REQUIRED = ('atype', 'resid', 'resname', 'atomname', 'charge_group')


def text_section(name):
    """Where the statement says an in-memory interaction type is written."""
    return 'dihedrals' if name == 'impropers' else name


# ---------------------------------------------------------------------------
# generator

_ALPHA = 'ABCDEFGHIJKLMNOPQRSTUVWXYZabcdefghijklmnopqrstuvwxyz0123456789_+-.*\''
_token = st.text(alphabet=_ALPHA, min_size=1, max_size=6)
# Flat pools keep Hypothesis cheap (one draw per field); arbitrary tokens and
# arbitrary floats are injected per case as a few "overrides" (see below).
_ATYPES = ['P5', 'Qd', 'SC4', 'TN6d', 'C1', 'CT1', 'opls_135', "a'b", 'x.y', '+Q', '-q*', 'P5']
_RESNAMES = ['ALA', 'GLY', 'LYS', 'POPC', 'W', 'X', 'ALA', 'r-1', "N'", '0']
_ATOMNAMES = ['BB', 'SC1', 'SC2', 'CA', 'N', "O5'", 'H*', 'C1', 'BB', '+N', '-C', '1H', 'X_1.2']
_NUMBERS = [0.0, -0.0, 1.0, -1.0, 72.0, 0.5, -0.5, 1e-05, -2.5e-07, 3.3e-10, 1e+16, 12.011, 1.008, 0.333,
            -0.8476, 0.1, 1e-323, 123456789.125, 0, 1, -1, 72, 36, 0.0, 1.0, 72.0]
_PARAM_POOL = ['1', '2', '0.47', '1250', '180', '1e-05', 'gb_1', 'kb', 'C6', '-1', '0.0', '1.50', '1', '2',
               1, 2, 6, 1250, -3, 0, 0.47, 1e-05, 180.0, -0.5, 2500000.0, 1e+16, 'a.b*c', "x'"]
_atype = st.sampled_from(_ATYPES)
_resname = st.sampled_from(_RESNAMES)
_atomname = st.sampled_from(_ATOMNAMES)
_number = st.sampled_from(_NUMBERS)
_param = st.sampled_from(_PARAM_POOL)
_any_float = st.one_of(
    st.floats(min_value=-10, max_value=10, allow_nan=False, allow_infinity=False),
    st.floats(min_value=-1e-4, max_value=1e-4, allow_nan=False, allow_infinity=False),
    st.floats(allow_nan=False, allow_infinity=False),
)
_TAGS = ['FLEXIBLE', 'POSRES', 'A', 'B']
_GROUPS = [None, None, '', 'g1', 'Side chain bonds', 'b; x', 'BB']
_comment = st.sampled_from(['a comment', 'x', 'BB-SC1 ; twice', '# not a pragma', '[ bonds ]', '', 'a  b', '#endif',
                            'BB SC1', '1 2 1 0.47', ';', 'comment'])
_free_comment = st.text(alphabet=_ALPHA + '   ;#[]', min_size=1, max_size=12).map(str.strip)


@st.composite
def _molecule_case(draw, broken=False):
    n = draw(st.one_of(st.integers(1, 25), st.integers(2, 8)))
    key_mode = draw(st.sampled_from(['range', 'shuffled', 'offset', 'sparse', 'sparse', 'sparse', 'wild']))
    if key_mode == 'range':
        keys = list(range(n))
    elif key_mode == 'shuffled':
        keys = list(draw(st.permutations(list(range(n)))))
    elif key_mode == 'offset':
        start = draw(st.integers(-30, 500))
        keys = list(range(start, start + n))
    elif key_mode == 'sparse':
        keys = draw(st.lists(st.integers(-40, 120), min_size=n, max_size=n, unique=True))
    else:
        keys = draw(st.lists(st.integers(-10**6, 10**6), min_size=n, max_size=n, unique=True))

    atomid_mode = draw(st.sampled_from(['none', 'none', 'inorder', 'perm', 'perm', 'perm', 'sparse', 'partial']))
    if atomid_mode == 'none':
        atomids = [None] * n
    elif atomid_mode == 'inorder':
        atomids = list(range(1, n + 1))
    elif atomid_mode == 'perm':
        atomids = list(draw(st.permutations(list(range(1, n + 1)))))
    elif atomid_mode == 'sparse':
        atomids = draw(st.lists(st.one_of(st.integers(-5, 30), st.integers(-5, 100000)), min_size=n, max_size=n, unique=True))
    else:
        atomids = draw(st.lists(st.one_of(st.none(), st.integers(1, n)), min_size=n, max_size=n))

    cm_mode = draw(st.sampled_from(['both', 'both', 'mixed', 'mixed', 'charge', 'none', 'mass-only']))
    rows = draw(st.lists(
        st.tuples(_atype, st.integers(0, 9999), _resname, _atomname, st.integers(0, 999), _number, _number,
                  st.sampled_from(['both', 'both', 'charge', 'none', 'none', 'mass'])),
        min_size=n, max_size=n))
    rows = [list(row) for row in rows]
    for i, field, token in draw(st.lists(st.tuples(st.integers(0, n - 1), st.sampled_from([0, 2, 3]), _token), max_size=2)):
        rows[i][field] = token
    for i, field, value in draw(st.lists(st.tuples(st.integers(0, n - 1), st.sampled_from([5, 6]), _any_float), max_size=3)):
        rows[i][field] = value
    mass_only_allowed = cm_mode == 'mass-only' and draw(st.integers(0, 3)) == 0
    nodes = []
    for i, (atype, resid, resname, atomname, cgnr, charge, mass, per_node) in enumerate(rows):
        have = {'both': 'both', 'charge': 'charge', 'none': 'none', 'mixed': per_node, 'mass-only': per_node}[cm_mode]
        if have == 'mass' and not mass_only_allowed:
            have = 'both'
        if atomid_mode == 'partial':
            atomname = '%s_n%d' % (atomname, i)   # rows must be identifiable, the order is not prescribed
        nodes.append({
            'key': keys[i], 'atype': atype, 'resid': resid, 'resname': resname, 'atomname': atomname,
            'charge_group': cgnr,
            'charge': charge if have in ('both', 'charge') else None,
            'mass': mass if have in ('both', 'mass') else None,
            'atomid': atomids[i],
        })

    # interactions
    pool = [name for name, k in FIXED.items() if k <= n]
    pool += ['dihedrals', 'impropers', 'bonds', 'angles'] * 2 if n >= 4 else []
    pool += ['exclusions', 'exclusions']
    if n >= 2:
        pool += ['virtual_sitesn'] * 3
    custom_arity = {}
    if draw(st.integers(0, 3)) == 0:
        for name in draw(st.lists(st.sampled_from(CUSTOM), min_size=1, max_size=2, unique=True)):
            custom_arity[name] = draw(st.integers(1, min(4, n)))
            pool += [name] * 2
    palette = draw(st.lists(st.sampled_from(pool), min_size=1, max_size=5))
    if n >= 4 and draw(st.integers(0, 4)) == 0:
        palette += ['dihedrals', 'impropers']
    n_inter = draw(st.integers(0, 14))
    interactions = []
    for _ in range(n_inter):
        sec = draw(st.sampled_from(palette))
        if sec == 'exclusions':
            k = draw(st.integers(1, min(5, n)))
        elif sec == 'virtual_sitesn':
            k = draw(st.integers(2, min(6, n)))
        elif sec in custom_arity:
            k = custom_arity[sec]
        else:
            k = FIXED[sec]
        atoms = draw(st.lists(st.integers(0, n - 1), min_size=k, max_size=k, unique=True))
        if sec == 'exclusions':
            params = []
        elif sec == 'virtual_sitesn':
            params = [draw(st.sampled_from([1, 2, 4, '1', '2']))]
        else:
            params = draw(st.lists(_param, min_size=0, max_size=4))
        meta = {}
        flags = draw(st.integers(0, 255))
        if flags & 1:
            meta['version'] = draw(st.integers(0, 3))
        if flags & 2:
            meta['comment'] = draw(_comment)
        if flags & 4:
            meta['group'] = draw(st.sampled_from(_GROUPS))
        guard = draw(st.sampled_from(['', '', '', 'ifdef', 'ifndef', 'ifdef-none', 'ifndef-none']))
        if guard:
            tag = draw(st.sampled_from(_TAGS))
            kind = guard.split('-')[0]
            meta[kind] = tag
            if guard.endswith('-none'):
                meta['ifndef' if kind == 'ifdef' else 'ifdef'] = None
        if flags & 8 and flags & 16:
            meta['edge'] = False
        interactions.append({'sec': sec, 'atoms': atoms, 'params': params, 'meta': meta})
    if interactions:
        extra_param = st.one_of(_token, _any_float, st.integers(-10**6, 10**6))
        for idx, value, comment in draw(st.lists(st.tuples(st.integers(0, len(interactions) - 1), extra_param,
                                                           st.one_of(st.none(), _free_comment)), max_size=2)):
            if interactions[idx]['sec'] not in ('exclusions', 'virtual_sitesn'):
                interactions[idx]['params'].append(value)
            if comment is not None:
                interactions[idx]['meta']['comment'] = comment
        for src, how in draw(st.lists(st.tuples(st.integers(0, len(interactions) - 1),
                                                 st.sampled_from(['exact', 'exact', 'version', 'reversed', 'guard', 'params'])),
                                       max_size=3)):
            base = interactions[src]
            dup = {'sec': base['sec'], 'atoms': list(base['atoms']), 'params': list(base['params']),
                   'meta': dict(base['meta'])}
            if how == 'version':
                dup['meta']['version'] = dup['meta'].get('version', 0) + 1
            elif how == 'reversed':
                dup['atoms'] = dup['atoms'][::-1]
            elif how == 'guard':
                dup['meta'].pop('ifdef', None)
                dup['meta'].pop('ifndef', None)
                dup['meta'][draw(st.sampled_from(['ifdef', 'ifndef']))] = draw(st.sampled_from(_TAGS))
            elif how == 'params' and base['sec'] not in ('exclusions', 'virtual_sitesn'):
                dup['params'] = draw(st.lists(_param, min_size=0, max_size=4))
            interactions.append(dup)

    # everything around the molecule
    case = {
        'nodes': nodes,
        'atomid_mode': atomid_mode,
        'interactions': interactions,
        'custom_arity': custom_arity,
        'moltype': draw(st.one_of(st.sampled_from(['molecule_0', 'TEST', 'Protein_A']), _token)),
        'moltype_via': draw(st.sampled_from(['meta', 'meta', 'arg', 'both'])),
        'nrexcl': draw(st.integers(0, 5)),
        'header': draw(st.one_of(st.just([]), st.lists(st.one_of(_comment, _free_comment).filter(bool), min_size=1, max_size=3))),
        'define': draw(st.one_of(st.just(None), st.just(None), st.lists(
            st.tuples(st.sampled_from(['POSRES_FC', 'FLEXIBLE', 'K_B', 'X1']), st.one_of(st.integers(0, 5000), _token)),
            min_size=0, max_size=3, unique_by=lambda t: t[0]).map(lambda l: [list(t) for t in l]))),
        'np_floats': draw(st.integers(0, 5)) == 0,
        'extra_attrs': draw(st.booleans()),
        'edges': draw(st.lists(st.tuples(st.integers(0, n - 1), st.integers(0, n - 1)), max_size=4).map(
            lambda l: [list(t) for t in l])),
    }
    prepost = {'pre': {}, 'post': {}}
    if draw(st.integers(0, 3)) == 0:
        used = sorted({text_section(i['sec']) for i in interactions})
        candidates = ['atoms'] + used + ['position_restraints', 'exclusions', 'only_lines']
        serial = 0
        for which in ('pre', 'post'):
            for sec in draw(st.lists(st.sampled_from(candidates), max_size=3, unique=True)):
                lines = []
                for kind in draw(st.lists(st.sampled_from(['comment', 'comment', 'raw', 'rawc']), min_size=1, max_size=2)):
                    marker = '%s@%d' % (which.upper(), serial)
                    serial += 1
                    if kind == 'comment':
                        lines.append('; %s some text' % marker)
                    elif kind == 'raw':
                        lines.append('%s x 1' % marker)
                    else:
                        lines.append('%s y ; trailing' % marker)
                prepost[which][sec] = lines
    case['pre'] = prepost['pre']
    case['post'] = prepost['post']
    case['prepost_via'] = draw(st.sampled_from(['meta', 'arg']))
    if broken:
        options = ['both-guards', 'no-moltype', 'no-nrexcl'] + ['missing-%s' % a for a in REQUIRED]
        if not interactions:
            options.remove('both-guards')
        kind = draw(st.sampled_from(options))
        case['broken'] = {'kind': kind, 'node': draw(st.integers(0, n - 1)),
                          'interaction': draw(st.integers(0, max(0, len(interactions) - 1)))}
    return case


def _strategy_main(tier):
    return _molecule_case()


def _strategy_contract(tier):
    return _molecule_case(broken=True)


# ---------------------------------------------------------------------------
# building the real objects

def _num(value, as_numpy):
    if as_numpy and isinstance(value, float):
        return np.float64(value)
    return value


def build(case):
    """Returns (molecule, keyword arguments for the writer)."""
    as_numpy = case['np_floats']
    broken = case.get('broken', {'kind': None})
    mol = vermouth.Molecule(nrexcl=case['nrexcl'])
    for i, node in enumerate(case['nodes']):
        attrs = {a: node[a] for a in REQUIRED}
        for name in ('charge', 'mass'):
            if node[name] is not None:
                attrs[name] = _num(node[name], as_numpy)
        if node['atomid'] is not None:
            attrs['atomid'] = node['atomid']
        if case['extra_attrs']:
            attrs['chain'] = 'A'
            attrs['position'] = np.array([0.1 * i, 1.0, -2.0])
            attrs['element'] = 'C'
        if (broken['kind'] or '').startswith('missing-') and i == broken['node']:
            del attrs[broken['kind'][len('missing-'):]]
        mol.add_node(node['key'], **attrs)
    keys = [node['key'] for node in case['nodes']]
    for a, b in case['edges']:
        if a != b:
            mol.add_edge(keys[a], keys[b])
    for idx, inter in enumerate(case['interactions']):
        meta = dict(inter['meta'])
        if broken['kind'] == 'both-guards' and idx == broken['interaction']:
            meta['ifdef'] = 'FLEXIBLE'
            meta['ifndef'] = 'POSRES'
        mol.add_interaction(inter['sec'], atoms=[keys[i] for i in inter['atoms']],
                            parameters=[_num(p, as_numpy) for p in inter['params']], meta=meta)
    kwargs = {}
    if case['moltype_via'] in ('meta', 'both') and broken['kind'] != 'no-moltype':
        mol.meta['moltype'] = case['moltype'] if case['moltype_via'] == 'meta' else 'DECOY_MOLTYPE'
    if case['moltype_via'] in ('arg', 'both') and broken['kind'] != 'no-moltype':
        kwargs['moltype'] = case['moltype']
    if broken['kind'] == 'no-nrexcl':
        mol.nrexcl = None
    if case['header']:
        kwargs['header'] = list(case['header'])
    if case['define'] is not None:
        mol.meta['define'] = {name: value for name, value in case['define']}
    if case['prepost_via'] == 'meta':
        if case['pre']:
            mol.meta['pre_section_lines'] = {k: list(v) for k, v in case['pre'].items()}
        if case['post']:
            mol.meta['post_section_lines'] = {k: list(v) for k, v in case['post'].items()}
    else:
        kwargs['pre_section_lines'] = {k: list(v) for k, v in case['pre'].items()}
        kwargs['post_section_lines'] = {k: list(v) for k, v in case['post'].items()}
        mol.meta['pre_section_lines'] = {'atoms': ['; DECOY@0 must not be written'], 'bonds': ['DECOY@1 1 2']}
        mol.meta['post_section_lines'] = {'atoms': ['DECOY@2 z'], 'only_decoy': ['; DECOY@3']}
    return mol, kwargs


# ---------------------------------------------------------------------------
# oracle

def _param_matches(expected, token):
    if isinstance(expected, str):
        return token == expected
    try:
        return float(token) == expected
    except ValueError:
        return False


def _params_match(expected, tokens):
    return len(expected) == len(tokens) and all(_param_matches(e, t) for e, t in zip(expected, tokens))


def _match_multiset(expected, observed):
    """
    Maximum bipartite matching (augmenting paths) between the expected
    parameter lists and the observed token lists.  Returns (unmatched
    expected indices, unmatched observed indices).
    """
    adj = [[j for j, obs in enumerate(observed) if _params_match(exp, obs)] for exp in expected]
    owner = {}

    def augment(i, seen):
        for j in adj[i]:
            if j in seen:
                continue
            seen.add(j)
            if j not in owner or augment(owner[j], seen):
                owner[j] = i
                return True
        return False

    missing = [i for i in range(len(expected)) if not augment(i, set())]
    extra = [j for j in range(len(observed)) if j not in owner]
    return missing, extra


def _norm_comment(comment):
    if comment is None:
        return ''
    return comment.strip()


def _expected_guard(meta):
    if meta.get('ifdef') is not None:
        return (('ifdef', meta['ifdef']),)
    if meta.get('ifndef') is not None:
        return (('ifndef', meta['ifndef']),)
    return ()


def _marker(line):
    """The PRE@n / POST@n / DECOY@n marker of a pre/post section line, or None."""
    if line.tokens and '@' in line.tokens[0]:
        return line.tokens[0]
    if not line.tokens and line.comment and '@' in line.comment.split(' ')[0]:
        return line.comment.split(' ')[0]
    return None


def model_order(case):
    """Node positions (indices into case['nodes']) in the order the statement
    prescribes: by atom id, else node order.  None where it is not prescribed."""
    mode = case['atomid_mode']
    n = len(case['nodes'])
    if mode == 'none':
        return list(range(n))
    if mode == 'partial':
        return None
    return sorted(range(n), key=lambda i: case['nodes'][i]['atomid'])


def check_text(case, text):
    """The oracle proper.  Returns a dict of facts for classification."""
    facts = {}
    try:
        sections, defines, includes, preamble = ref.parse(text)
    except ref.ITPFormatError as err:
        raise Violation('malformed-itp', 'the written text is not a well formed ITP: %s\n%s' % (err, text))
    if includes:
        raise Violation('unexpected-include', 'an #include appeared from nowhere: %r' % (includes,))

    # -- header and defines ------------------------------------------------
    head = [ln for ln in preamble if ln.tokens]
    if head:
        raise Violation('data-before-moleculetype', 'data lines before the first section: %r' % ([ln.tokens for ln in head],))
    got_header = [ln.comment for ln in preamble]
    if got_header != [h.strip() for h in case['header']]:
        raise Violation('header', 'header comment lines %r, expected %r' % (got_header, case['header']))
    expected_defines = case['define'] or []
    if len(defines) != len(expected_defines):
        raise Violation('define', '#define lines %r, expected %r' % (defines, expected_defines))
    for (name, value), got in zip(expected_defines, defines):
        if (got.name != name or not _param_matches(value, got.value)
                or got.guard != (('ifndef', name),) or (sections and got.lineno > sections[0].lineno)):
            raise Violation('define', '#define %r, expected name %r value %r under #ifndef %s before [ moleculetype ]'
                            % (got, name, value, name))

    # -- moleculetype ------------------------------------------------------
    if len(sections) < 2 or sections[0].name != 'moleculetype' or sections[1].name != 'atoms':
        raise Violation('section-layout', 'expected [ moleculetype ] then [ atoms ], got %r' % ([s.name for s in sections],))
    if [s.name for s in sections].count('moleculetype') != 1 or [s.name for s in sections].count('atoms') != 1:
        raise Violation('section-layout', 'moleculetype/atoms more than once: %r' % ([s.name for s in sections],))
    for sec in sections:
        if sec.guard:
            raise Violation('section-in-guard', 'section header [ %s ] inside conditional %r' % (sec.name, sec.guard))
    try:
        got_moltype = ref.read_moleculetype(sections[0].lines)
    except ref.ITPFormatError as err:
        raise Violation('moleculetype', str(err))
    if got_moltype != (case['moltype'], case['nrexcl']):
        raise Violation('moleculetype', 'moleculetype line %r, expected %r' % (got_moltype, (case['moltype'], case['nrexcl'])))

    # -- pre/post lines: collect markers per section occurrence ------------
    marker_hits = {}
    for s_idx, sec in enumerate(sections):
        data_positions = [i for i, ln in enumerate(sec.lines) if ln.tokens and _marker(ln) is None]
        for i, ln in enumerate(sec.lines):
            mark = _marker(ln)
            if mark is None:
                continue
            if mark.startswith('DECOY@'):
                raise Violation('prepost-meta-over-argument', 'line %r from molecule.meta was written although the '
                                'argument was given' % (mark,))
            before = sum(1 for p in data_positions if p < i)
            after = len(data_positions) - before
            marker_hits.setdefault(mark, []).append((sec.name, s_idx, before, after, ln))
    facts['post_repeated'] = False
    occurrences = {}
    for sec in sections:
        occurrences[sec.name] = occurrences.get(sec.name, 0) + 1
    for which in ('pre', 'post'):
        for sec_name, lines in case[which].items():
            for line in lines:
                mark = line.lstrip('; ').split(' ')[0]
                hits = marker_hits.pop(mark, [])
                if not hits:
                    raise Violation('prepost-dropped', '%s_section_lines[%r] line %r was not written' % (which, sec_name, line))
                for name, _, before, after, ln in hits:
                    if name != sec_name:
                        raise Violation('prepost-wrong-section', 'line %r of section %r was written in [ %s ]' % (line, sec_name, name))
                    exp_tokens = line.split(';')[0].split()
                    if ln.tokens != exp_tokens:
                        raise Violation('prepost-altered', 'line %r was written as %r' % (line, ln))
                    if which == 'pre' and before:
                        raise Violation('prepost-position', 'pre line %r comes after %d data lines of [ %s ]' % (line, before, name))
                    if which == 'post' and after:
                        facts['post_repeated'] = True
                        if STRICT_POST_LINES:
                            raise Violation('post-lines-repeated', 'post line %r is followed by %d more data lines in [ %s ]'
                                            % (line, after, name))
                if len(hits) < occurrences.get(sec_name, 0):
                    raise Violation('prepost-dropped', 'line %r written %d times for %d occurrences of [ %s ]'
                                    % (line, len(hits), occurrences[sec_name], sec_name))
                if len(hits) > occurrences.get(sec_name, 0):
                    facts['post_repeated'] = True
                    if which == 'pre' or STRICT_POST_LINES:
                        raise Violation('%s-lines-repeated' % which, 'line %r written %d times for %d occurrences of [ %s ]'
                                        % (line, len(hits), occurrences[sec_name], sec_name))
    if marker_hits:
        raise Violation('prepost-extra', 'marker lines nobody asked for: %r' % (sorted(marker_hits),))

    # -- atoms ---------------------------------------------------------------
    nodes = case['nodes']
    n = len(nodes)
    atom_lines = [ln for ln in sections[1].lines if ln.tokens and _marker(ln) is None]
    try:
        atoms = [ref.read_atom(ln) for ln in atom_lines]
    except ref.ITPFormatError as err:
        raise Violation('malformed-atom-line', str(err))
    if len(atoms) != n:
        raise Violation('atoms-count', '%d atom lines for %d nodes' % (len(atoms), n))
    for k, atom in enumerate(atoms, 1):
        if atom.nr != k:
            raise Violation('atoms-numbering', 'atom line %d is numbered %d (must be 1..N without gaps)' % (k, atom.nr))
        if atom.guard:
            raise Violation('atom-in-guard', 'atom line %d inside conditional %r' % (k, atom.guard))
    order = model_order(case)
    if order is None:
        by_name = {}
        for i, node in enumerate(nodes):
            by_name[node['atomname']] = i
        try:
            order = [by_name[atom.atomname] for atom in atoms]
        except KeyError as err:
            raise Violation('atom-field:atomname', 'atom name %s is not in the molecule' % err)
        if sorted(order) != list(range(n)):
            raise Violation('atoms-not-a-permutation', 'atom table repeats/drops nodes: %r' % (order,))
    mass_shift = False
    for k, (atom, pos) in enumerate(zip(atoms, order), 1):
        node = nodes[pos]
        for field, got, want in (('atype', atom.atype, node['atype']), ('resid', atom.resnr, node['resid']),
                                 ('resname', atom.resname, node['resname']), ('atomname', atom.atomname, node['atomname']),
                                 ('charge_group', atom.cgnr, node['charge_group'])):
            if got != want:
                # is it the right row at the wrong place?
                rows = {(a.atype, a.resnr, a.resname, a.atomname, a.cgnr) for a in atoms}
                want_rows = {(m['atype'], m['resid'], m['resname'], m['atomname'], m['charge_group']) for m in nodes}
                bucket = 'atom-order' if rows == want_rows else 'atom-field:%s' % field
                raise Violation(bucket, 'atom line %d: %s is %r, the model order (atom id, else node order) puts node %r '
                                'there with %s=%r' % (k, field, got, node['key'], field, want))
        if node['charge'] is None and node['mass'] is not None:
            # not expressible; see ASSUMPTIONS
            mass_shift = True
            if atom.mass is not None or atom.charge != node['mass']:
                raise Violation('atom-mass-only-layout', 'atom line %d: node without charge and mass %r written as '
                                'charge=%r mass=%r' % (k, node['mass'], atom.charge, atom.mass))
            continue
        for field, got, want in (('charge', atom.charge, node['charge']), ('mass', atom.mass, node['mass'])):
            if (got is None) != (want is None) or (want is not None and got != want):
                raise Violation('atom-field:%s' % field, 'atom line %d (node %r): %s is %r in the text, %r in memory'
                                % (k, node['key'], field, got, want))
    facts['mass_shift'] = mass_shift
    facts['order'] = order

    # -- interactions --------------------------------------------------------
    keys_in_order = [nodes[pos]['key'] for pos in order]
    expected = {}
    for inter in case['interactions']:
        ident = (text_section(inter['sec']), _expected_guard(inter['meta']),
                 tuple(nodes[i]['key'] for i in inter['atoms']), _norm_comment(inter['meta'].get('comment')))
        expected.setdefault(ident, []).append(list(inter['params']))
    allowed_sections = {ident[0] for ident in expected} | set(case['pre']) | set(case['post'])
    arity = dict(case['custom_arity'])
    observed = {}
    readable = []     # (section, Bonded) in file order for the differential
    for sec in sections[2:]:
        if sec.name not in allowed_sections:
            raise Violation('section-unexpected', 'section [ %s ] has no counterpart in memory' % sec.name)
        for ln in sec.lines:
            if not ln.tokens or _marker(ln) is not None:
                continue
            try:
                bonded = ref.read_interaction(sec.name, ln, atom_count=arity.get(sec.name))
            except ref.ITPFormatError as err:
                raise Violation('malformed-interaction-line', '[ %s ] %s' % (sec.name, err))
            for idx in bonded.atoms:
                if not 1 <= idx <= n:
                    raise Violation('interaction-index-range', '[ %s ] line %d refers to atom %d, there are %d atoms'
                                    % (sec.name, ln.lineno, idx, n))
            ident = (sec.name, bonded.guard, tuple(keys_in_order[idx - 1] for idx in bonded.atoms),
                     _norm_comment(bonded.comment))
            observed.setdefault(ident, []).append(list(bonded.parameters))
            readable.append((sec.name, bonded))
    problems = []
    for ident in sorted(set(expected) | set(observed), key=repr):
        missing, extra = _match_multiset(expected.get(ident, []), observed.get(ident, []))
        problems.extend(('missing', ident, expected[ident][i]) for i in missing)
        problems.extend(('extra', ident, observed[ident][j]) for j in extra)
    if problems:
        raise Violation(_interaction_bucket(problems), _interaction_message(problems, text))
    facts['readable'] = readable
    facts['atoms'] = atoms
    facts['sections'] = sections
    return facts


def _interaction_bucket(problems):
    missing = [p for p in problems if p[0] == 'missing']
    extra = [p for p in problems if p[0] == 'extra']
    if missing and not extra:
        return 'interaction-dropped'
    if extra and not missing:
        return 'interaction-duplicated-or-invented'
    # something was written differently: name the first difference
    _, (sec, guard, atoms, comment), params = missing[0]
    def close(other):
        _, (sec2, guard2, atoms2, comment2), params2 = other
        diffs = []
        if sec2 != sec:
            diffs.append('section')
        if guard2 != guard:
            diffs.append('guard')
        if atoms2 != atoms:
            diffs.append('atoms')
        if comment2 != comment:
            diffs.append('comment')
        if not _params_match(params, params2):
            diffs.append('parameters')
        return diffs
    best = min((close(e) for e in extra), key=len)
    if len(best) == 1:
        return 'interaction-%s' % best[0]
    return 'interaction-mismatch'


def _interaction_message(problems, text):
    lines = []
    for kind, (sec, guard, atoms, comment), params in problems[:6]:
        lines.append('%s: [ %s ] guard=%r node keys=%r parameters=%r comment=%r' % (
            'in memory but not in the text' if kind == 'missing' else 'in the text but not in memory',
            sec, guard, atoms, params, comment))
    return '; '.join(lines) + '\n' + text


def check_against_read_itp(case, text, facts):
    """Differential: the repository's reader must see what the independent
    reader sees.  Returns True if the comparison was made."""
    sections = facts['sections']
    if any(sec.name not in READITP_SECTIONS for sec in sections[2:]):
        return False
    for which in ('pre', 'post'):
        for lines in case[which].values():
            if any(not line.startswith(';') for line in lines):
                return False
    force_field = ForceField(name='c02')
    try:
        read_itp(text.splitlines(True), force_field)
    except (IOError, KeyError, ValueError, IndexError) as err:
        raise Violation('readitp-rejects', 'read_itp cannot read the text written by write_molecule_itp: %r\n%s' % (err, text))
    if list(force_field.blocks) != [case['moltype']]:
        raise Violation('readitp-disagree:moltype', 'read_itp found blocks %r' % (list(force_field.blocks),))
    block = force_field.blocks[case['moltype']]
    if block.nrexcl != case['nrexcl']:
        raise Violation('readitp-disagree:moltype', 'read_itp nrexcl %r' % (block.nrexcl,))
    atoms = facts['atoms']
    if list(block.nodes) != list(range(len(atoms))):
        raise Violation('readitp-disagree:atoms', 'read_itp nodes %r for %d atom lines' % (list(block.nodes), len(atoms)))
    for atom, key in zip(atoms, block.nodes):
        node = block.nodes[key]
        mine = (atom.nr, atom.atype, atom.resnr, atom.resname, atom.atomname, atom.cgnr, atom.charge, atom.mass)
        theirs = (node.get('index'), node.get('atype'), node.get('resid'), node.get('resname'), node.get('atomname'),
                  node.get('charge_group'), node.get('charge'), node.get('mass'))
        if mine != theirs:
            raise Violation('readitp-disagree:atoms', 'atom line %d: independent reader %r, read_itp %r' % (atom.nr, mine, theirs))
    mine = {}
    for name, bonded in facts['readable']:
        mine.setdefault(name, []).append(bonded)
    theirs = {name: list(inters) for name, inters in block.interactions.items() if inters}
    if set(mine) != set(theirs):
        raise Violation('readitp-disagree:interactions', 'sections %r vs read_itp %r' % (sorted(mine), sorted(theirs)))
    for name in mine:
        if len(mine[name]) != len(theirs[name]):
            raise Violation('readitp-disagree:interactions', '[ %s ]: %d lines vs read_itp %d' % (name, len(mine[name]), len(theirs[name])))
        for bonded, inter in zip(mine[name], theirs[name]):
            guard = tuple(sorted((k, v) for k, v in inter.meta.items() if k in ('ifdef', 'ifndef')))
            if (tuple(i - 1 for i in bonded.atoms) != tuple(inter.atoms) or bonded.guard != guard
                    or list(bonded.parameters) != list(inter.parameters)):
                raise Violation('readitp-disagree:interactions', '[ %s ] line %d: independent reader %r, read_itp %r'
                                % (name, bonded.lineno, bonded, inter))
    return True


# ---------------------------------------------------------------------------
# parts

def _run_main(case):
    mol, kwargs = build(case)

    def snapshot():
        return ([(key, sorted((k, repr(v)) for k, v in mol.nodes[key].items())) for key in mol.nodes],
                sorted((name, [(tuple(i.atoms), [repr(p) for p in i.parameters], sorted((k, repr(v)) for k, v in i.meta.items()))
                               for i in lst]) for name, lst in mol.interactions.items() if lst))
    before = snapshot()
    out = io.StringIO()
    write_molecule_itp(mol, out, **kwargs)
    text = out.getvalue()
    # writing states the molecule, it does not change it: the molecule is the same afterwards and a second write of the same
    # object gives the same text (nothing duplicated, dropped or re-ordered in memory by the first write)
    if snapshot() != before:
        raise Violation('molecule-changed-by-writing', 'write_molecule_itp changed the molecule held in memory')
    again = io.StringIO()
    write_molecule_itp(mol, again, **kwargs)
    if again.getvalue() != text:
        raise Violation('second-write-differs', 'writing the same molecule a second time gives another text')
    facts = check_text(case, text)
    compared = check_against_read_itp(case, text, facts)
    # the written file states the molecule as it is NOW: renumber the atoms of the object that was just written (same node
    # keys, atom ids handed out in the opposite direction) and write it once more; the whole oracle applies to the new text
    renumbered = False
    if case['atomid_mode'] in ('inorder', 'perm', 'sparse') and len(case['nodes']) >= 2:
        case2 = copy.deepcopy(case)
        ids = [node['atomid'] for node in case['nodes']]
        for node, atomid in zip(case2['nodes'], reversed(ids)):
            node['atomid'] = atomid
            mol.nodes[node['key']]['atomid'] = atomid
        third = io.StringIO()
        write_molecule_itp(mol, third, **kwargs)
        try:
            check_text(case2, third.getvalue())
        except Violation as viol:
            raise Violation('rewrite-after-renumbering:' + viol.bucket,
                            'after the molecule was written, its atom ids reversed and written again: ' + viol.message)
        renumbered = True

    nodes = case['nodes']
    n = len(nodes)
    inters = case['interactions']
    classes = []
    keys_trivial = [node['key'] for node in nodes] == list(range(n))
    if facts['order'] != list(range(n)):
        classes.append('written-order-differs-from-node-order')
    if case['atomid_mode'] in ('perm', 'sparse') and facts['order'] != list(range(n)):
        classes.append('atomid-perm-nonidentity')
    if renumbered:
        classes.append('rewritten-after-renumbering')
    if case['atomid_mode'] == 'partial':
        classes.append('atomid-partial')
    if case['atomid_mode'] == 'none':
        classes.append('atomid-none')
    if any(_expected_guard(i['meta']) for i in inters):
        classes.append('guarded')
    if any(i['sec'] == 'virtual_sitesn' for i in inters):
        classes.append('virtual_sitesn')
    secs = {i['sec'] for i in inters}
    if {'impropers', 'dihedrals'} <= secs:
        classes.append('impropers+dihedrals')
    if secs & set(case['custom_arity']):
        classes.append('custom-section')
    if any(i['sec'] == 'exclusions' for i in inters):
        classes.append('exclusions')
    idents = [(i['sec'], tuple(i['atoms']), repr(i['params']), repr(sorted(i['meta'].items(), key=repr))) for i in inters]
    if len(set(idents)) < len(idents):
        classes.append('exact-duplicate')
    per_section = {}
    for i in inters:
        per_section.setdefault(i['sec'], set()).add((_expected_guard(i['meta']), i['meta'].get('group') or ''))
    if any(len(v) > 1 for v in per_section.values()):
        classes.append('several-groups-in-section')
    if any('comment' in i['meta'] and i['meta']['comment'] for i in inters):
        classes.append('comment')
    if any(node['charge'] is None and node['mass'] is None for node in nodes):
        classes.append('blank-charge-mass')
    if facts['mass_shift']:
        classes.append('mass-without-charge')
    if any(isinstance(node[f], float) and 'e' in repr(node[f]) for node in nodes for f in ('charge', 'mass')):
        classes.append('exponent-form-number')
    if case['pre'] or case['post']:
        classes.append('pre-post-lines')
    if facts['post_repeated']:
        classes.append('post-lines-repeated')
    if case['define']:
        classes.append('define')
    if compared:
        classes.append('read_itp-compared')
    if n == 1:
        classes.append('single-node')
    nontrivial = (not keys_trivial) and any(len(i['atoms']) >= 2 for i in inters)
    return Outcome(classes, nontrivial)


def _run_contract(case):
    mol, kwargs = build(case)
    kind = case['broken']['kind']
    out = io.StringIO()
    try:
        write_molecule_itp(mol, out, **kwargs)
    except ValueError:
        return Outcome([kind], True)
    raise Violation('no-valueerror:%s' % kind.split('-')[0],
                    'the writer accepted a molecule broken by %r (documented: ValueError); it wrote\n%s' % (kind, out.getvalue()))


PARTS = [
    Part('main', _run_main, strategy=_strategy_main,
         examples={'quick': 4000, 'thorough': 100000},
         floors={'atomid-perm-nonidentity': 0.15, 'guarded': 0.2, 'virtual_sitesn': 0.08,
                 'impropers+dihedrals': 0.03, 'exact-duplicate': 0.03, 'several-groups-in-section': 0.15,
                 'comment': 0.2, 'blank-charge-mass': 0.1, 'read_itp-compared': 0.15, 'atomid-partial': 0.04,
                 'exclusions': 0.05}),
    Part('contract', _run_contract, strategy=_strategy_contract,
         examples={'quick': 320, 'thorough': 3200}),
]
