"""
C05  Links are applied at exactly the places where they fit.

Part `toy` (A): a generated CG molecule (2-7 residues x 1-3 beads, gaps /
jumps / repeats in the residue numbering, branched and cyclic connectivity)
and an ordered list of 1-6 generated links using the documented link features.
Half of the cases write the links as .ff text that is parsed by
vermouth.ffinput.read_ff, the other half build Link objects.  The oracle is
the reference interpreter pbt/c05_ref_links.py (brute force enumeration of
assignments, conditions from the documentation, sequential application to a
model molecule).  Compared: placements of every link on the initial molecule
(match_link), and after DoLinks the node set, the node attributes and per
interaction type the multiset of (atoms, parameters, meta).

Part `order-table`: the 12 x 12 order codes x all residue number pairs of a
small range, match_order against the documented comparison matrix.

Part `shipped` (B): the martini3001 and martini22 link sets on generated short
protein-like CG molecules, full comparison against the same reference
interpreter after a structural translation of the Link objects.
"""
import copy
import json
import os

from hypothesis import strategies as st

from pbt.core import Part, Outcome, Violation, HarnessError
from pbt import c05_ref_links as ref

import numpy as np
import vermouth
import vermouth.forcefield
from vermouth.molecule import (Molecule, Link, Interaction, DeleteInteraction, Choice,
                               NotDefinedOrNot, ParamDistance, ParamAngle, ParamDihedral,
                               ParamDihedralPhase, LinkPredicate, LinkParameterEffector)
from vermouth.processors import do_links
from vermouth.ffinput import read_ff

PROPERTY = 'C05'
LEVEL = 'exploration'
RULE = ('toy: molecule of 2-7 residues x 1-3 beads (<= 18 beads; residue numbers with gaps, jumps back, repeats across chains; '
        'branched/cyclic bead graph; pre-existing versioned bonds/angles) and 1-6 links, each seeded from a connected (sometimes '
        'disconnected) bead set of the molecule and then perturbed (order codes 0/+-n/>/>>/</<</*/**, Choice/NotDefinedOrNot/'
        'equality attributes, [edges], [non-edges], [patterns], [molmeta]+[features], effectors dist/angle/dihedral/dihphase with '
        'format, versions, !removals (without parameters, with all parameters of the interaction they name, with a strict prefix of them or with the last one altered - the last two must not remove), replace incl. atomname:null, derived more-specific later links); 50 % rendered as .ff text '
        'and parsed with read_ff, 50 % built as Link objects.  non-trivial = some link has >= 2 placements AND some candidate '
        'assignment of some link is rejected by exactly one condition (classes decided:<condition>).  '
        'order-table: all ordered pairs of 12 order codes x residue numbers 1..6 (enumerated, both argument orders); non-trivial = '
        'cell of the documented matrix is not "!".  shipped: martini3001/martini22 links on generated protein-like CG molecules '
        '(blocks of the force field, 3-8 residues, gaps/branches/secondary structure drawn); non-trivial = >= 10 placements in total and >= 3 '
        'different links placed.')
ASSUMPTIONS = [
    'matching is induced: among the matched atoms the molecule has exactly the edges of the link (statement: "required bonds and absent bonds among the matched atoms")',
    'a link is applied at every injective assignment, symmetric ones included (workflow doc: "BB *BB will be applied both forwards and backwards"); interactions are keyed by the exact atom tuple and version, so (a,b) and (b,a) are two interactions',
    'an attribute that is not defined on an atom equals None for equality conditions (molecule.py: "an unspecified attribute is equivalent to the attribute being None"); Choice lists never contain None',
    'the selection statements under [ link ] apply to every atom of the link including the partner of a non-edge; explicit attribute keys never repeat a selection statement key',
    'non-edge anchors are atoms of the reference residue (order 0) and the partner prefix is +/-n or none, as in every shipped force field; other combinations are not generated (toy part)',
    'all placements of one link are determined on the molecule as it is when the link is reached; nodes deleted by a link (replace atomname:null) disappear after all placements of that link were applied (the only order-independent reading)',
    'within one placement removals are applied before additions (needed for "the link\'s interactions are present"); cases where the result would depend on the order in which placements are visited (a placement removes what another adds, different placements write different content under the same atoms+version, a removal template matching several interactions) are detected by the reference and the interaction type is then excluded from the comparison (class ambiguous)',
    'a link never replaces an attribute that the same link (nodes, non-edges, patterns, removal conditions) matches on; effector keys are atoms of the interaction itself',
    'the text form never uses [ !dihedrals ] (known parser defect, see notes/C05.md; set C05_BANG_DIHEDRALS=1 to generate it), writes every [ atoms ] entry once and before other sections, and gives orders in removal lines by prefix',
]

NAMES = ['BB', 'SC1', 'SC2']
RESNAMES = ['ALA', 'GLY', 'LYS', 'CYS']
SECSTRUC = ['H', 'C', 'E']
ATYPES = ['P1', 'C2', 'Q0']
NEW_ATYPES = ['Q5', 'SQ1']
POOLS = {
    'resname': RESNAMES,
    'cgsecstruc': SECSTRUC,
    'atype': ATYPES + NEW_ATYPES,
    'chain': ['A', 'B'],
    'mark': [1, 2, 3],
}
ALL_CODES = [0, 1, -1, 2, -2, 3, '>', '<', '>>', '<<', '*', '**']
STATIC_PARAMS = ['0.35', '0.27', '1250', '5000', '100', '25', '0']
BOND_PARAM_SETS = [['1', '0.35', '1250'], ['1', '0.27', '5000']]
TYPES_BY_ARITY = {
    1: ['position_restraints'],
    2: ['bonds', 'bonds', 'bonds', 'constraints', 'pairs'],
    3: ['angles'],
    4: ['dihedrals', 'dihedrals', 'impropers'],
}
EFFECTORS = {'dist': (2, ParamDistance), 'angle': (3, ParamAngle),
             'dihedral': (4, ParamDihedral), 'dihphase': (4, ParamDihedralPhase)}
BANG_DIHEDRALS = os.environ.get('C05_BANG_DIHEDRALS', '1') == '1'
REMOVAL_ORDER_ATTR = os.environ.get('C05_REMOVAL_ORDER_ATTR', '1') == '1'


def order_prefix(code):
    if isinstance(code, int):
        return '+' * code if code > 0 else '-' * (-code)
    return code


# ---------------------------------------------------------------------------
# generator

class D:
    """Thin wrapper: every random choice is a Hypothesis draw."""

    def __init__(self, draw):
        self.draw = draw

    def ri(self, a, b):
        return self.draw(st.integers(a, b))

    def ch(self, seq):
        return seq[self.draw(st.integers(0, len(seq) - 1))]

    def pr(self, pct):
        return self.draw(st.integers(0, 99)) >= 100 - pct

    def sample(self, seq, k):
        seq = list(seq)
        out = []
        for _ in range(min(k, len(seq))):
            out.append(seq.pop(self.ri(0, len(seq) - 1)))
        return out


def gen_molecule(d):
    nres = d.ri(2, 7)
    resid = d.ri(1, 12)
    first_resid = resid
    chain = 'A'
    nid = d.ri(0, 3)
    nodes = []
    edges = []
    residues = []
    for r in range(nres):
        if r > 0:
            if chain == 'A' and r >= 2 and d.pr(12):
                chain = 'B'
                resid = first_resid + d.ch([0, 0, 1])
            else:
                resid += d.ch([1, 1, 1, 1, 1, 1, 2, 2, 3, 7, 0, -3])
        resname = d.ch(RESNAMES)
        room = 18 - len(nodes) - (nres - r - 1)
        nbeads = max(1, min(d.ch([1, 2, 2, 3, 3]), room))
        secstruc = d.ch(['H', 'H', 'C', 'C', 'E', None, 'absent'])
        beads = []
        for b in range(nbeads):
            attrs = {'atomname': NAMES[b], 'resname': resname, 'resid': resid, 'chain': chain,
                     'atype': d.ch(ATYPES), 'charge': d.ch([0.0, 0.0, 1.0, -1.0]),
                     'position': [d.ri(0, 47) / 8.0, d.ri(0, 47) / 8.0, d.ri(0, 47) / 8.0]}
            if secstruc != 'absent':
                attrs['cgsecstruc'] = secstruc
            if d.pr(12):
                attrs['mark'] = d.ri(1, 2)
            nodes.append([nid, attrs])
            beads.append(nid)
            nid += d.ch([1, 1, 1, 2])
        for a, b in zip(beads[:-1], beads[1:]):
            edges.append([a, b])
        if nbeads == 3 and d.pr(12):
            edges.append([beads[0], beads[2]])
        residues.append(beads)
    present = set(frozenset(e) for e in edges)
    for r in range(1, nres):
        if not d.pr(94):
            continue
        parent = r - 1 if d.pr(72) else d.ri(0, r - 1)
        a = residues[parent][0] if d.pr(70) else d.ch(residues[parent])
        b = residues[r][0] if d.pr(70) else d.ch(residues[r])
        if frozenset((a, b)) not in present:
            present.add(frozenset((a, b)))
            edges.append([a, b])
    for _ in range(d.ch([0, 0, 1, 1, 2])):
        r1, r2 = d.sample(range(nres), 2)
        a = d.ch(residues[r1])
        b = d.ch(residues[r2])
        if frozenset((a, b)) not in present:
            present.add(frozenset((a, b)))
            edges.append([a, b])
    attrs_of = dict((k, v) for k, v in nodes)
    inter = []
    for a, b in edges:
        same = attrs_of[a]['resid'] == attrs_of[b]['resid']
        if d.pr(60 if same else 40):
            atoms = [a, b] if d.pr(70) else [b, a]
            if d.pr(18):
                inter.append(['bonds', atoms, list(d.ch(BOND_PARAM_SETS)), {'version': 1}])
                inter.append(['bonds', atoms, list(d.ch(BOND_PARAM_SETS)), {'version': 2}])
            else:
                meta = {'version': d.ri(1, 2)} if d.pr(12) else {}
                inter.append(['bonds', atoms, list(d.ch(BOND_PARAM_SETS)), meta])
    adj = {k: set() for k in attrs_of}
    for a, b in edges:
        adj[a].add(b)
        adj[b].add(a)
    for _ in range(d.ch([0, 1, 2])):
        b = d.ch(list(attrs_of))
        if len(adj[b]) >= 2:
            a, c = d.sample(sorted(adj[b]), 2)
            inter.append(['angles', [a, b, c], ['2', d.ch(['100', '127']), '25'], {}])
    meta = {'moltype': d.ch(['mol_0', 'mol_2'])}
    if d.pr(55):
        meta['scfix'] = d.ch([True, True, False])
    return {'meta': meta, 'nodes': nodes, 'edges': edges, 'inter': inter}


def _other(d, pool, value):
    rest = [v for v in pool if v != value]
    return d.ch(rest)


def gen_spec(d, key, actual, mode, allow_not):
    """actual: value of the seed atom or the string 'absent'."""
    pool = POOLS[key]
    roll = d.ri(0, 99)
    present = actual != 'absent' and actual is not None
    if roll < 12:
        return ['=', _other(d, pool, actual)]
    if roll < 55 or (not present and roll < 80):
        return ['=', actual if present else None]
    if roll < 80 and isinstance(actual, str):
        others = d.sample([v for v in pool if v != actual], d.ch([1, 1, 2]))
        values = [actual] + others
        if d.pr(50):
            values.reverse()
        return ['in', values]
    if allow_not:
        if d.pr(75):
            return ['not', _other(d, pool, actual)]
        return ['not', actual if present else None]
    return ['=', actual if present else None]


def gen_static_params(d, type_):
    first = d.ch(['1', '9', '3']) if type_ == 'dihedrals' else d.ch(['1', '1', '2', '9'])
    return first


def gen_interaction(d, keys, target_edges, mode):
    n = len(keys)
    arities = [a for a in (1, 2, 2, 2, 3, 3, 4, 4) if a <= n]
    arity = d.ch(arities)
    type_ = d.ch(TYPES_BY_ARITY[arity])
    atoms = None
    if arity > 1 and not d.pr(20):
        nbrs = {k: sorted(o for o in keys if frozenset((k, o)) in target_edges) for k in keys}
        for _ in range(3):
            walk = [d.ch(keys)]
            while len(walk) < arity:
                options = [o for o in nbrs[walk[-1]] if o not in walk]
                if not options:
                    break
                walk.append(d.ch(options))
            if len(walk) == arity:
                atoms = walk
                break
    if atoms is None:
        atoms = d.sample(keys, arity)
    meta = {}
    is_path = all(frozenset(p) in target_edges for p in zip(atoms[:-1], atoms[1:]))
    if type_ in ref.EDGE_TYPES and not is_path and d.pr(60):
        meta['edge'] = False
    if d.pr(25):
        meta['version'] = d.ch([1, 1, 2, 2, 0])
    if d.pr(20):
        meta['comment'] = 'c%d' % d.ri(0, 3)
    if d.pr(15):
        meta['group'] = d.ch(['ga', 'gb'])
    params = [gen_static_params(d, type_)]
    for _ in range(d.ch([0, 1, 2, 2, 3])):
        kinds = [k for k, (need, _cls) in sorted(EFFECTORS.items()) if need <= arity]
        if kinds and d.pr(40):
            kind = d.ch(kinds)
            ekeys = d.sample(atoms, EFFECTORS[kind][0])
            params.append([kind, ekeys, d.ch([None, None, '.3f', '.2f', '.1f', '.01f'])])
        else:
            params.append(d.ch(STATIC_PARAMS))
    return [type_, atoms, params, meta]


def match_keys_of(link):
    keys = set(k for k, _ in link['all'])
    for node in link['nodes']:
        keys.update(k for k, _ in node['attrs'])
    for _a, _o, specs in link['non_edges']:
        keys.update(k for k, _ in specs)
    for pattern in link['patterns']:
        for _k, specs in pattern:
            keys.update(k for k, _ in specs)
    for _t, _k, atom_specs, _p, _m in link['removed']:
        for specs in atom_specs:
            keys.update(k for k, _ in specs)
    return keys


def gen_replace(d, link):
    allowed = [k for k in ('atype', 'mark', 'charge') if k not in match_keys_of(link)]
    if not allowed:
        return
    values = {'atype': d.ch(NEW_ATYPES), 'mark': d.ri(1, 3), 'charge': d.ch([0.5, -0.5])}
    for node in d.sample(link['nodes'], d.ch([1, 1, 2])):
        rkeys = d.sample(allowed, d.ch([1, 1, 2]))
        node['replace'] = {k: values[k] for k in rkeys}


def gen_link(d, mol, mode, previous):
    attrs_of = dict((k, v) for k, v in mol['nodes'])
    ids = [k for k, _ in mol['nodes']]
    adj = {k: set() for k in ids}
    for a, b in mol['edges']:
        adj[a].add(b)
        adj[b].add(a)

    if previous and d.pr(28):
        return derive_link(d, mol, mode, d.ch(previous))

    # seed: a bead set of the molecule
    n = d.ch([1, 2, 2, 2, 3, 3, 3, 4, 4])
    chosen = [d.ch(ids)]
    while len(chosen) < n:
        frontier = sorted(set(nb for c in chosen for nb in adj[c]) - set(chosen))
        if frontier and d.pr(93):
            chosen.append(d.ch(frontier))
        else:
            rest = [i for i in ids if i not in chosen]
            if not rest or len(chosen) >= 3:
                break
            chosen.append(d.ch(rest))
    r0 = attrs_of[chosen[0]]['resid']
    codes = {}
    for b in chosen:
        r = attrs_of[b]['resid']
        if r in codes:
            continue
        delta = r - r0
        if delta == 0:
            code = 0
        else:
            kind = d.ch(['int', 'int', 'int', 'rel', 'rel', 'star', 'far'])
            if kind == 'int' and abs(delta) <= 4:
                code = delta
            elif kind == 'star':
                code = '*'
            elif kind == 'far':
                code = '>>' if delta > 0 else '<<'
            else:
                code = '>' if delta > 0 else '<'
            if code in codes.values():
                code = {'>': '>>', '<': '<<', '*': '**', '>>': '>', '<<': '<', '**': '*'}.get(code, code)
        codes[r] = code
    node_codes = [codes[attrs_of[b]['resid']] for b in chosen]
    if d.pr(8):
        shift = d.ch([1, -1])
        node_codes = [c + shift if isinstance(c, int) else c for c in node_codes]
    if d.pr(12):
        node_codes[d.ri(0, len(chosen) - 1)] = d.ch(ALL_CODES)
    symmetric = (len(chosen) == 2 and attrs_of[chosen[0]]['atomname'] == attrs_of[chosen[1]]['atomname'] and d.pr(75))
    if symmetric:
        node_codes = list(d.ch([[0, '*'], ['*', '**'], [0, '*'], ['>', '*']]))

    link = {'all': [], 'nodes': [], 'edges': [], 'inter': [], 'removed': [], 'non_edges': [],
            'patterns': [], 'molmeta': [], 'features': [], 'style': [d.ri(0, 5) for _ in range(16)]}

    # selection statements
    attr_keys = ['resname', 'cgsecstruc', 'atype', 'chain', 'mark']
    all_keys = []
    if d.pr(30):
        key = d.ch(['resname', 'resname', 'cgsecstruc', 'chain', 'mark'])
        actual = [attrs_of[b].get(key, 'absent') for b in chosen]
        strs = sorted(set(v for v in actual if isinstance(v, str) and v != 'absent'))
        roll = d.ri(0, 99)
        if strs and roll < 60:
            values = list(strs)
            extra = [v for v in POOLS[key] if v not in values]
            if extra and d.pr(40):
                values.append(d.ch(extra))
            if len(values) == 1 and extra:
                values.append(d.ch(extra))
            if len(values) >= 2:
                link['all'].append([key, ['in', values]])
        elif roll < 85:
            link['all'].append([key, ['not', d.ch(POOLS[key])]])
        else:
            link['all'].append([key, gen_spec(d, key, actual[0], mode, True)])
        all_keys = [k for k, _ in link['all']]

    used_keys = set()
    for idx, (b, code) in enumerate(zip(chosen, node_codes)):
        name = attrs_of[b]['atomname']
        key = order_prefix(code) + name
        if key in used_keys:
            key = order_prefix(code) + 'X%d' % idx
        used_keys.add(key)
        if d.pr(8):
            names = [name, _other(d, NAMES, name)]
            if d.pr(50):
                names.reverse()
            specs = [['atomname', ['in', names]]]
        else:
            specs = [['atomname', ['=', name]]]
        candidates = [k for k in attr_keys if k not in all_keys]
        for akey in d.sample(candidates, d.ch([0, 0, 1, 1, 2])):
            specs.append([akey, gen_spec(d, akey, attrs_of[b].get(akey, 'absent'), mode, mode == 'object')])
        if symmetric and idx == 1:
            specs = copy.deepcopy(link['nodes'][0]['attrs'])
        link['nodes'].append({'key': key, 'order': code, 'attrs': specs, 'replace': None})
    keys = [node['key'] for node in link['nodes']]
    key_of = dict(zip(chosen, keys))

    # edges
    target = set()
    for i, a in enumerate(chosen):
        for b in chosen[i + 1:]:
            if b in adj[a]:
                target.add(frozenset((key_of[a], key_of[b])))
    if target and d.pr(12):
        target.discard(d.ch(sorted(target, key=sorted)))
    if len(keys) >= 2 and d.pr(5):
        a, b = d.sample(keys, 2)
        target.add(frozenset((a, b)))

    for _ in range(d.ch([1, 1, 1, 2, 2, 3])):
        inter = gen_interaction(d, keys, target, mode)
        link['inter'].append(inter)
        if d.pr(15):
            twin = copy.deepcopy(inter)
            twin[3]['version'] = inter[3].get('version', 0) + 1
            twin[2] = [gen_static_params(d, inter[0]), d.ch(STATIC_PARAMS)]
            link['inter'].append(twin)
    derived = ref.effective_edges(link)
    link['edges'] = [sorted(e) for e in sorted(target - derived, key=sorted)]
    if link['edges'] and d.pr(30):
        link['edges'] = [list(reversed(e)) for e in link['edges']]

    # removals
    if d.pr(36):
        inside = [i for i in mol['inter'] if all(a in key_of for a in i[1])]
        for _ in range(d.ch([1, 1, 1, 2])):
            if inside and d.pr(65):
                type_, atoms, params, meta = d.ch(inside)
                rmeta = {'version': meta['version']} if 'version' in meta and d.pr(75) else {}
                if 'version' not in meta and d.pr(10):
                    rmeta = {'version': d.ri(1, 2)}
                # parameters of a removal line: none (matches whatever the parameters are), all of them (must be equal),
                # or - these must NOT match - a strict prefix of them / all of them with the last one altered
                how = d.ch(['none'] * 11 + ['all'] * 4 + ['prefix'] * 3 + ['altered'] * 2)
                rparams = []
                if how == 'all':
                    rparams = list(params)
                elif how == 'prefix' and len(params) >= 2:
                    rparams = list(params)[:d.ri(1, len(params) - 1)]
                elif how == 'altered' and params and isinstance(params[-1], str):
                    rparams = list(params)[:-1] + [params[-1] + '1']
                link['removed'].append([type_, [key_of[a] for a in atoms], [[] for _ in atoms], rparams, rmeta])
            elif len(keys) >= 2:
                link['removed'].append(gen_removal(d, link, keys, target, mode))

    if BANG_DIHEDRALS and mode == 'text':
        # demonstration of the known parser defect only (off by default)
        for inter in link['inter']:
            if inter[0] == 'dihedrals' and not any(r[0] == 'dihedrals' for r in link['removed']):
                link['removed'].append(['dihedrals', list(inter[1]), [[] for _ in inter[1]], [], {}])

    # non-edges
    anchors = [node['key'] for node in link['nodes'] if node['order'] == 0 and isinstance(node['order'], int)]
    if anchors and d.pr(25):
        for _ in range(d.ch([1, 1, 2])):
            name = d.ch(NAMES)
            specs = [['atomname', ['=', name]]]
            if d.pr(30):
                key = d.ch([k for k in ('resname', 'cgsecstruc') if k not in all_keys] or ['atype'])
                if key not in all_keys:
                    specs.append([key, ['=', d.ch(POOLS[key])]])
            link['non_edges'].append([d.ch(anchors), d.ch([0, 0, 0, 1, -1]), specs])

    # patterns
    if d.pr(22):
        for _ in range(d.ch([1, 2, 2, 3])):
            pattern = []
            members = d.sample(list(zip(chosen, keys)), d.ri(1, len(keys)))
            for b, key in members:
                pkey = d.ch(['cgsecstruc', 'cgsecstruc', 'resname', 'atype'])
                actual = attrs_of[b].get(pkey, 'absent')
                if d.pr(65):
                    spec = gen_spec(d, pkey, actual, mode, mode == 'object')
                else:
                    spec = ['=', d.ch(POOLS[pkey])]
                specs = [[pkey, spec]] if not d.pr(10) else []
                pattern.append([key, specs])
            link['patterns'].append(pattern)

    # molecule level conditions
    if d.pr(20):
        option = d.ri(0, 3)
        if option == 0:
            link['molmeta'] = [['scfix', ['=', True]]]
        elif option == 1:
            link['molmeta'] = [['scfix', ['not', True]]]
        elif option == 2:
            link['molmeta'] = [['moltype', ['in', ['mol_0', 'mol_1']]]]
        else:
            link['molmeta'] = [['scfix', ['=', True]], ['moltype', ['not', 'mol_2']]]
        if any(k == 'scfix' for k, _ in link['molmeta']):
            link['features'] = ['scfix']
    if not link['features'] and d.pr(8):
        link['features'] = ['feat_x']

    # replacements / deletion
    if d.pr(30):
        gen_replace(d, link)
    if d.pr(10):
        d.ch(link['nodes'])['replace'] = {'atomname': None}
    return link


def gen_removal(d, link, keys, target, mode):
    node_of = {node['key']: node for node in link['nodes']}
    options = ['edge', 'edge', 'edge', 'copy', 'angle']
    kind = d.ch(options)
    type_ = None
    atoms = None
    if kind == 'copy' and link['inter']:
        src = d.ch(link['inter'])
        if mode == 'object' or src[0] != 'dihedrals' or BANG_DIHEDRALS:
            type_, atoms = src[0], list(src[1])
            if d.pr(40) and len(atoms) > 1:
                atoms.reverse()
    if type_ is None and kind == 'angle' and len(keys) >= 3:
        for _ in range(3):
            a, b, c = d.sample(keys, 3)
            if frozenset((a, b)) in target and frozenset((b, c)) in target:
                type_, atoms = 'angles', [a, b, c]
                break
    if type_ is None:
        if target:
            atoms = sorted(d.ch(sorted(target, key=sorted)))
        else:
            atoms = d.sample(keys, 2)
        if d.pr(40):
            atoms.reverse()
        type_ = d.ch(['bonds', 'bonds', 'bonds', 'constraints'])
    if type_ in ('bonds', 'constraints'):
        params = [] if d.pr(70) else list(d.ch(BOND_PARAM_SETS))
    else:
        params = []
    meta = {} if d.pr(60) else {'version': d.ri(1, 2)}
    atom_specs = []
    for key in atoms:
        specs = []
        if mode == 'text':
            own = [s for s in node_of[key]['attrs'] if s[0] != 'atomname' and s[1][0] != 'not']
            if own and d.pr(25):
                specs.append(copy.deepcopy(d.ch(own)))
        elif d.pr(20):
            akey = d.ch(['mark', 'atype', 'cgsecstruc'])
            specs.append([akey, ['=', d.ch(POOLS[akey])] if d.pr(60) else ['not', d.ch(POOLS[akey])]])
        atom_specs.append(specs)
    return [type_, atoms, atom_specs, params, meta]


def derive_link(d, mol, mode, base):
    """A later, more specific link on the same atoms (documentation: define
    links from most general to most specific; later ones override)."""
    attrs_of = dict((k, v) for k, v in mol['nodes'])
    link = copy.deepcopy(base)
    link['style'] = [d.ri(0, 5) for _ in range(16)]
    for inter in link['inter']:
        if d.pr(85):
            inter[2] = [p if not isinstance(p, str) else d.ch(STATIC_PARAMS) for p in inter[2]]
            inter[2][0] = gen_static_params(d, inter[0])
        if d.pr(10):
            inter[3]['version'] = inter[3].get('version', 0) + 1
    if d.pr(50):
        link['removed'] = []
    for node in link['nodes']:
        node['replace'] = None
    all_keys = [k for k, _ in link['all']]
    if d.pr(80):
        node = d.ch(link['nodes'])
        have = set(k for k, _ in node['attrs'])
        candidates = [k for k in ('cgsecstruc', 'resname', 'atype', 'chain') if k not in have and k not in all_keys]
        if candidates:
            key = d.ch(candidates)
            names = [s[1][1] for s in node['attrs'] if s[0] == 'atomname' and s[1][0] == '=']
            pool_atoms = [a for a in attrs_of.values() if not names or a['atomname'] == names[0]]
            if pool_atoms:
                actual = d.ch(pool_atoms).get(key, 'absent')
            else:
                actual = d.ch(POOLS[key])
            node['attrs'].append([key, gen_spec(d, key, actual, mode, mode == 'object')])
    if d.pr(25):
        gen_replace(d, link)
    return link


@st.composite
def _toy_cases(draw):
    d = D(draw)
    mode = d.ch(['text', 'object'])
    mol = gen_molecule(d)
    links = []
    for _ in range(d.ch([1, 2, 2, 3, 3, 4, 5, 6])):
        links.append(gen_link(d, mol, mode, links))
    return {'mode': mode, 'mol': mol, 'links': links}


def _strategy_toy(tier):
    return _toy_cases()


# ---------------------------------------------------------------------------
# building the real objects

def spec_to_object(spec):
    kind, value = spec
    if kind == '=':
        return value
    if kind == 'in':
        return Choice(list(value))
    return NotDefinedOrNot(value)


def build_molecule(mol, force_field):
    molecule = Molecule(force_field=force_field, meta=copy.deepcopy(mol['meta']))
    molecule.nrexcl = 1
    for key, attrs in mol['nodes']:
        attrs = copy.deepcopy(attrs)
        attrs['position'] = np.array(attrs['position'], dtype=float)
        molecule.add_node(key, **attrs)
    for a, b in mol['edges']:
        molecule.add_edge(a, b)
    for type_, atoms, params, meta in mol['inter']:
        molecule.add_interaction(type_, tuple(atoms), list(params), dict(meta))
    return molecule


def build_param(param):
    if isinstance(param, str):
        return param
    kind, keys, fmt = param
    return EFFECTORS[kind][1](list(keys), format_spec=fmt)


def build_link_object(link, force_field):
    out = Link(force_field=force_field)
    common = {k: spec_to_object(s) for k, s in link['all']}
    for node in link['nodes']:
        attrs = dict(common)
        for k, s in node['attrs']:
            attrs[k] = spec_to_object(s)
        attrs['order'] = node['order']
        if node['replace']:
            attrs['replace'] = dict(node['replace'])
        out.add_node(node['key'], **attrs)
    for edge in ref.effective_edges(link):
        a, b = sorted(edge)
        out.add_edge(a, b)
    for type_, keys, params, meta in link['inter']:
        out.interactions.setdefault(type_, []).append(
            Interaction(atoms=list(keys), parameters=[build_param(p) for p in params], meta=dict(meta)))
    for type_, keys, atom_specs, params, meta in link['removed']:
        out.removed_interactions.setdefault(type_, []).append(
            DeleteInteraction(atoms=list(keys),
                              atom_attrs=[{k: spec_to_object(s) for k, s in specs} for specs in atom_specs],
                              parameters=[build_param(p) for p in params], meta=dict(meta)))
    for anchor, order, specs in link['non_edges']:
        attrs = dict(common)
        for k, s in specs:
            attrs[k] = spec_to_object(s)
        attrs['order'] = order
        out.non_edges.append([anchor, attrs])
    for pattern in link['patterns']:
        out.patterns.append([[key, {k: spec_to_object(s) for k, s in specs}] for key, specs in pattern])
    out.molecule_meta = {k: spec_to_object(s) for k, s in link['molmeta']}
    out.features = set(link['features'])
    return out


# ---------------------------------------------------------------------------
# .ff text rendering

class Style:
    def __init__(self, numbers):
        self.numbers = list(numbers) or [0]
        self.pos = 0

    def pick(self, n):
        value = self.numbers[self.pos % len(self.numbers)]
        self.pos += 1
        return value % n

    def flag(self):
        return self.pick(2) == 1


def _inline_value(spec):
    kind, value = spec
    if kind == '=':
        return value
    if kind == 'in':
        return '|'.join(value)
    raise HarnessError('a "not" condition cannot be written inline')


def _header_value(spec, macros):
    kind, value = spec
    if kind == '=':
        return json.dumps(value)
    if kind == 'in':
        text = json.dumps('|'.join(value))
        if macros is not None:
            name = 'values%d' % len(macros)
            macros.append((name, text))
            return '$' + name
        return text
    return 'not(%s)' % json.dumps(value)


def render_links(links):
    macros = []
    body = []
    for link in links:
        body.extend(_render_link(link, macros))
    lines = []
    if macros:
        lines.append('[ macros ]')
        for name, text in macros:
            lines.append('%s %s' % (name, text))
        lines.append('')
    return lines + body


def _render_link(link, macros):
    style = Style(link['style'])
    node_of = {node['key']: node for node in link['nodes']}
    lines = ['[ link ]']
    for key, spec in link['all']:
        lines.append('%s %s' % (key, _header_value(spec, macros if style.flag() else None)))

    def plain_name(node):
        for k, spec in node['attrs']:
            if k == 'atomname' and spec[0] == '=':
                return spec[1]
        return None

    def base_of(node):
        return node['key'][len(order_prefix(node['order'])):]

    referenced = set()
    for _t, keys, _p, _m in link['inter']:
        referenced.update(keys)
    in_atoms = {}
    for node in link['nodes']:
        # where the attributes of the node are written: [ atoms ] or inline
        in_atoms[node['key']] = node['key'] not in referenced or style.flag()
    inline_done = set()

    def reference(key, allow_order_attr=True, extra=None, with_attrs=True):
        """Text for a node reference, with the attributes that have to be
        repeated (atom name when it differs from the key) and, once, the
        attributes that are defined inline."""
        node = node_of[key]
        attrs = {}
        base = base_of(node)
        text = key
        if allow_order_attr and style.pick(4) == 0:
            text = base
            attrs['order'] = node['order']
        if plain_name(node) != base:
            for k, spec in node['attrs']:
                if k == 'atomname':
                    attrs['atomname'] = _inline_value(spec)
        if with_attrs and not in_atoms[key] and key not in inline_done:
            inline_done.add(key)
            for k, spec in node['attrs']:
                if k != 'atomname':
                    attrs[k] = _inline_value(spec)
            if node['replace']:
                attrs['replace'] = node['replace']
        if extra:
            attrs.update(extra)
        if attrs:
            text += ' ' + json.dumps(attrs)
        return text

    if link['features']:
        lines.append('[ features ]')
        lines.append(' '.join(link['features']))
    if link['molmeta']:
        lines.append('[ molmeta ]')
        for key, spec in link['molmeta']:
            lines.append('%s %s' % (key, _header_value(spec, None)))
    atom_lines = []
    for node in link['nodes']:
        if in_atoms[node['key']]:
            attrs = {}
            text = node['key']
            if style.pick(4) == 0:
                text = base_of(node)
                attrs['order'] = node['order']
            for k, spec in node['attrs']:
                if k == 'atomname' and plain_name(node) == base_of(node) and not style.pick(3) == 0:
                    continue
                attrs[k] = _inline_value(spec)
            if node['replace']:
                attrs['replace'] = node['replace']
            atom_lines.append('%s %s' % (text, json.dumps(attrs)))
    if atom_lines:
        lines.append('[ atoms ]')
        lines.extend(atom_lines)

    def param_text(param):
        if isinstance(param, str):
            return param
        kind, keys, fmt = param
        inner = ','.join(keys)
        if fmt is not None:
            inner += '|' + fmt
        return '%s(%s)' % (kind, inner)

    blocks = []
    # added interactions, grouped by type, order kept within a type
    types = []
    for inter in link['inter']:
        if inter[0] not in types:
            types.append(inter[0])
    removed_types = set(r[0] for r in link['removed'])
    for type_ in types:
        entries = [i for i in link['inter'] if i[0] == type_]
        block = ['[ %s ]' % type_]
        common = {}
        if type_ not in removed_types and style.flag():
            first = entries[0][3]
            common = {k: v for k, v in first.items()
                      if all(k in e[3] and e[3][k] == v for e in entries)}
        if common:
            block.append('#meta %s' % json.dumps(common))
        split_at = style.pick(len(entries)) if (len(entries) > 1 and not common) else 0
        for pos, (_t, keys, params, meta) in enumerate(entries):
            if split_at and pos == split_at:
                block.append('[ %s ]' % type_)
            own = {k: v for k, v in meta.items() if k not in common}
            tokens = [reference(k) for k in keys]
            tail = [param_text(p) for p in params]
            if own:
                tail.append(json.dumps(own))
            if (tail and tail[0].startswith('{')) or style.pick(3) == 0:
                tokens.append('--')
            block.append(' '.join(tokens + tail))
        blocks.append(block)
    removed_by_type = []
    for rem in link['removed']:
        if rem[0] not in removed_by_type:
            removed_by_type.append(rem[0])
    for type_ in removed_by_type:
        block = ['[ !%s ]' % type_]
        for _t, keys, atom_specs, params, meta in link['removed']:
            if _t != type_:
                continue
            tokens = []
            for key, specs in zip(keys, atom_specs):
                extra = {k: _inline_value(s) for k, s in specs}
                tokens.append(reference(key, allow_order_attr=REMOVAL_ORDER_ATTR, extra=extra, with_attrs=False))
            tail = [param_text(p) for p in params]
            if meta:
                tail.append(json.dumps(meta))
            if (tail and tail[0].startswith('{')) or style.pick(3) == 0:
                tokens.append('--')
            block.append(' '.join(tokens + tail))
        blocks.append(block)
    if link['edges']:
        block = ['[ edges ]']
        for a, b in link['edges']:
            block.append('%s %s' % (reference(a, with_attrs=False), reference(b, with_attrs=False)))
        blocks.append(block)
    if link['non_edges']:
        block = ['[ non-edges ]']
        for anchor, order, specs in link['non_edges']:
            name = [s[1][1] for s in specs if s[0] == 'atomname'][0]
            extra = {k: _inline_value(s) for k, s in specs if k != 'atomname'}
            partner = order_prefix(order) + name
            if extra:
                partner += ' ' + json.dumps(extra)
            block.append('%s %s' % (reference(anchor, allow_order_attr=False, with_attrs=False), partner))
        blocks.append(block)
    if link['patterns']:
        block = ['[ patterns ]']
        for pattern in link['patterns']:
            tokens = []
            for key, specs in pattern:
                tokens.append(key)
                if specs:
                    tokens.append(json.dumps({k: _inline_value(s) for k, s in specs}))
            block.append(' '.join(tokens))
        blocks.append(block)
    # every node with inline attributes must have had its chance
    rotate = style.pick(len(blocks)) if blocks else 0
    # interaction blocks come first so that inline attributes are written;
    # the remaining blocks may rotate among themselves
    n_inter = len(types) + len(removed_by_type)
    tail_blocks = blocks[n_inter:]
    if tail_blocks:
        rotate %= len(tail_blocks)
        tail_blocks = tail_blocks[rotate:] + tail_blocks[:rotate]
    for block in blocks[:n_inter] + tail_blocks:
        lines.extend(block)
    missing = [k for k in node_of if not in_atoms[k] and k not in inline_done]
    if missing:
        raise HarnessError('attributes of %r were never written' % missing)
    lines.append('')
    return lines


def build_force_field(case):
    force_field = vermouth.forcefield.ForceField(name='toy_c05')
    text = None
    if case['mode'] == 'text':
        text = render_links(case['links'])
        read_ff(text, force_field)
        if len(force_field.links) != len(case['links']):
            raise Violation('text-link-count', 'read_ff produced %d links from %d [ link ] sections'
                            % (len(force_field.links), len(case['links'])), detail='\n'.join(text))
    else:
        for link in case['links']:
            force_field.links.append(build_link_object(link, force_field))
    return force_field, text


# ---------------------------------------------------------------------------
# comparison

def _plain(value):
    if isinstance(value, np.ndarray):
        return [float(x) for x in value]
    if isinstance(value, np.generic):
        return value.item()
    return value


def compare_nodes(molecule, model, detail):
    got = list(molecule.nodes)
    if set(got) != set(model.nodes):
        raise Violation('node-set', 'nodes after DoLinks %r, expected %r' % (sorted(got), sorted(model.nodes)), detail=detail)
    for key in got:
        real = {k: _plain(v) for k, v in molecule.nodes[key].items()}
        expected = model.nodes[key]
        if real != expected:
            diff = {k: (real.get(k, '<absent>'), expected.get(k, '<absent>'))
                    for k in set(real) | set(expected) if real.get(k, '<absent>') != expected.get(k, '<absent>')}
            raise Violation('node-attributes', 'node %r: (got, expected) differ for %r' % (key, diff), detail=detail)


def compare_interactions(molecule, model, justified, initial, detail):
    types = set(t for t, lst in molecule.interactions.items() if lst) | set(t for t, lst in model.inter.items() if lst)
    for type_ in sorted(types):
        if type_ in model.ambiguous_types:
            continue
        got = list(molecule.interactions.get(type_, []))
        expected = list(model.inter.get(type_, []))
        unmatched_got = list(range(len(got)))
        unmatched_exp = []
        for exp in expected:
            for pos in unmatched_got:
                g = got[pos]
                if tuple(g.atoms) == exp['atoms'] and dict(g.meta) == exp['meta'] and ref.params_equal(exp['params'], g.parameters):
                    unmatched_got.remove(pos)
                    break
            else:
                unmatched_exp.append(exp)
        if not unmatched_exp and not unmatched_got:
            continue
        for exp in unmatched_exp:
            for pos in unmatched_got:
                g = got[pos]
                if tuple(g.atoms) == exp['atoms'] and g.meta.get('version', 0) == exp['meta'].get('version', 0):
                    if dict(g.meta) != exp['meta']:
                        raise Violation('interaction-meta', '%s %r: meta %r, expected %r' % (type_, exp['atoms'], dict(g.meta), exp['meta']), detail=detail)
                    raise Violation('interaction-parameters', '%s %r: parameters %r, expected %r'
                                    % (type_, exp['atoms'], list(g.parameters), exp['params']), detail=detail)
        for pos in unmatched_got:
            g = got[pos]
            if (type_, tuple(g.atoms)) not in justified and (type_, tuple(g.atoms)) not in initial:
                raise Violation('unjustified-interaction', '%s on %r %r is produced by no placement of any link'
                                % (type_, tuple(g.atoms), list(g.parameters)), detail=detail)
        if unmatched_exp:
            exp = unmatched_exp[0]
            raise Violation('interaction-missing', '%s %r %r %r expected but absent (present: %r)'
                            % (type_, exp['atoms'], exp['params'], exp['meta'], [(tuple(g.atoms), list(g.parameters), dict(g.meta)) for g in got]),
                            detail=detail)
        g = got[unmatched_got[0]]
        raise Violation('interaction-extra', '%s %r %r %r present but not expected (expected: %r)'
                        % (type_, tuple(g.atoms), list(g.parameters), dict(g.meta),
                           [(e['atoms'], e['params'], e['meta']) for e in expected]), detail=detail)


def compare_placements(case, force_field, detail):
    """match_link on the untouched molecule against the reference enumeration."""
    molecule = build_molecule(case['mol'], force_field)
    model = ref.Model(case['mol'])
    for index, (link_case, link) in enumerate(zip(case['links'], force_field.links)):
        expected, _single = ref.enumerate_placements(model, link_case)
        if not ref.attrs_match(model.meta, [tuple(x) for x in link_case['molmeta']]):
            expected = []
        got = [dict(m) for m in do_links.match_link(molecule, link)]
        exp_set = set(tuple(sorted(p.items())) for p in expected)
        got_set = set(tuple(sorted(p.items())) for p in got)
        if len(got_set) != len(got):
            raise Violation('match-duplicate', 'link %d: match_link yields a placement twice' % index, detail=detail)
        for extra in sorted(got_set - exp_set):
            why = sorted(ref.violated_conditions(model, link_case, dict(extra)))
            raise Violation('match-extra:%s' % '+'.join(why), 'link %d matched at %r although %s is violated'
                            % (index, dict(extra), why), detail=detail)
        for missing in sorted(exp_set - got_set):
            raise Violation('match-missing', 'link %d fits at %r but match_link does not report it' % (index, dict(missing)), detail=detail)


def _stretched(molecule):
    """The same molecule (same node keys) in another conformation: nothing computed from these positions may show up in the
    molecule that is judged afterwards."""
    for idx, key in enumerate(molecule.nodes):
        pos = molecule.nodes[key].get('position')
        if pos is not None:
            molecule.nodes[key]['position'] = np.array(pos, dtype=float) * 1.37 + np.array([0.3 * idx, -0.2 * (idx % 3), 0.11 * idx])
    return molecule


def _served_before(processor, build):
    """A molecule object that has been through the processor once, in another conformation, and was then put back into
    its initial state (same object, same node keys): what the processor computes for it now must come from its present
    coordinates and content, nothing may be remembered per object or per node key."""
    molecule = _stretched(build())
    try:
        processor.run_molecule(molecule)
    except Exception:  # pylint: disable=broad-except
        pass    # the same input is judged by the caller
    fresh = build()
    molecule.__dict__.clear()
    molecule.__dict__.update(fresh.__dict__)
    for cached_view in ('nodes', 'edges', 'adj', 'degree'):
        molecule.__dict__.pop(cached_view, None)
    return molecule


def _run_toy(case):
    force_field, text = build_force_field(case)
    detail = None
    if text is not None:
        detail = '\n'.join(text)
    compare_placements(case, force_field, detail)
    molecule = build_molecule(case['mol'], force_field)
    processor = do_links.DoLinks()
    used_before = len(case['mol']['nodes']) % 2 == 0
    if used_before:
        # the processor object and the force field (its links) have served a molecule before: the same one, built again
        molecule = _served_before(processor, lambda: build_molecule(case['mol'], force_field))
    result = processor.run_molecule(molecule)
    model, reports = ref.apply_links(case['mol'], case['links'])
    justified = set()
    for report in reports:
        justified |= report['justified']
    initial = set((t, tuple(a)) for t, a, _p, _m in case['mol']['inter'])
    if any(r['replace_conflict'] for r in reports):
        raise HarnessError('generator produced conflicting replacements')
    compare_nodes(result, model, detail)
    compare_interactions(result, model, justified, initial, detail)

    classes = ['mode:' + case['mode']]
    multi = any(len(r['placements']) >= 2 for r in reports)
    decided = set()
    for r in reports:
        decided.update(r['single'])
        if not r['molmeta'] and r['would_place']:
            decided.add('molmeta')
    if multi:
        classes.append('multi-placement')
    classes.extend('decided:' + c for c in sorted(decided))
    if any(r['placements'] for r in reports):
        classes.append('some-placement')
    for name in ('removed_hits', 'overrides', 'self_replaced', 'replace_applied'):
        if any(r[name] for r in reports):
            classes.append(name.replace('_', '-'))
    if any(r['deleted'] for r in reports):
        classes.append('node-deleted')
    if any(rem[3] for link in case['links'] for rem in link['removed']):
        classes.append('removal-with-parameters')
    if model.ambiguous_types:
        classes.append('ambiguous')
    symmetric = False
    for r in reports:
        seen = {}
        for p in r['placements']:
            seen[frozenset(p.values())] = seen.get(frozenset(p.values()), 0) + 1
        if any(v > 1 for v in seen.values()):
            symmetric = True
    if symmetric:
        classes.append('symmetric-placements')
    if any(not isinstance(p, str) for link in case['links'] for i in link['inter'] for p in i[2]) and any(r['placements'] for r in reports):
        classes.append('effector')
    if any(len(lst) != len(set((i['atoms']) for i in lst)) for lst in model.inter.values()):
        classes.append('versions-coexist')
    return Outcome(classes, multi and bool(decided))


# ---------------------------------------------------------------------------
# part: order-table

TABLE_CODES = ['>', '>>', '<', '<<', '*', '**', 0, 1, -1, 2, -2, 3]


def _enumerate_table(tier, shard, nshards):
    idx = 0
    for o1 in TABLE_CODES:
        for o2 in TABLE_CODES:
            idx += 1
            if idx % nshards == shard:
                yield {'order1': o1, 'order2': o2}


def _run_table(case):
    o1, o2 = case['order1'], case['order2']
    for r1 in range(1, 7):
        for r2 in range(1, 7):
            expected = ref.order_relation(o1, r1, o2, r2)
            if expected != ref.order_relation(o2, r2, o1, r1):
                raise HarnessError('documented table is not symmetric for %r %r' % (o1, o2))
            got = do_links.match_order(o1, r1, o2, r2)
            if bool(got) != expected:
                raise Violation('order-table', 'match_order(%r, %d, %r, %d) = %r, documented matrix cell %r gives %r'
                                % (o1, r1, o2, r2, got, ref.order_cell(o1, o2), expected))
    cell = ref.order_cell(o1, o2)
    return Outcome(['cell:' + cell], cell != '!')


# ---------------------------------------------------------------------------
# part: shipped (B)

SHIPPED = {}
SHIPPED_NAMES = ['martini3001', 'martini22']
SHIPPED_RESNAMES = ['GLY', 'ALA', 'CYS', 'VAL', 'LEU', 'ILE', 'MET', 'PRO', 'ASN', 'GLN', 'ASP', 'GLU',
                    'THR', 'SER', 'LYS', 'ARG', 'PHE', 'TYR', 'TRP']
SHIPPED_SS = ['H', 'H', 'C', 'C', 'E', 'S', 'T', '1', '2', '3', 'F']


def _value_to_spec(value):
    if isinstance(value, Choice):
        return ['in', list(value.value)]
    if isinstance(value, NotDefinedOrNot):
        return ['not', value.value]
    if isinstance(value, LinkPredicate):
        raise ValueError('unknown predicate')
    return ['=', value]


def _param_to_case(param):
    if isinstance(param, LinkParameterEffector):
        for name, (_n, cls) in EFFECTORS.items():
            if type(param) is cls:
                return [name, list(param.keys), param.format]
        raise ValueError('unknown effector')
    if not isinstance(param, str):
        raise ValueError('parameter is not text')
    return param


def translate_link(link):
    """Structural translation of a parsed Link object into the reference's
    link description (reads the data fields only).  Raises ValueError for
    links using something the reference does not interpret."""
    out = {'all': [], 'nodes': [], 'edges': [], 'inter': [], 'removed': [], 'non_edges': [],
           'patterns': [], 'molmeta': [], 'features': sorted(link.features)}
    for key, attrs in link.nodes(data=True):
        if 'modifications' in attrs or 'order' not in attrs:
            raise ValueError('modifications / missing order')
        ref.order_category(attrs['order'])
        specs = [[k, _value_to_spec(v)] for k, v in attrs.items() if k not in ('order', 'replace')]
        out['nodes'].append({'key': key, 'order': attrs['order'], 'attrs': specs,
                             'replace': dict(attrs['replace']) if attrs.get('replace') else None})
    out['edges'] = [[a, b] for a, b in link.edges]
    for type_, interactions in link.interactions.items():
        for inter in interactions:
            out['inter'].append([type_, list(inter.atoms), [_param_to_case(p) for p in inter.parameters], dict(inter.meta)])
    for type_, interactions in link.removed_interactions.items():
        for inter in interactions:
            atom_specs = [[[k, _value_to_spec(v)] for k, v in attrs.items()] for attrs in inter.atom_attrs]
            out['removed'].append([type_, list(inter.atoms), atom_specs,
                                   [_param_to_case(p) for p in inter.parameters], dict(inter.meta)])
    for anchor, attrs in link.non_edges:
        order = attrs.get('order', 0)
        if not isinstance(order, int) or isinstance(order, bool) or 'modifications' in attrs:
            raise ValueError('non-edge order')
        if anchor not in link.nodes or link.nodes[anchor].get('order') != 0:
            raise ValueError('non-edge anchor outside the reference residue')
        out['non_edges'].append([anchor, order, [[k, _value_to_spec(v)] for k, v in attrs.items()
                                                if k not in ('order', 'replace')]])
    for pattern in link.patterns:
        entries = []
        for key, attrs in pattern:
            if 'modifications' in attrs or key not in link.nodes:
                raise ValueError('pattern')
            entries.append([key, [[k, _value_to_spec(v)] for k, v in attrs.items() if k not in ('order', 'replace')]])
        out['patterns'].append(entries)
    out['molmeta'] = [[k, _value_to_spec(v)] for k, v in link.molecule_meta.items()]
    return out


def preload():
    for name in SHIPPED_NAMES:
        if name in SHIPPED:
            continue
        full = vermouth.forcefield.ForceField(str(vermouth.DATA_PATH / 'force_fields' / name))
        light = vermouth.forcefield.ForceField(name=name)
        light.blocks = full.blocks
        cases = []
        skipped = 0
        for link in full.links:
            try:
                cases.append(translate_link(link))
            except ValueError:
                skipped += 1
                continue
            light.links.append(link)
        SHIPPED[name] = {'ff': light, 'links': cases, 'skipped': skipped}


@st.composite
def _shipped_cases(draw):
    d = D(draw)
    nres = d.ri(3, 8)
    residues = []
    resid = d.ri(1, 30)
    chain = 'A'
    ss = d.ch(SHIPPED_SS)
    for r in range(nres):
        if r > 0:
            if chain == 'A' and r >= 3 and d.pr(10):
                chain = 'B'
                resid = d.ri(1, 30)
            else:
                resid += d.ch([1, 1, 1, 1, 1, 1, 1, 1, 2, 5, 0, -2])
            if d.pr(35):
                ss = d.ch(SHIPPED_SS)
        residues.append({'resname': d.ch(SHIPPED_RESNAMES), 'resid': resid, 'chain': chain,
                         'ss': ss if d.pr(95) else None, 'idr': d.ch([None, None, None, True, False]),
                         'bonded': (r > 0 and d.pr(90))})
    extra = []
    for _ in range(d.ch([0, 0, 0, 1, 1, 2])):
        r1, r2 = d.sample(range(nres), 2)
        extra.append([r1, d.ch([0, 1, 1]), r2, d.ch([0, 1, 1])])
    positions = [d.ri(0, 63) / 8.0 for _ in range(3 * 5 * nres)]
    meta = {}
    if d.pr(60):
        meta['scfix'] = d.ch([True, True, False])
    return {'ff': d.ch(SHIPPED_NAMES), 'residues': residues, 'extra': extra, 'positions': positions, 'meta': meta}


def _strategy_shipped(tier):
    return _shipped_cases()


def shipped_molecule(case):
    blocks = SHIPPED[case['ff']]['ff'].blocks
    nodes = []
    edges = []
    inter = []
    beads = []
    nid = 0
    pos = case['positions']
    for res in case['residues']:
        block = blocks[res['resname']]
        names = {}
        for name, attrs in block.nodes(data=True):
            new = {k: v for k, v in attrs.items()}
            new['resid'] = res['resid']
            new['chain'] = res['chain']
            if res['ss'] is not None:
                new['cgsecstruct'] = res['ss']
            if res['idr'] is not None:
                new['cgidr'] = res['idr']
            new['position'] = [pos[(3 * nid) % len(pos)], pos[(3 * nid + 1) % len(pos)], pos[(3 * nid + 2) % len(pos)]]
            names[name] = nid
            nodes.append([nid, new])
            nid += 1
        for a, b in block.edges:
            edges.append([names[a], names[b]])
        for type_, interactions in block.interactions.items():
            for i in interactions:
                inter.append([type_, [names[a] for a in i.atoms], list(i.parameters), dict(i.meta)])
        beads.append([names[n] for n in block.nodes])
    present = set(frozenset(e) for e in edges)
    for r, res in enumerate(case['residues']):
        if res['bonded']:
            edge = [beads[r - 1][0], beads[r][0]]
            if frozenset(edge) not in present:
                present.add(frozenset(edge))
                edges.append(edge)
    for r1, b1, r2, b2 in case['extra']:
        a = beads[r1][min(b1, len(beads[r1]) - 1)]
        b = beads[r2][min(b2, len(beads[r2]) - 1)]
        if a != b and frozenset((a, b)) not in present:
            present.add(frozenset((a, b)))
            edges.append([a, b])
    return {'meta': dict(case['meta']), 'nodes': nodes, 'edges': edges, 'inter': inter}


def _run_shipped(case):
    data = SHIPPED[case['ff']]
    mol = shipped_molecule(case)
    for _type, _atoms, params, _meta in mol['inter']:
        if not all(isinstance(p, str) for p in params):
            raise HarnessError('block interaction with a non-text parameter')
    molecule = build_molecule(mol, data['ff'])
    processor = do_links.DoLinks()
    if len(mol['nodes']) % 2 == 0:
        molecule = _served_before(processor, lambda: build_molecule(mol, data['ff']))
    result = processor.run_molecule(molecule)
    model = ref.Model(mol)
    reports = []
    for index, link in enumerate(data['links']):
        reports.append(ref.apply_link(model, link, index, budget=0))
    justified = set()
    for report in reports:
        justified |= report['justified']
    initial = set((t, tuple(a)) for t, a, _p, _m in mol['inter'])
    compare_nodes(result, model, None)
    compare_interactions(result, model, justified, initial, None)
    placed = sum(len(r['placements']) for r in reports)
    links_placed = sum(1 for r in reports if r['placements'])
    classes = ['ff:' + case['ff']]
    for name in ('removed_hits', 'overrides', 'replace_applied'):
        if any(r[name] for r in reports):
            classes.append(name.replace('_', '-'))
    if model.ambiguous_types:
        classes.append('ambiguous')
    if any(not r['molmeta'] for r in reports):
        classes.append('molmeta-blocked')
    if any(isinstance(p, ref.Computed) for lst in model.inter.values() for i in lst for p in i['params']):
        classes.append('effector')
    return Outcome(classes, placed >= 10 and links_placed >= 3)


def _match_bang_dihedrals(params, part_name, case, violation):
    # [ !dihedrals ] in a link is parsed as an interaction type "!dihedrals" instead of a removal
    return (part_name == 'toy' and case['mode'] == 'text'
            and any(r[0] == 'dihedrals' for link in case['links'] for r in link['removed']))


def _match_removal_order_attr(params, part_name, case, violation):
    # a removal line that gives the order as attribute ({"order": 1}) instead of a prefix never removes
    return (REMOVAL_ORDER_ATTR and part_name == 'toy' and case['mode'] == 'text'
            and violation.bucket in ('interaction-extra', 'interaction-missing')
            and any(link['removed'] for link in case['links']))


MATCHERS = {
    'bang_dihedrals': _match_bang_dihedrals,
    'removal_order_attr': _match_removal_order_attr,
}

# ---------------------------------------------------------------------------
# part: attribute chains (fixed cases)

def _chain_case(key, value, mode):
    """A later link matches on a value that only exists because an earlier link wrote it (on every atom of the residue)."""
    nodes = [
        [0, {"atomname": "BB", "resname": "HIS", "resid": 1, "chain": "A", "atype": "P1", "charge": 0.0, "position": [0.0, 0.0, 0.0], "cgsecstruc": "C"}],
        [1, {"atomname": "SC1", "resname": "HIS", "resid": 1, "chain": "A", "atype": "C2", "charge": 0.0, "position": [0.3, 0.1, 0.0], "cgsecstruc": "C"}],
        [2, {"atomname": "BB", "resname": "ALA", "resid": 2, "chain": "A", "atype": "P1", "charge": 0.0, "position": [0.4, 0.4, 0.1], "cgsecstruc": "C"}],
        [3, {"atomname": "BB", "resname": "HIS", "resid": 3, "chain": "A", "atype": "P1", "charge": 0.0, "position": [0.8, 0.5, 0.2], "cgsecstruc": "H"}],
        [4, {"atomname": "SC1", "resname": "HIS", "resid": 3, "chain": "A", "atype": "C2", "charge": 0.0, "position": [1.0, 0.8, 0.2], "cgsecstruc": "H"}]]
    first = {"all": [], "nodes": [
        {"key": "BB", "order": 0, "attrs": [["atomname", ["=", "BB"]], ["cgsecstruc", ["=", "H"]]], "replace": {key: value}},
        {"key": "SC1", "order": 0, "attrs": [["atomname", ["=", "SC1"]]], "replace": {key: value}}],
        "edges": [["BB", "SC1"]], "inter": [], "removed": [], "non_edges": [], "patterns": [], "molmeta": [], "features": [],
        "style": [0] * 16}
    second = {"all": [], "nodes": [
        {"key": "BB", "order": 0, "attrs": [["atomname", ["=", "BB"]], [key, ["=", value]]], "replace": None},
        {"key": "SC1", "order": 0, "attrs": [["atomname", ["=", "SC1"]]], "replace": None}],
        "edges": [["BB", "SC1"]], "inter": [["bonds", ["BB", "SC1"], ["1", "0.33", "5000"], {}]], "removed": [], "non_edges": [],
        "patterns": [], "molmeta": [], "features": [], "style": [0] * 16}
    return {"mode": mode, "mol": {"meta": {"moltype": "mol_0"}, "nodes": nodes, "edges": [[0, 1], [0, 2], [2, 3], [3, 4]], "inter": []},
            "links": [first, second], "chain_key": key}


def _enum_chains(tier, shard, nshards):
    cases = [_chain_case(key, value, mode) for key, value in (('resname', 'HIP'), ('atype', 'SQ9'), ('mark', 7))
             for mode in ('object', 'text')]
    for idx, case in enumerate(cases):
        if idx % nshards == shard:
            yield case


def _run_chain(case):
    out = _run_toy({k: v for k, v in case.items() if k != 'chain_key'})
    if 'some-placement' not in out.classes:
        raise HarnessError('attribute-chain case without a placement')
    return Outcome(list(out.classes) + ['chain:' + case['chain_key']], True)


PARTS = [
    Part('toy', _run_toy, strategy=_strategy_toy,
         examples={'quick': 1400, 'thorough': 30000},
         floors={'mode:text': 0.3, 'mode:object': 0.3, 'multi-placement': 0.3, 'decided:attr': 0.5,
                 'decided:edge-missing': 0.15, 'decided:edge-extra': 0.03, 'decided:order': 0.15,
                 'decided:non-edge': 0.03, 'decided:pattern': 0.03, 'decided:molmeta': 0.04,
                 'removed-hits': 0.04, 'overrides': 0.08, 'node-deleted': 0.04, 'replace-applied': 0.1,
                 'symmetric-placements': 0.015, 'effector': 0.2, 'self-replaced': 0.02}),
    Part('order-table', _run_table, enumerate=_enumerate_table),
    Part('attribute-chains', _run_chain, enumerate=_enum_chains),
    Part('shipped', _run_shipped, strategy=_strategy_shipped,
         examples={'quick': 320, 'thorough': 6000},
         floors={'removed-hits': 0.2, 'overrides': 0.15, 'effector': 0.05}),
]
