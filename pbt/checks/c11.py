"""
C11  The topology depends on the chemistry of the input, not on its presentation.

Metamorphic testing of the whole pipeline: a fragment cut from one of the test
structures is run twice through the real `entry()` of bin/martinize2 (in
long-lived server subprocesses, see pbt/c11_server.py) - once as is under
PYTHONHASHSEED=0, once after a presentation change (atoms permuted within
their residues, hydrogens renamed, exact rigid motion, other hash seed) - and
the written topology (.top, .itp) and coordinates (.pdb) are compared.
"""
import atexit
import json
import math
import os
import subprocess
import sys

from hypothesis import strategies as st

from pbt.core import Part, Outcome, Violation, HarnessError, ROOT, REPO
from pbt import c02_ref_itp

PROPERTY = 'C11'
LEVEL = 'exploration'
RULE = ('a contiguous fragment (4-24 residues quick / 4-40 thorough, optionally crossing a chain boundary, or split into two chains with generated identifiers by leaving one residue out) of one of 12 test structures (one case in five around a histidine that carries both ring hydrogens; one case in three around one of the disulfide bridges of the structures (within a chain, or between two chains that a TER record separates), the S-S bond stated by CONECT records in both files, three times in four with -cys none so that only the records put it into the topology) '
        '(with and without hydrogens, with disulfides, two chains) x a presentation change (within-residue atom permutation, '
        'hydrogen renaming by scheme or unique random names, in CONECT cases three times in four every atom keeps the serial number of the file as is so that serial numbers do not follow the order of the file, otherwise atoms are renumbered and the records name the new numbers, synthetic alternate-location records, one of 24 exact rotations + grid translation up to 20 A, one case in three up to 400 A, one in four such that a heavy atom lands on the origin exactly, PYTHONHASHSEED in '
        '{0,1,4242}) x pipeline options (-ff martini3001/martini22/elnedyn22, -elastic with bounds, -p backbone, -ss, -dssp, -cys, '
        '-nt, -noscfix, -merge all / -merge <chains>); both runs go through the real entry() and the written files are compared; non-trivial = the change moved '
        'at least one heavy atom in the file or renamed a hydrogen, and the fragment contains a residue with a symmetric side '
        'chain or a disulfide; distinct by hash of (fragment, transform, options)')
ASSUMPTIONS = [
    'rigid motions are exact at the text level (signed coordinate permutations + translations on the 0.001 A grid), so both inputs describe the same geometry to float round-off',
    'an elastic bond may differ between the runs only if its length is within 1e-6 relative of the upper bound',
    'numeric ITP parameters are compared with relative tolerance 1e-6 (elastic lengths +-1.1e-5 nm); CG coordinates with 0.0015 A',
    'the loaders of force fields and mappings are memoised per server process (loaded once under that process hash seed)',
    'atom serial numbers are presentation: a file whose atoms keep their serial numbers while their order changes, with CONECT records naming those numbers, states the same bonds (PDB format: CONECT refers to atom serial numbers); CONECT cases are not split into two chains',
    'polarizable force fields (random charge-dummy placement) are not generated',
    'a presentation on which the pipeline does not answer within 60 times the duration of the other run (and at least 300 s) counts as "no topology for that presentation"; this is the only use of time in the oracle',
]

DATA = os.path.join(REPO, 'vermouth', 'tests', 'data')
SOURCES = [
    'integration_tests/tier-0/mini-protein1_betasheet/aa.pdb',
    'integration_tests/tier-0/mini-protein2_helix/aa.pdb',
    'integration_tests/tier-0/mini-protein3_trp-cage/aa.pdb',
    'integration_tests/tier-1/bpti/aa.pdb',
    'integration_tests/tier-1/lysozyme/aa.pdb',
    'integration_tests/tier-1/3i40/3i40.pdb',
    'integration_tests/tier-1/villin/aa.pdb',
    'integration_tests/tier-1/1UBQ/aa.pdb',
    'integration_tests/tier-1/hst5/aa.pdb',
    '1bta.pdb',
    'integration_tests/tier-1/6LFO_gap/6LFO_gap.pdb',
    'integration_tests/tier-1/prot_modf_charmm/input.pdb',
]
STANDARD = {'ALA', 'ARG', 'ASN', 'ASP', 'CYS', 'GLN', 'GLU', 'GLY', 'HIS', 'ILE', 'LEU', 'LYS', 'MET', 'PHE', 'PRO',
            'SER', 'THR', 'TRP', 'TYR', 'VAL', 'HSD', 'HSE', 'HSP'}
SYMMETRIC = {'PHE', 'TYR', 'ARG', 'ASP', 'GLU', 'LEU', 'VAL'}

# the 24 proper rotations as signed permutations: new[i] = sign[i] * old[perm[i]]
ROTATIONS = []
for _perm in ((0, 1, 2), (0, 2, 1), (1, 0, 2), (1, 2, 0), (2, 0, 1), (2, 1, 0)):
    for _sx in (1, -1):
        for _sy in (1, -1):
            for _sz in (1, -1):
                # determinant = parity(perm) * sx*sy*sz must be +1
                inv = sum(1 for i in range(3) for j in range(i + 1, 3) if _perm[i] > _perm[j])
                if (-1) ** inv * _sx * _sy * _sz == 1:
                    ROTATIONS.append((_perm, (_sx, _sy, _sz)))
assert len(ROTATIONS) == 24

_CORPUS = None
_FOCUS = []
_BRIDGES = []
_SERVERS = {}


def preload():
    global _CORPUS
    if _CORPUS is not None:
        return
    corpus = []
    for rel in SOURCES:
        path = os.path.join(DATA, rel)
        residues = []   # list of (key, [atom lines])
        last = None
        model_done = False
        with open(path) as fh:
            for line in fh:
                rec = line[:6]
                if rec.startswith('ENDMDL'):
                    break
                if rec not in ('ATOM  ', 'HETATM'):
                    continue
                if line[16] not in (' ', 'A'):
                    continue
                if line[17:20] not in STANDARD:
                    continue   # waters, ions, ligands: the fragments are protein only
                key = (line[21], line[22:27], line[17:20])
                if key != last:
                    residues.append((key, []))
                    last = key
                residues[-1][1].append(line.rstrip('\n').ljust(80))
        corpus.append({'name': rel, 'residues': residues})
    # residues whose treatment could hinge on what their hydrogens are called: a histidine that carries both ring hydrogens
    for sidx, src in enumerate(corpus):
        for ridx, (key, lines) in enumerate(src['residues']):
            names = {line[12:16].strip() for line in lines}
            if key[2] in ('HIS', 'HSP', 'HSD', 'HSE') and {'HD1', 'HE2'} <= names:
                _FOCUS.append((sidx, ridx))
    # pairs of cysteines (of one chain or of two chains that follow each other in the file), at most 22 residues apart, whose sulphur atoms are within 2.5 Angstrom: the bond
    # between them can be stated in the file by a CONECT record
    for sidx, src in enumerate(corpus):
        sulphurs = []
        for ridx, (key, lines) in enumerate(src['residues']):
            for line in lines:
                if key[2] == 'CYS' and line[12:16].strip() == 'SG':
                    sulphurs.append((ridx, key[0], (float(line[30:38]), float(line[38:46]), float(line[46:54]))))
        for pos, (r1, c1, x1) in enumerate(sulphurs):
            for r2, c2, x2 in sulphurs[pos + 1:]:
                if r2 - r1 <= 22 and sum((a - b) ** 2 for a, b in zip(x1, x2)) < 2.5 ** 2:
                    _BRIDGES.append((sidx, r1, r2))
    _CORPUS = corpus


# ---------------------------------------------------------------------------
# building inputs

def fragment(case):
    src = _CORPUS[case['source'] % len(_CORPUS)]
    nres = len(src['residues'])
    length = min(case['length'], nres)
    start = case['start'] % (nres - length + 1)
    if case.get('focus') is not None and _FOCUS:
        # a fragment around one of the residues of special interest
        sidx, ridx = _FOCUS[case['focus'] % len(_FOCUS)]
        src = _CORPUS[sidx]
        nres = len(src['residues'])
        length = min(case['length'], nres)
        start = max(0, min(nres - length, ridx - case['start'] % length))
    if case.get('conect') is not None and _BRIDGES:
        # a fragment that contains both cysteines of a disulfide bridge
        sidx, r1, r2 = _BRIDGES[case['conect']['pair'] % len(_BRIDGES)]
        src = _CORPUS[sidx]
        nres = len(src['residues'])
        length = min(nres, max(case['length'], r2 - r1 + 1))
        start = max(0, min(nres - length, r1 - case['start'] % (length - (r2 - r1))))
    residues = src['residues'][start:start + length]
    split = case.get('split') if case.get('conect') is None else None
    if split is not None and length >= 5 and len(set(key[0] for key, _ in residues)) == 1:
        # two molecules out of one: a residue is left out and the two pieces get chain identifiers of their own
        cut = 1 + split['at'] % (length - 3)
        first, second = split['chains']
        relabelled = []
        for ridx, (key, lines) in enumerate(residues):
            if ridx == cut:
                continue
            chain = first if ridx < cut else second
            relabelled.append(((chain,) + tuple(key[1:]), [line[:21] + chain + line[22:] for line in lines]))
        residues = relabelled
    picks = case.get('altloc') or []
    if picks:
        # give some atoms an alternate location B (conformer A keeps the coordinates): both presentations contain both
        # records, the within-residue permutation decides which one comes first in the file
        residues = [(key, list(lines)) for key, lines in residues]
        for ridx, aidx in picks:
            key, lines = residues[ridx % len(residues)]
            i = aidx % len(lines)
            line = lines[i]
            if line[16] != ' ':
                continue
            x = float(line[30:38]) + 1.5
            lines[i] = line[:16] + 'A' + line[17:]
            lines.insert(i + 1, line[:16] + 'B' + line[17:30] + '%8.3f' % x + line[38:])
    return src, residues


def is_h(line):
    elem = line[76:78].strip().upper()
    if elem:
        return elem == 'H'
    name = line[12:16].strip()
    return name.lstrip('0123456789').startswith('H')


def bridge_records(residues):
    """The sulphur atoms of the cysteines, as (residue index, line index), paired up: each with the nearest one left."""
    sulphurs = []
    for ridx, (key, lines) in enumerate(residues):
        for i, line in enumerate(lines):
            if key[2] == 'CYS' and line[12:16].strip() == 'SG' and line[16] in (' ', 'A'):
                sulphurs.append(((ridx, i), (float(line[30:38]), float(line[38:46]), float(line[46:54]))))
    pairs = []
    while len(sulphurs) >= 2:
        first, xyz = sulphurs.pop(0)
        best = min(range(len(sulphurs)), key=lambda k: (sum((a - b) ** 2 for a, b in zip(xyz, sulphurs[k][1])), k))
        other, xyz2 = sulphurs.pop(best)
        if sum((a - b) ** 2 for a, b in zip(xyz, xyz2)) < 2.5 ** 2:
            pairs.append((first, other))
    return pairs


def render(residues, transform, conect=()):
    """PDB text of the fragment under a presentation transform (None = as is).  `conect`: pairs of atoms, each given as
    (residue index, line index), whose bond is stated by CONECT records.  With transform['keep_serial'] every atom carries
    the serial number it has in the file as is, wherever the permutation puts it (the CONECT records are then the same
    text); otherwise the atoms are numbered in the order of the file and the CONECT records name the new numbers."""
    out = []
    serial = 1
    given = {}
    fixed = {}
    if transform and transform.get('keep_serial'):
        count = 1
        for ridx, (key, lines) in enumerate(residues):
            for i in range(len(lines)):
                fixed[(ridx, i)] = count
                count += 1
    prev_chain = None
    moved = renamed = 0
    for ridx, (key, lines) in enumerate(residues):
        if prev_chain is not None and key[0] != prev_chain:
            out.append('TER')
        prev_chain = key[0]
        order = list(range(len(lines)))
        if transform and transform['permute']:
            keys = transform['perm_keys']
            order.sort(key=lambda i: (keys[(ridx * 7 + i) % len(keys)], i))
        hcount = 0
        for pos, i in enumerate(order):
            line = lines[i]
            if transform:
                if pos != i and not is_h(line):
                    moved += 1
                if transform['rename_h'] and is_h(line):
                    hcount += 1
                    if transform['rename_h'] == 'unique':
                        new = 'H%d' % (hcount + 40)
                    else:
                        old = line[12:16].strip()
                        # alternative scheme: digits moved to the other end (1HB <-> HB1), as old PDB files do
                        if old[0].isdigit():
                            new = old[1:] + old[0]
                        elif old[-1].isdigit() and len(old) > 1:
                            new = old[-1] + old[:-1]
                        else:
                            new = old
                    if new != line[12:16].strip():
                        renamed += 1
                    field = new.ljust(4) if len(new) == 4 or new[0].isdigit() else (' ' + new).ljust(4)
                    line = line[:12] + field[:4] + line[16:]
                    if not line[76:78].strip():
                        line = line[:76] + ' H' + line[78:]
                x, y, z = float(line[30:38]), float(line[38:46]), float(line[46:54])
                perm, sign = ROTATIONS[transform['rot']]
                old = (x, y, z)
                new_xyz = [sign[k] * old[perm[k]] + transform['shift'][k] / 1000.0 for k in range(3)]
                line = line[:30] + ''.join('%8.3f' % v for v in new_xyz) + line[54:]
            given[(ridx, i)] = fixed.get((ridx, i), serial) % 100000
            line = line[:6] + '%5d' % given[(ridx, i)] + line[11:]
            serial += 1
            out.append(line)
    out.append('TER')
    for first, other in conect:
        out.append('CONECT%5d%5d' % (given[first], given[other]))
        out.append('CONECT%5d%5d' % (given[other], given[first]))
    out.append('END')
    return '\n'.join(out) + '\n', moved, renamed


def cli_args(opt):
    args = ['-ff', opt['ff']]
    if opt['elastic'] or opt['ff'].startswith('elnedyn'):
        args += ['-elastic', '-el', str(opt['el']), '-eu', str(opt['eu']), '-ef', str(opt['ef'])]
        if opt['eunit'] != 'molecule':
            args += ['-eunit', opt['eunit']]
    if opt['posres']:
        args += ['-p', 'backbone']
    if opt['ss'] == 'dssp':
        args += ['-dssp']
    elif opt['ss'] is not None:
        args += ['-ss', opt['ss']]
    if opt['cys'] != 'auto':
        args += ['-cys', opt['cys']]
    if opt['nt']:
        args += ['-nt']
    if opt['noscfix']:
        args += ['-noscfix']
    if opt['resid_input']:
        args += ['-resid', 'input']
    if opt.get('merge'):
        args += ['-merge', opt['merge']]
    return args


# ---------------------------------------------------------------------------
# servers

def server(hashseed):
    srv = _SERVERS.get(hashseed)
    if srv is not None and srv.poll() is None:
        return srv
    env = dict(os.environ)
    env['PYTHONHASHSEED'] = str(hashseed)
    env['VERIF_REPO'] = REPO
    env['PYTHONPATH'] = REPO
    env['OMP_NUM_THREADS'] = '1'
    srv = subprocess.Popen([sys.executable, os.path.join(ROOT, 'pbt', 'c11_server.py')], stdin=subprocess.PIPE,
                           stdout=subprocess.PIPE, stderr=subprocess.DEVNULL, env=env, text=True, bufsize=1)
    ready = srv.stdout.readline()
    if not ready or not json.loads(ready).get('ready'):
        raise HarnessError('pipeline server did not start: %r' % ready)
    _SERVERS[hashseed] = srv
    return srv


def _shutdown():
    for srv in _SERVERS.values():
        try:
            srv.stdin.close()
            srv.terminate()
        except Exception:  # pylint: disable=broad-except
            pass


atexit.register(_shutdown)


TIMEOUT_FLOOR = 300.0     # seconds; a pipeline run on these fragments takes 0.3-3 s on an idle core


def pipeline(hashseed, pdb_text, args, timeout=None, _retry=False):
    """Returns the server's answer with 'elapsed', or {'timeout': True, 'elapsed': ...} when no answer came in time (the
    server is then killed; a new one is started on demand)."""
    import select
    import time
    srv = server(hashseed)
    srv.stdin.write(json.dumps({'pdb': pdb_text, 'args': args}) + '\n')
    srv.stdin.flush()
    t0 = time.time()
    ready, _, _ = select.select([srv.stdout], [], [], timeout if timeout is not None else 7200.0)
    if not ready:
        try:
            srv.kill()
        except Exception:  # pylint: disable=broad-except
            pass
        _SERVERS.pop(hashseed, None)
        return {'timeout': True, 'elapsed': time.time() - t0}
    line = srv.stdout.readline()
    if not line:
        _SERVERS.pop(hashseed, None)
        raise HarnessError('pipeline server (hash seed %s) died' % hashseed)
    res = json.loads(line)
    res['elapsed'] = time.time() - t0
    _REQUESTS[hashseed] = _REQUESTS.get(hashseed, 0) + 1
    if not res.get('ok') and not _retry and _REQUESTS[hashseed] > 1:
        # The servers share the loaded force fields and mappings between requests (that is what makes them fast); the
        # real program loads them anew for every run.  A crash that does not happen again in a new process on the same
        # request comes from that sharing, not from the presentation: only the answer of the new process counts.
        _restart(hashseed)
        again = pipeline(hashseed, pdb_text, args, timeout=timeout, _retry=True)
        again['retried_on_new_server'] = True
        frames = [l.strip() for l in (res.get('traceback') or '').split('\n') if l.strip().startswith('File ')]
        again['first_error'] = '%s at %s' % (res.get('error'), frames[-1][-90:] if frames else '?')
        return again
    if _REQUESTS[hashseed] >= MAX_REQUESTS_PER_SERVER:
        _restart(hashseed)
    return res


MAX_REQUESTS_PER_SERVER = 60
_REQUESTS = {}


def _restart(hashseed):
    srv = _SERVERS.pop(hashseed, None)
    _REQUESTS[hashseed] = 0
    if srv is not None:
        try:
            srv.stdin.close()
            srv.terminate()
        except Exception:  # pylint: disable=broad-except
            pass


# ---------------------------------------------------------------------------
# parsing and comparing the written files

def parse_outputs(files):
    top = files.get('topol.top')
    if top is None:
        return None
    molecules = []
    includes = []
    section = None
    for line in top.split('\n'):
        data = line.split(';')[0].strip()
        if not data:
            continue
        if data.startswith('#include'):
            includes.append(data.split('"')[1])
            continue
        if data.startswith('['):
            section = data.strip('[ ]').lower()
            continue
        if section == 'molecules':
            name, count = data.split()
            molecules.append((name, int(count)))
    moltypes = {}
    for name, _ in molecules:
        if name in moltypes:
            continue
        text = files.get(name + '.itp')
        if text is None:
            return {'error': 'missing itp for %s' % name}
        sections, defines, incl, _pre = c02_ref_itp.parse(text)
        atoms = []
        inter = {}
        for sec in sections:
            if sec.name == 'atoms':
                for ln in sec.lines:
                    if ln.tokens:
                        a = c02_ref_itp.read_atom(ln)
                        atoms.append((a.atype, a.resnr, a.resname, a.atomname, a.cgnr, a.charge, a.mass))
            elif sec.name not in ('moleculetype',):
                for ln in sec.lines:
                    if ln.tokens:
                        try:
                            b = c02_ref_itp.read_interaction(sec.name, ln)
                        except c02_ref_itp.ITPFormatError:
                            continue
                        inter.setdefault(sec.name, []).append((b.atoms, b.parameters, tuple(ln.guard)))
        moltypes[name] = {'atoms': atoms, 'inter': inter}
    coords = []
    pdb = files.get('cg.pdb', '')
    for line in pdb.split('\n'):
        if line.startswith('ATOM') or line.startswith('HETATM'):
            coords.append((line[12:16].strip(), line[17:20].strip(), (float(line[30:38]), float(line[38:46]), float(line[46:54]))))
    return {'molecules': molecules, 'moltypes': moltypes, 'coords': coords, 'includes': includes}


def tok_equal(a, b, tol=1e-6):
    if a == b:
        return True
    try:
        fa, fb = float(a), float(b)
    except ValueError:
        return False
    return abs(fa - fb) <= tol * max(1.0, abs(fa), abs(fb))


def compare(base, var, transform, opt):
    if base['molecules'] != var['molecules']:
        raise Violation('molecules-differ', '[ molecules ] differs: %r vs %r' % (base['molecules'], var['molecules']))
    for name, mt in base['moltypes'].items():
        other = var['moltypes'].get(name)
        if other is None:
            raise Violation('molecules-differ', 'molecule type %s missing in second run' % name)
        if len(mt['atoms']) != len(other['atoms']):
            raise Violation('atoms-differ', '%s: %d vs %d particles' % (name, len(mt['atoms']), len(other['atoms'])))
        for k, (a, b) in enumerate(zip(mt['atoms'], other['atoms'])):
            if a[:5] != b[:5] or not tok_equal(str(a[5]), str(b[5])) or not tok_equal(str(a[6]), str(b[6])):
                raise Violation('atoms-differ', '%s particle %d: %r vs %r' % (name, k + 1, a, b))
        types = set(mt['inter']) | set(other['inter'])
        for itype in sorted(types):
            la = list(mt['inter'].get(itype, []))
            lb = list(other['inter'].get(itype, []))
            unmatched_b = list(lb)
            unmatched_a = []
            for item in la:
                found = None
                for j, cand in enumerate(unmatched_b):
                    if cand[0] == item[0] and cand[2] == item[2] and len(cand[1]) == len(item[1]) and \
                            all(tok_equal(x, y, 1.2e-5 if idx == 1 and itype == 'bonds' else 1e-6)
                                for idx, (x, y) in enumerate(zip(item[1], cand[1]))):
                        found = j
                        break
                if found is None:
                    unmatched_a.append(item)
                else:
                    del unmatched_b[found]
            for item, side in [(i, 'first') for i in unmatched_a] + [(i, 'second') for i in unmatched_b]:
                # admissible: an elastic bond whose length sits on the upper bound
                if itype == 'bonds' and len(item[1]) >= 2:
                    try:
                        length = float(item[1][1])
                    except ValueError:
                        length = None
                    if length is not None and (opt['elastic'] or opt['ff'].startswith('elnedyn')) and \
                            abs(length - opt['eu']) <= 1.1e-5:
                        continue
                raise Violation('interactions-differ:' + itype,
                                '%s [ %s ]: %r only in the %s run (transform %r)' % (name, itype, item, side, _short(transform)))
    # coordinates follow the rigid motion
    if len(base['coords']) != len(var['coords']):
        raise Violation('coords-differ', 'different number of coordinate records')
    perm, sign = ROTATIONS[transform['rot']]
    for k, (a, b) in enumerate(zip(base['coords'], var['coords'])):
        if a[:2] != b[:2]:
            raise Violation('coords-differ', 'record %d: %r vs %r' % (k, a[:2], b[:2]))
        if any(math.isnan(v) for v in a[2]) or any(math.isnan(v) for v in b[2]):
            if [math.isnan(v) for v in a[2]] != [math.isnan(b[2][i]) for i in range(3)] and not all(math.isnan(v) for v in a[2] + b[2]):
                raise Violation('coords-differ', 'record %d: NaN pattern differs' % k)
            continue
        expect = [sign[i] * a[2][perm[i]] + transform['shift'][i] / 1000.0 for i in range(3)]
        if any(abs(expect[i] - b[2][i]) > 0.0015 for i in range(3)):
            raise Violation('coords-not-comoving', 'particle %d (%s %s): expected %r, got %r' % (k, a[0], a[1], expect, b[2]))


def _short(transform):
    return {k: transform[k] for k in ('permute', 'rename_h', 'rot', 'shift', 'hashseed')}


def run(case):
    preload()
    src, residues = fragment(case)
    transform = case['transform']
    opt = dict(case['options'])
    nres = len(residues)
    if opt['ss'] not in (None, 'dssp'):
        opt['ss'] = (opt['ss'] * (nres // len(opt['ss']) + 1))[:nres]
    chains = []
    for key, _ in residues:
        if key[0] not in chains:
            chains.append(key[0])
    if opt.get('merge') == 'listed':
        opt['merge'] = ','.join(chains) if len(chains) > 1 and all(c.strip() for c in chains) else None
    if case.get('conect') is not None and case['conect'].get('only_stated'):
        # no bridges from distances: the bond between the sulphur atoms is in the topology only because the file states it
        opt['cys'] = 'none'
    args = cli_args(opt)
    if transform.get('origin_atom') is not None:
        # the rigid motion is chosen such that one heavy atom lands on the origin exactly (0.000 0.000 0.000 in the file)
        heavy = [line for _, lines in residues for line in lines if not is_h(line) and line[16] in (' ', 'A')]
        line = heavy[transform['origin_atom'] % len(heavy)]
        old_xyz = (float(line[30:38]), float(line[38:46]), float(line[46:54]))
        perm, sign = ROTATIONS[transform['rot']]
        transform = dict(transform, shift=[-sign[k] * int(round(old_xyz[perm[k]] * 1000)) for k in range(3)])
    conect = bridge_records(residues) if case.get('conect') is not None else []
    if case.get('conect') is not None:
        transform = dict(transform, keep_serial=case['conect']['keep_serial'], permute=True)
    base_text, _, _ = render(residues, None, conect)
    var_text, moved, renamed = render(residues, transform, conect)
    res_a = pipeline(0, base_text, args, timeout=3600.0)
    if res_a.get('timeout'):
        return Outcome(['inconclusive:base-run-exceeded-3600s'], False)
    # the second presentation gets 60 times the time the first one took (at least TIMEOUT_FLOOR seconds): a presentation on
    # which the pipeline does not come back is a presentation without topology
    limit = max(TIMEOUT_FLOOR, 60.0 * res_a['elapsed'])
    res_b = pipeline(transform['hashseed'], var_text, args, timeout=limit)
    if res_b.get('timeout'):
        # keep the shrinking that follows affordable: later attempts in this process wait 45 s at least, not 300
        globals()['TIMEOUT_FLOOR'] = 45.0
        raise Violation('no-result-in-one-presentation',
                        'the pipeline answered in %.1f s for the input as is, but did not finish within %.0f s (60x, at least %d s) '
                        'for the other presentation (transform %r)' % (res_a['elapsed'], limit, TIMEOUT_FLOOR, _short(transform)))
    for res, label in ((res_a, 'base'), (res_b, 'transformed')):
        if not res.get('ok'):
            # the pipeline itself crashed: same behaviour required in both presentations
            pass
    if res_a.get('ok') != res_b.get('ok'):
        raise Violation('crash-in-one-presentation', 'pipeline crashed in one presentation only: %r / %r' % (
            res_a.get('error'), res_b.get('error')),
            detail=(res_a.get('traceback') or '') + (res_b.get('traceback') or ''))
    classes = ['source:%s' % src['name'].split('/')[-2 if '/' in src['name'] else 0][:20], 'ff:' + opt['ff']]
    if not res_a.get('ok'):
        if res_a['error'].split(':')[0] != res_b['error'].split(':')[0]:
            raise Violation('crash-differs', 'different failures: %r vs %r' % (res_a['error'], res_b['error']))
        classes.append('pipeline-error-both')
        classes.append('error:' + res_a['error'][:80])
        return Outcome(classes, False)
    if res_a['exit'] != res_b['exit']:
        raise Violation('exit-differs', 'exit codes %r vs %r' % (res_a['exit'], res_b['exit']))
    out_a, out_b = parse_outputs(res_a['files']), parse_outputs(res_b['files'])
    if (out_a is None) != (out_b is None):
        raise Violation('output-in-one-presentation', 'topology written in one presentation only')
    if out_a is None:
        classes.append('no-output-both')
        return Outcome(classes, False)
    if 'error' in out_a or 'error' in out_b:
        raise Violation('output-incomplete', '%r / %r' % (out_a.get('error'), out_b.get('error')))
    if not out_a['coords']:
        classes.append('empty-output')
    compare(out_a, out_b, transform, opt)
    if sorted(map(tuple, res_a['warnings'])) != sorted(map(tuple, res_b['warnings'])):
        classes.append('warning-counts-differ')
    names = set(key[2] for key, _ in residues)
    has_ss = sum(1 for key, lines in residues if key[2] == 'CYS') >= 2
    if moved:
        classes.append('heavy-atoms-permuted')
    if renamed:
        classes.append('hydrogens-renamed')
    if transform['rot'] or any(transform['shift']):
        classes.append('rigid-motion')
    if transform['hashseed'] != 0:
        classes.append('other-hashseed')
    if res_a.get('retried_on_new_server') or res_b.get('retried_on_new_server'):
        classes.append('observation:crash-not-repeated-in-a-new-process:%s' % (res_a.get('first_error') or res_b.get('first_error') or '')[:160])
    if opt['elastic'] or opt['ff'].startswith('elnedyn'):
        classes.append('elastic')
    if opt['ss'] == 'dssp':
        classes.append('dssp')
    if len(chains) > 1:
        classes.append('two-chains')
        if opt.get('merge'):
            classes.append('chains-merged')
    if max(abs(v) for v in transform['shift']) > 100000:
        classes.append('far-from-origin')
    if transform.get('origin_atom') is not None:
        classes.append('atom-on-the-origin')
    if any(line[16] == 'B' for _, lines in residues for line in lines):
        classes.append('alternate-locations')
    if has_ss:
        classes.append('two-cysteines')
    if conect:
        classes.append('conect-records')
        if transform.get('keep_serial') and moved:
            classes.append('conect-serials-out-of-file-order')
        if any(residues[a[0]][0][0] != residues[b[0]][0][0] for a, b in conect):
            classes.append('conect-between-chains')
    n_inter = sum(len(l) for mt in out_a['moltypes'].values() for l in mt['inter'].values())
    if n_inter:
        classes.append('has-interactions')
    nontrivial = bool(moved or renamed) and bool(names & SYMMETRIC or has_ss) and bool(out_a['coords'])
    return Outcome(classes, nontrivial)


def _match_nt_surplus_hydrogen(spec, part_name, case, violation):
    """Known finding F33: with -nt (neutral termini) an N-terminus that carries three equivalent hydrogens in the input keeps
    two of them; which one is dropped follows the order / names of the atoms in the file."""
    if not case['options'].get('nt'):
        return False
    if not (case['transform']['permute'] or case['transform']['rename_h']):
        return False
    if not (violation.bucket.startswith('interactions-differ') or violation.bucket == 'coords-not-comoving'):
        return False
    preload()
    _, residues = fragment(case)
    prev_chain = object()
    for key, lines in residues:
        if key[0] != prev_chain:
            names = set(line[12:16].strip() for line in lines)
            if {'H1', 'H2', 'H3'} <= names or {'HT1', 'HT2', 'HT3'} <= names or {'1H', '2H', '3H'} <= names:
                return True
        prev_chain = key[0]
    return False


MATCHERS = {'nt_surplus_terminal_hydrogen': _match_nt_surplus_hydrogen}


def strategy(tier):
    maxlen = 24 if tier == 'quick' else 40
    transform = st.fixed_dictionaries({
        'permute': st.booleans(),
        'perm_keys': st.lists(st.integers(0, 1000), min_size=5, max_size=23),
        'rename_h': st.sampled_from([None, 'unique', 'scheme']),
        'rot': st.integers(0, 23),
        'shift': st.one_of(st.lists(st.integers(-20000, 20000), min_size=3, max_size=3),
                           st.lists(st.integers(-20000, 20000), min_size=3, max_size=3),
                           st.lists(st.integers(-400000, 400000), min_size=3, max_size=3)),
        'hashseed': st.sampled_from([0, 1, 4242]),
        'origin_atom': st.one_of(st.none(), st.none(), st.none(), st.integers(0, 300)),
    })
    options = st.fixed_dictionaries({
        'ff': st.sampled_from(['martini3001', 'martini3001', 'martini22', 'elnedyn22']),
        'elastic': st.booleans(),
        'el': st.sampled_from([0, 0.3, 0.5]), 'eu': st.sampled_from([0.7, 0.9, 1.2]), 'ef': st.sampled_from([500, 700]),
        'eunit': st.sampled_from(['molecule', 'molecule', 'chain', 'all']),
        'posres': st.booleans(),
        'ss': st.one_of(st.none(), st.none(), st.just('dssp'), st.text(alphabet='HHHCCEETS', min_size=3, max_size=12)),
        'cys': st.sampled_from(['auto', 'auto', 'none', '0.3']),
        'nt': st.booleans(), 'noscfix': st.booleans(), 'resid_input': st.booleans(),
        'merge': st.sampled_from([None, None, 'all', 'listed']),
    })
    return st.fixed_dictionaries({
        'source': st.integers(0, len(SOURCES) - 1), 'start': st.integers(0, 400), 'length': st.integers(4, maxlen),
        'transform': transform, 'options': options,
        'focus': st.one_of(st.none(), st.none(), st.none(), st.none(), st.integers(0, 50)),
        'split': st.one_of(st.none(), st.fixed_dictionaries({
            'at': st.integers(0, 40), 'chains': st.sampled_from([['A', 'B'], ['B', 'A'], ['X', 'a'], ['1', '2'], ['H', 'L']])})),
        'conect': st.one_of(st.none(), st.none(), st.fixed_dictionaries({
            'pair': st.integers(0, 40), 'keep_serial': st.sampled_from([True, True, True, False]),
            'only_stated': st.sampled_from([True, True, True, False])})),
        'altloc': st.one_of(st.just([]), st.just([]), st.lists(st.tuples(st.integers(0, 40), st.integers(0, 30)).map(list), min_size=1, max_size=3)),
    })


PARTS = [
    Part('pipeline-pairs', run, strategy=strategy, examples={'quick': 72, 'thorough': 1600}, per_shard_min=12,
         case_timeout=0,   # the part has its own limits per pipeline run
         shrink_budget={'quick': 12, 'thorough': 60},
         floors={'has-interactions': 0.5, 'heavy-atoms-permuted': 0.2, 'conect-serials-out-of-file-order': 0.06, 'rigid-motion': 0.5, 'other-hashseed': 0.3}),
]
