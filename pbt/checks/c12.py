"""
C12  Editing a molecule keeps atoms, bonds and interactions consistent.

Model-based history test: a generated sequence of editing operations is
applied to real `Molecule` objects (several slots: originals, copies,
subgraphs, blocks converted to molecules) and to a pure-Python model.  After
every step every slot is compared with its model (nodes with attributes in
order, edges with attributes, interactions in order) and the dangling-reference
invariant is checked.  The merge post-condition is checked explicitly from the
returned correspondence.
"""
import copy

import numpy as np

import networkx as nx
from hypothesis import strategies as st

from pbt.core import Part, Outcome, Violation

from vermouth.molecule import Molecule, Block, Interaction
from vermouth.system import System
from vermouth.processors.merge_all_molecules import MergeAllMolecules
from vermouth.processors.merge_chains import MergeChains

PROPERTY = 'C12'
LEVEL = 'exploration'
RULE = ('histories of 3-30 editing operations (add_node, add_nodes_from, add_edge(s) creating nodes implicitly, set attribute, '
        'remove_node, remove_nodes_from, add/add_or_replace/remove/remove_matching interaction incl. invalid atoms, copy, subgraph, '
        'merge_molecule between slots, Block.to_molecule, MergeAllMolecules/MergeChains) over molecules with arbitrary int keys (in a third of the histories multi-character string or tuple keys, without merges); '
        'compared step by step with a pure-Python model; non-trivial = the history contains a merge into a receiver that previously '
        'saw a bulk/implicit node addition, a node removal or an out-of-order key, or an edit of a copy/subgraph while its source is '
        'still compared; distinct by hash of the whole history')
ASSUMPTIONS = [
    'bulk removal is given containers (list/tuple), as networkx documents ("iterable container"); one-shot iterators are outside the domain',
    'merging requires numeric keys and equal force fields (all None here); a molecule is never merged into itself',
    'the resid/charge-group offset of a merge is accepted as that of the highest-key atom or of the last-inserted atom of the receiver (docstring equates them)',
    'self-loop edges are not generated (they are not bonds)',
    'citations and log entries are not compared',
]

TYPES = ['bonds', 'angles', 'constraints']
ARITY = {'bonds': 2, 'angles': 3, 'constraints': 2}


class Model:
    def __init__(self, nrexcl=None):
        self.nodes = {}      # key -> attrs, insertion ordered
        self.edges = {}      # frozenset -> attrs
        self.inter = {}      # type -> list of (atoms, params, meta)
        self.nrexcl = nrexcl

    def clone(self):
        return copy.deepcopy(self)

    def add_node(self, key, attrs):
        if key in self.nodes:
            self.nodes[key].update(attrs)
        else:
            self.nodes[key] = dict(attrs)

    def add_edge(self, a, b, attrs):
        for k in (a, b):
            if k not in self.nodes:
                self.nodes[k] = {}
        e = frozenset((a, b))
        self.edges.setdefault(e, {}).update(attrs)

    def remove_node(self, key):
        del self.nodes[key]
        for e in [e for e in self.edges if key in e]:
            del self.edges[e]
        for t in list(self.inter):
            self.inter[t] = [i for i in self.inter[t] if key not in i[0]]
            if not self.inter[t]:
                del self.inter[t]

    def inter_nonempty(self):
        return {t: l for t, l in self.inter.items() if l}


_KEYMODE = ['int']


def K(key):
    """Node keys are ints, or (for the same histories) multi-character strings / tuples as Blocks and Links use them."""
    if _KEYMODE[0] == 'str':
        return 'K%d' % key
    if _KEYMODE[0] == 'tuple':
        return ('t', key)
    if _KEYMODE[0] == 'npint':
        # indices that come out of numpy arrays: equal to and hashed like the plain integers, but of another type
        return np.int64(key)
    return key


def build_from_desc(desc):
    """Initial molecule: nodes added one by one with add_node (the common way)."""
    mol = Molecule(nrexcl=desc['nrexcl'])
    model = Model(desc['nrexcl'])
    for key, attrs in desc['nodes']:
        mol.add_node(K(key), **attrs)
        model.add_node(K(key), attrs)
    for a, b in desc['edges']:
        keys = list(model.nodes)
        if len(keys) < 2:
            break
        ka, kb = keys[a % len(keys)], keys[b % len(keys)]
        if ka == kb:
            continue
        mol.add_edge(ka, kb)
        model.add_edge(ka, kb, {})
    return mol, model


def snapshot_real(mol):
    nodes = [(k, dict(mol.nodes[k])) for k in mol.nodes]
    edges = {frozenset((a, b)): dict(d) for a, b, d in mol.edges(data=True)}
    inter = {t: [(tuple(i.atoms), tuple(i.parameters), dict(i.meta)) for i in l]
             for t, l in mol.interactions.items() if l}
    return nodes, edges, inter


def compare(mol, model, where):
    nodes, edges, inter = snapshot_real(mol)
    # invariant: no dangling references
    keys = set(k for k, _ in nodes)
    for t, l in inter.items():
        for atoms, _, _ in l:
            for a in atoms:
                if a not in keys:
                    raise Violation('dangling-interaction', '%s: interaction %s%r refers to absent atom %r' % (where, t, atoms, a))
    for e in edges:
        for a in e:
            if a not in keys:
                raise Violation('dangling-edge', '%s: edge %r refers to absent atom' % (where, tuple(e)))
    mnodes = [(k, v) for k, v in model.nodes.items()]
    if [k for k, _ in nodes] != [k for k, _ in mnodes]:
        raise Violation('nodes', '%s: node keys/order differ: real %r, model %r' % (where, [k for k, _ in nodes], [k for k, _ in mnodes]))
    for (k, a), (_, b) in zip(nodes, mnodes):
        if a != b:
            raise Violation('node-attrs', '%s: attributes of node %r differ: real %r, model %r' % (where, k, a, b))
    if edges != model.edges:
        raise Violation('edges', '%s: edges differ: real %r, model %r' % (where, sorted(map(sorted, edges)), sorted(map(sorted, model.edges))))
    minter = model.inter_nonempty()
    if inter != minter:
        raise Violation('interactions', '%s: interactions differ: real %r, model %r' % (where, inter, minter))
    if mol.nrexcl != model.nrexcl:
        raise Violation('nrexcl', '%s: nrexcl %r vs model %r' % (where, mol.nrexcl, model.nrexcl))


def pick_key(model, ref):
    """ref is ['idx', n] (existing node by position) or ['key', k] (raw key)."""
    kind, val = ref
    if kind == 'idx':
        keys = list(model.nodes)
        if not keys:
            return K(val)
        return keys[val % len(keys)]
    return K(val)


def merge_and_check(recv, recv_model, new, new_model, flags, where):
    prior_keys = list(recv_model.nodes)
    prior = set(prior_keys)
    adopt = recv_model.nrexcl is None and not prior
    eff_nrexcl = new_model.nrexcl if adopt else recv_model.nrexcl
    if eff_nrexcl != new_model.nrexcl:
        try:
            recv.merge_molecule(new)
        except ValueError:
            if adopt:
                recv_model.nrexcl = new_model.nrexcl
            return 'nrexcl-mismatch'
        raise Violation('merge-nrexcl', '%s: merge of molecules with different nrexcl did not raise' % where)
    # The interactions of the newcomer arrive as they are: same parameters, held the same way (a tuple stays a tuple) and
    # the newcomer itself is not edited by being merged.  Some of its parameter lists are turned into tuples first.
    for itype, inters in new.interactions.items():
        for pos, inter in enumerate(inters):
            if (pos + len(inter.atoms)) % 2:
                inters[pos] = inter._replace(parameters=tuple(inter.parameters))
    new_before = ({k: dict(new.nodes[k]) for k in new.nodes},
                  {t: [(tuple(i.atoms), type(i.parameters).__name__, tuple(i.parameters), dict(i.meta)) for i in l]
                   for t, l in new.interactions.items() if l})
    n_before = {t: len(l) for t, l in recv.interactions.items()}
    corr = recv.merge_molecule(new)
    new_after = ({k: dict(new.nodes[k]) for k in new.nodes},
                 {t: [(tuple(i.atoms), type(i.parameters).__name__, tuple(i.parameters), dict(i.meta)) for i in l]
                  for t, l in new.interactions.items() if l})
    if new_after != new_before and new is not recv:
        raise Violation('merge-edits-newcomer', '%s: the molecule that was merged in is not the same afterwards: %r -> %r' % (
            where, new_before, new_after))
    for itype, entries in new_before[1].items():
        arrived = recv.interactions[itype][n_before.get(itype, 0):]
        if len(arrived) == len(entries):
            for (atoms, kind, params, meta), got in zip(entries, arrived):
                if type(got.parameters).__name__ != kind or tuple(got.parameters) != params:
                    raise Violation('merge-parameters', '%s: %s parameters %s%r of the newcomer arrived as %s%r' % (
                        where, itype, kind, params, type(got.parameters).__name__, tuple(got.parameters)))
    recv_model.nrexcl = eff_nrexcl
    if set(corr) != set(new_model.nodes):
        raise Violation('merge-correspondence', '%s: correspondence keys %r != newcomer nodes %r' % (where, sorted(corr), sorted(new_model.nodes)))
    vals = list(corr.values())
    if len(set(vals)) != len(vals):
        raise Violation('merge-correspondence', '%s: correspondence not injective: %r' % (where, corr))
    clash = prior & set(vals)
    if clash:
        raise Violation('merge-overwrite', '%s: newcomer atoms were given keys %r of existing atoms (receiver keys %r)' % (where, sorted(clash), prior_keys))
    # offsets
    res_off = cg_off = 0
    if prior:
        last_inserted = prior_keys[-1]
        highest = max(prior_keys)
        for attr in ('resid', 'charge_group'):
            allowed = set()
            unknown = False
            for cand in (last_inserted, highest):
                if attr in recv_model.nodes[cand]:
                    allowed.add(recv_model.nodes[cand][attr])
                else:
                    unknown = True
            actual = None
            for n, attrs in new_model.nodes.items():
                if attr in attrs:
                    got = recv.nodes[corr[n]].get(attr)
                    if not isinstance(got, int):
                        raise Violation('merge-offset', '%s: %s of merged atom is %r' % (where, attr, got))
                    actual = got - attrs[attr]
                    break
            if actual is None:
                actual = 0
            elif not unknown and actual not in allowed:
                raise Violation('merge-offset', '%s: %s shifted by %r, receiver last atom has %r' % (where, attr, actual, sorted(allowed)))
            if attr == 'resid':
                res_off = actual
            else:
                cg_off = actual
    for n, attrs in new_model.nodes.items():
        new_attrs = dict(attrs)
        real_attrs = recv.nodes[corr[n]]
        for attr, off in (('resid', res_off), ('charge_group', cg_off)):
            if attr in attrs:
                new_attrs[attr] = attrs[attr] + off
            elif attr in real_attrs:
                # statement is silent for atoms without the attribute: accept what the code gives
                new_attrs[attr] = real_attrs[attr]
        recv_model.nodes[corr[n]] = new_attrs
    for e, attrs in new_model.edges.items():
        a, b = tuple(e)
        recv_model.edges[frozenset((corr[a], corr[b]))] = dict(attrs)
    for t, l in new_model.inter.items():
        for atoms, params, meta in l:
            recv_model.inter.setdefault(t, []).append((tuple(corr[a] for a in atoms), params, dict(meta)))
    if prior and prior_keys[-1] != max(prior_keys):
        flags.add('merge-nonmonotone-receiver')
    return 'merged'


def run(case):
    _KEYMODE[0] = case.get('keymode', 'int')
    try:
        return _run(case)
    finally:
        _KEYMODE[0] = 'int'


def _run(case):
    flags = set()
    if _KEYMODE[0] != 'int':
        flags.add('non-int-keys')
    mol, model = build_from_desc(case['init'])
    slots = [[mol, model, {'dirty': set(), 'origin': 'init'}]]
    compare(mol, model, 'initial')
    merged_any = False
    for step, op in enumerate(case['ops']):
        name = op['op']
        slot = slots[op.get('slot', 0) % len(slots)]
        mol, model, info = slot
        where = 'step %d (%s)' % (step, name)
        if info['origin'] in ('copy', 'subgraph') and name not in ('copy', 'subgraph', 'merge', 'system_merge'):
            flags.add('edit-of-' + info['origin'])
        if name == 'add_node':
            key = pick_key(model, op['key'])
            mol.add_node(key, **op['attrs'])
            if key in model.nodes:
                info['dirty'].add('readd')
            elif _KEYMODE[0] == 'int' and model.nodes and key < max(model.nodes):
                info['dirty'].add('out-of-order-key')
            elif _KEYMODE[0] == 'int' and model.nodes and key > max(model.nodes) + 1:
                info['dirty'].add('gap-key')
            model.add_node(key, op['attrs'])
        elif name == 'add_nodes_from':
            items = [(K(k), a) for k, a in op['nodes']]
            mol.add_nodes_from(items)
            for k, a in items:
                model.add_node(k, a)
            if items:
                info['dirty'].add('bulk-add')
        elif name == 'add_edge':
            a, b = pick_key(model, op['a']), pick_key(model, op['b'])
            if a == b:
                continue
            if a not in model.nodes or b not in model.nodes:
                info['dirty'].add('implicit-add')
            mol.add_edge(a, b, **op['attrs'])
            model.add_edge(a, b, op['attrs'])
        elif name == 'add_edges_from':
            pairs = [(pick_key(model, a), pick_key(model, b)) for a, b in op['pairs']]
            pairs = [(a, b) for a, b in pairs if a != b]
            if any(a not in model.nodes or b not in model.nodes for a, b in pairs):
                info['dirty'].add('implicit-add')
            mol.add_edges_from(pairs)
            for a, b in pairs:
                model.add_edge(a, b, {})
        elif name == 'set_attr':
            if not model.nodes:
                continue
            key = pick_key(model, ['idx', op['idx']])
            mol.nodes[key][op['name']] = op['value']
            model.nodes[key][op['name']] = op['value']
        elif name == 'remove_node':
            key = pick_key(model, op['key'])
            if key in model.nodes:
                mol.remove_node(key)
                model.remove_node(key)
                info['dirty'].add('removal')
            else:
                try:
                    mol.remove_node(key)
                except nx.NetworkXError:
                    pass
                else:
                    raise Violation('remove-absent', '%s: removing absent node %r did not raise' % (where, key))
        elif name == 'remove_nodes_from':
            keys = [pick_key(model, k) for k in op['keys']]
            container = keys if op['as'] == 'list' else tuple(keys)
            mol.remove_nodes_from(container)
            for k in keys:
                if k in model.nodes:
                    model.remove_node(k)
                    info['dirty'].add('removal')
        elif name in ('add_interaction', 'add_or_replace_interaction'):
            itype = op['type']
            atoms = tuple(pick_key(model, a) for a in op['atoms'])
            params = list(op['params'])
            meta = dict(op['meta'])
            valid = all(a in model.nodes for a in atoms)
            if name == 'add_interaction':
                try:
                    mol.add_interaction(itype, atoms, params, meta=meta)
                except KeyError:
                    if valid:
                        raise Violation('add-interaction-rejected', '%s: valid interaction %r rejected' % (where, atoms))
                    flags.add('invalid-interaction')
                else:
                    if not valid:
                        raise Violation('add-interaction-invalid', '%s: interaction with absent atom %r accepted' % (where, atoms))
                    model.inter.setdefault(itype, []).append((atoms, tuple(params), meta))
            else:
                existing = None
                for idx, (a, p, m) in enumerate(model.inter.get(itype, [])):
                    if a == atoms and m.get('version', 0) == meta.get('version', 0):
                        existing = idx
                        break
                try:
                    mol.add_or_replace_interaction(itype, atoms, params, meta=meta)
                except KeyError:
                    if valid or existing is not None:
                        raise Violation('add-interaction-rejected', '%s: valid interaction %r rejected' % (where, atoms))
                    flags.add('invalid-interaction')
                else:
                    if not valid and existing is None:
                        raise Violation('add-interaction-invalid', '%s: interaction with absent atom %r accepted' % (where, atoms))
                    if existing is not None:
                        model.inter[itype][existing] = (atoms, tuple(params), meta)
                        flags.add('replace-interaction')
                    else:
                        model.inter.setdefault(itype, []).append((atoms, tuple(params), meta))
        elif name == 'remove_interaction':
            itype = op['type']
            lst = model.inter.get(itype, [])
            if lst and op['pick'] is not None:
                atoms, _, meta = lst[op['pick'] % len(lst)]
                version = meta.get('version', 0)
            else:
                atoms = tuple(pick_key(model, a) for a in op['atoms'])
                version = op['version']
            found = None
            for idx, (a, p, m) in enumerate(lst):
                if a == atoms and m.get('version', 0) == version:
                    found = idx
                    break
            try:
                mol.remove_interaction(itype, atoms, version=version)
            except KeyError:
                if found is not None:
                    raise Violation('remove-interaction', '%s: existing interaction %r v%r not found' % (where, atoms, version))
            else:
                if found is None:
                    raise Violation('remove-interaction', '%s: removing absent interaction %r v%r succeeded' % (where, atoms, version))
                del lst[found]
                flags.add('remove-interaction')
        elif name == 'remove_matching':
            itype = op['type']
            lst = model.inter.get(itype, [])
            if not lst:
                continue
            atoms, params, meta = lst[op['pick'] % len(lst)]
            tparams = list(params) if op['with_params'] else []
            template = Interaction(atoms=atoms, parameters=tparams, meta={})
            found = None
            for idx, (a, p, m) in enumerate(lst):
                if a == atoms and (not tparams or tuple(tparams) == p):
                    found = idx
                    break
            mol.remove_matching_interaction(itype, template)
            del lst[found]
            flags.add('remove-interaction')
        elif name == 'copy':
            if len(slots) >= 6:
                continue
            new = mol.copy()
            slots.append([new, model.clone(), {'dirty': set(info['dirty']), 'origin': 'copy', 'merged': info.get('merged'),
                                               'dirty_at_merge': set()}])
        elif name == 'subgraph':
            if len(slots) >= 6 or not model.nodes:
                continue
            keys = list(model.nodes)
            chosen = []
            for i in op['pick']:
                k = keys[i % len(keys)]
                if k not in chosen:
                    chosen.append(k)
            # the selection is handed over as a list without repeats, a list with repeats, a list with repeats that is exactly
            # as long as the molecule has atoms, or an iterator
            how = sum(op['pick']) % 4
            if how == 1:
                selection = [keys[i % len(keys)] for i in op['pick']]
            elif how == 2:
                selection = list(chosen) + [chosen[i % len(chosen)] for i in range(max(0, len(keys) - len(chosen)))]
            elif how == 3:
                selection = iter(list(chosen))
            else:
                selection = list(chosen)
            new = mol.subgraph(selection)
            sub = Model(model.nrexcl)
            cs = set(chosen)
            for k in chosen:
                sub.nodes[k] = copy.deepcopy(model.nodes[k])
            for e, a in model.edges.items():
                if e <= cs:
                    sub.edges[e] = dict(a)
            for t, l in model.inter.items():
                keep = [copy.deepcopy(i) for i in l if all(a in cs for a in i[0])]
                if keep:
                    sub.inter[t] = keep
            slots.append([new, sub, {'dirty': {'subgraph-order'}, 'origin': 'subgraph'}])
        elif name == 'from_block':
            if len(slots) >= 6:
                continue
            blk = op['block']
            block = Block(nrexcl=blk['nrexcl'])
            block.name = blk['name']
            names = []
            for attrs in blk['atoms']:
                if attrs['atomname'] in names:
                    continue
                names.append(attrs['atomname'])
                block.add_atom(dict(attrs))
            bedges = []
            for a, b in blk['edges']:
                if len(names) >= 2 and names[a % len(names)] != names[b % len(names)]:
                    block.add_edge(names[a % len(names)], names[b % len(names)])
                    bedges.append((names[a % len(names)], names[b % len(names)]))
            binter = []
            for itype, idxs, params in blk['inter']:
                if names:
                    atoms = tuple(names[i % len(names)] for i in idxs[:ARITY[itype]])
                    block.add_interaction(itype, atoms, list(params))
                    binter.append((itype, atoms, tuple(params)))
            new = block.to_molecule(atom_offset=blk['atom_offset'], offset_resid=blk['offset_resid'],
                                    offset_charge_group=blk['offset_cg'])
            m = Model(blk['nrexcl'])
            idx_of = {}
            for i, nm in enumerate(names, start=blk['atom_offset']):
                idx_of[nm] = i
                attrs = {'resname': blk['name']}
                attrs.update(block.nodes[nm])
                attrs['resid'] = attrs.get('resid', 1) + blk['offset_resid']
                attrs['charge_group'] = attrs.get('charge_group', 1) + blk['offset_cg']
                m.nodes[i] = attrs
            for a, b in bedges:
                m.edges[frozenset((idx_of[a], idx_of[b]))] = {}
            for itype, atoms, params in binter:
                m.inter.setdefault(itype, []).append((tuple(idx_of[a] for a in atoms), params, {}))
            slots.append([new, m, {'dirty': set(), 'origin': 'block'}])
            flags.add('block-to-molecule')
        elif name in ('merge', 'system_merge', 'from_block') and _KEYMODE[0] not in ('int', 'npint'):
            continue   # merging renumbers with integer arithmetic: integer keys (plain or numpy) only
        elif name == 'merge':
            if op['other'] is None or len(slots) == 1:
                nm, nmodel = build_from_desc(op['new'])
                other = [nm, nmodel, None]
            else:
                others = [s for s in slots if s is not slot]
                other = others[op['other'] % len(others)]
            res = merge_and_check(mol, model, other[0], other[1], flags, where)
            if res == 'merged':
                merged_any = True
                flags.add('merge')
                for d in info['dirty']:
                    flags.add('merge-after-' + d)
                if info.get('merged'):
                    flags.add('remerge')
                    for d in info['dirty'] - info['dirty_at_merge']:
                        flags.add('remerge-after-' + d)
                info['merged'] = True
                info['dirty_at_merge'] = set()
                info['dirty'] = set()
                if not other[1].nodes:
                    flags.add('merge-empty-newcomer')
        elif name == 'system_merge':
            # processors working on a system built from *copies* of the slots
            chosen = [slots[i % len(slots)] for i in op['slots']]
            if not chosen:
                continue
            mols = [s[0].copy() for s in chosen]
            models = [s[1].clone() for s in chosen]
            if len(set(m.nrexcl for m in models)) > 1:
                continue
            system = System()
            system.molecules = mols
            if op['kind'] == 'all':
                MergeAllMolecules().run_system(system)
                recv_model = models[0]
                probe = mols[0]
                rest = list(zip(mols[1:], models[1:]))
                # replay with explicit checking on fresh copies
                mols2 = [s[0].copy() for s in chosen]
                recv = mols2[0]
                for (m2, mm) in zip(mols2[1:], models[1:]):
                    merge_and_check(recv, recv_model, m2, mm, flags, where + ' replay')
                if len(system.molecules) != 1:
                    raise Violation('system-merge', '%s: MergeAllMolecules left %d molecules' % (where, len(system.molecules)))
                compare(system.molecules[0], recv_model, where + ' MergeAllMolecules')
            else:
                for m in mols:
                    for k in m.nodes:
                        m.nodes[k].setdefault('chain', 'A')
                for mm in models:
                    for k in mm.nodes:
                        mm.nodes[k].setdefault('chain', 'A')
                MergeChains(all_chains=True).run_system(system)
                if len(system.molecules) != 1:
                    raise Violation('system-merge', '%s: MergeChains(all) left %d molecules' % (where, len(system.molecules)))
                total = sum(len(mm.nodes) for mm in models)
                got = system.molecules[0]
                if len(got.nodes) != total:
                    raise Violation('system-merge', '%s: MergeChains lost/duplicated atoms: %d vs %d' % (where, len(got.nodes), total))
                n_edges = sum(len(mm.edges) for mm in models)
                if got.number_of_edges() != n_edges:
                    raise Violation('system-merge', '%s: MergeChains edges %d vs %d' % (where, got.number_of_edges(), n_edges))
                n_inter = sum(len(l) for mm in models for l in mm.inter.values())
                if sum(len(l) for l in got.interactions.values()) != n_inter:
                    raise Violation('system-merge', '%s: MergeChains interaction count differs' % where)
                compare(got, _model_of_real(got), where + ' MergeChains (dangling check)')
            flags.add('system-merge')
        else:
            raise AssertionError('unknown op %r' % name)
        # after every step: every slot agrees with its model (sources unchanged by edits of copies)
        for si, (m, mm, _) in enumerate(slots):
            compare(m, mm, '%s slot %d' % (where, si))
    interesting = {'merge-after-bulk-add', 'merge-after-implicit-add', 'merge-after-removal',
                   'merge-after-out-of-order-key', 'merge-after-gap-key', 'merge-after-readd',
                   'merge-after-subgraph-order', 'edit-of-copy', 'edit-of-subgraph',
                   'remerge-after-bulk-add', 'remerge-after-implicit-add', 'remerge-after-removal',
                   'remerge-after-out-of-order-key', 'remerge-after-gap-key', 'remerge-after-readd'}
    return Outcome(sorted(flags), bool(flags & interesting))


def _model_of_real(mol):
    m = Model(mol.nrexcl)
    nodes, edges, inter = snapshot_real(mol)
    for k, a in nodes:
        m.nodes[k] = a
    m.edges = edges
    m.inter = inter
    return m


# ---------------------------------------------------------------------------
# generator

def strategy(tier):
    max_ops = 22 if tier == 'quick' else 40
    small_key = st.integers(-2, 14)
    key = st.one_of(small_key, small_key, st.sampled_from([20, 21, 40, 1000]))
    ref = st.one_of(st.tuples(st.just('idx'), st.integers(0, 30)).map(list),
                    st.tuples(st.just('idx'), st.integers(0, 30)).map(list),
                    st.tuples(st.just('key'), key).map(list))
    attrs_full = st.fixed_dictionaries({
        'atomname': st.sampled_from(['BB', 'SC1', 'SC2', 'CA', 'N']),
        'resid': st.integers(1, 9),
        'charge_group': st.integers(1, 9),
        'resname': st.sampled_from(['ALA', 'GLY', 'LYS']),
    })
    attrs = st.one_of(attrs_full, attrs_full, attrs_full,
                      st.fixed_dictionaries({'atomname': st.sampled_from(['X', 'Y'])}))
    nrexcl = st.sampled_from([1, 1, 1, 1, 1, 1, 1, 1, 3])
    init = st.fixed_dictionaries({
        'nrexcl': st.one_of(nrexcl, nrexcl, nrexcl, nrexcl, nrexcl, nrexcl, st.none()),
        'nodes': st.one_of(
            st.integers(0, 6).flatmap(lambda n: st.tuples(*[st.tuples(st.just(i), attrs_full).map(list) for i in range(n)]).map(list)),
            st.lists(st.tuples(key, attrs_full).map(list), max_size=6, unique_by=lambda t: t[0]),
        ),
        'edges': st.lists(st.tuples(st.integers(0, 10), st.integers(0, 10)).map(list), max_size=5),
    })
    itype = st.sampled_from(TYPES)
    params = st.lists(st.sampled_from(['1', '0.47', '1250', 'a']), max_size=3)
    meta = st.one_of(st.just({}), st.fixed_dictionaries({'version': st.integers(0, 2)}),
                     st.fixed_dictionaries({'comment': st.sampled_from(['x', 'y'])}))
    slot = st.integers(0, 5)

    def with_arity(t):
        return st.fixed_dictionaries({
            'type': st.just(t),
            'atoms': st.lists(ref, min_size=ARITY[t], max_size=ARITY[t]),
            'params': params, 'meta': meta, 'slot': slot})

    inter_op = itype.flatmap(with_arity)
    block = st.fixed_dictionaries({
        'name': st.sampled_from(['ALA', 'PO4']),
        'nrexcl': nrexcl,
        'atoms': st.lists(st.one_of(
            st.fixed_dictionaries({'atomname': st.sampled_from(['A', 'B', 'C', 'D'])}),
            st.fixed_dictionaries({'atomname': st.sampled_from(['A', 'B', 'C', 'D']), 'resid': st.integers(1, 3),
                                   'charge_group': st.integers(1, 3)})), min_size=1, max_size=4),
        'edges': st.lists(st.tuples(st.integers(0, 3), st.integers(0, 3)).map(list), max_size=3),
        'inter': st.lists(st.tuples(itype, st.lists(st.integers(0, 3), min_size=3, max_size=3), params).map(list), max_size=2),
        'atom_offset': st.sampled_from([0, 0, 1, 7]),
        'offset_resid': st.integers(0, 4),
        'offset_cg': st.integers(0, 4),
    })
    merge_op = st.fixed_dictionaries({'op': st.just('merge'), 'slot': st.sampled_from([0, 0, 0, 1, 2]),
                                      'other': st.one_of(st.none(), slot), 'new': init})
    edit_ops = st.one_of(
        st.fixed_dictionaries({'op': st.just('add_node'), 'slot': slot, 'key': st.one_of(st.tuples(st.just('key'), key).map(list), ref), 'attrs': attrs}),
        st.fixed_dictionaries({'op': st.just('add_nodes_from'), 'slot': slot,
                               'nodes': st.lists(st.tuples(key, attrs).map(list), min_size=1, max_size=3)}),
        st.fixed_dictionaries({'op': st.just('add_edge'), 'slot': slot, 'a': ref, 'b': ref,
                               'attrs': st.one_of(st.just({}), st.fixed_dictionaries({'distance': st.sampled_from([0.1, 0.25])}))}),
        st.fixed_dictionaries({'op': st.just('add_edges_from'), 'slot': slot,
                               'pairs': st.lists(st.tuples(ref, ref).map(list), min_size=1, max_size=3)}),
        st.fixed_dictionaries({'op': st.just('set_attr'), 'slot': slot, 'idx': st.integers(0, 30),
                               'name': st.sampled_from(['atomname', 'resid', 'chain', 'flag']), 'value': st.integers(0, 5)}),
        st.fixed_dictionaries({'op': st.just('remove_node'), 'slot': slot, 'key': ref}),
        st.fixed_dictionaries({'op': st.just('remove_nodes_from'), 'slot': slot, 'keys': st.lists(ref, min_size=1, max_size=3),
                               'as': st.sampled_from(['list', 'tuple'])}),
        inter_op.map(lambda d: dict(d, op='add_interaction')),
        inter_op.map(lambda d: dict(d, op='add_interaction')),
        inter_op.map(lambda d: dict(d, op='add_or_replace_interaction')),
        st.fixed_dictionaries({'op': st.just('remove_interaction'), 'slot': slot, 'type': itype,
                               'pick': st.one_of(st.none(), st.integers(0, 10), st.integers(0, 10)),
                               'atoms': st.lists(ref, min_size=2, max_size=2), 'version': st.integers(0, 1)}),
        st.fixed_dictionaries({'op': st.just('remove_matching'), 'slot': slot, 'type': itype, 'pick': st.integers(0, 10),
                               'with_params': st.booleans()}),
        st.fixed_dictionaries({'op': st.just('copy'), 'slot': slot}),
        st.fixed_dictionaries({'op': st.just('subgraph'), 'slot': slot, 'pick': st.lists(st.integers(0, 30), min_size=1, max_size=6)}),
        st.fixed_dictionaries({'op': st.just('from_block'), 'block': block}),
        st.fixed_dictionaries({'op': st.just('system_merge'), 'kind': st.sampled_from(['all', 'chains']),
                               'slots': st.lists(slot, min_size=2, max_size=4)}),
    )
    segment = st.tuples(st.lists(edit_ops, min_size=0, max_size=6), merge_op).map(lambda t: t[0] + [t[1]])
    ops = st.tuples(st.lists(segment, min_size=1, max_size=max_ops // 5), st.lists(edit_ops, max_size=4)).map(
        lambda t: [o for seg in t[0] for o in seg] + t[1])
    return st.fixed_dictionaries({'init': init, 'ops': ops,
                                  'keymode': st.sampled_from(['int', 'str', 'int', 'tuple', 'int', 'npint'])})


PARTS = [
    Part('history', run, strategy=strategy,
         examples={'quick': 2400, 'thorough': 60000},
         floors={'non-int-keys': 0.1, 'merge': 0.25, 'remerge': 0.08, 'remerge-after-removal': 0.01, 'remerge-after-bulk-add': 0.004,
                 'remerge-after-implicit-add': 0.008, 'edit-of-copy': 0.05, 'edit-of-subgraph': 0.05,
                 'invalid-interaction': 0.05, 'system-merge': 0.05}),
]
