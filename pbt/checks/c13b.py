"""
C13 (development wrapper): the .itp, .map and .mapping parts of C13, to be merged into pbt/checks/c13.py.

Set C13B_NO_DEFECT_PROBES=1 to leave out the parts that only reproduce the defects reported in notes/C13B.md
(useful to see the exit status a mutant causes on its own).  C13B_ONLY=<prefix> keeps the parts whose name starts
with the prefix.
"""
import os

from pbt import c13_itp, c13_map, c13_mapping

PROPERTY = 'C13'
LEVEL = 'exploration'
RULE = ' '.join([c13_itp.RULE_TEXT, c13_map.RULE_TEXT, c13_mapping.RULE_TEXT])
ASSUMPTIONS = [
    'any exception raised by a loader counts as "rejected with an error"',
    '.itp: atom ids are 1..n in file order (Gromacs requirement); one [ atoms ] section per moleculetype; no line continuation',
    '.map: origin and target force fields are disjoint sets; molecule names are unique within a file',
    '.mapping: per direction all fetched blocks are declared before the first extra node; every fetched block has a single '
    'residue; an omitted identifier is only used when a single identifier is known or the previous reference of that direction in '
    'the same section used it',
]

PARTS = c13_itp.PARTS + c13_map.PARTS + c13_mapping.PARTS
MATCHERS = {}
for _mod in (c13_itp, c13_map, c13_mapping):
    MATCHERS.update(getattr(_mod, 'MATCHERS', {}))

if os.environ.get('C13B_NO_DEFECT_PROBES') == '1':
    _skip = set(c13_itp.DEFECT_PARTS + c13_map.DEFECT_PARTS + c13_mapping.DEFECT_PARTS)
    PARTS = [p for p in PARTS if p.name not in _skip]
if os.environ.get('C13B_ONLY'):
    PARTS = [p for p in PARTS if p.name.startswith(os.environ['C13B_ONLY'])]
