"""
C08  Warning allowances are accounted exactly; errors are never waived.

Oracle: closed formula written from the statement, plus the stated
consequences as separate metamorphic checks.  Records are fed through a real
CountingHandler on a real logger (part `random`), or written into the
handler's counter table (part `exhaustive`, finite domain enumerated
completely).  Part `parser` round-trips the CLI's maxwarn() parser.
"""
import argparse
import itertools
import logging

from hypothesis import strategies as st

from pbt.core import Part, Outcome, Violation
from pbt.util import load_cli

from vermouth.log_helpers import CountingHandler, ignore_warnings_and_count

PROPERTY = 'C08'
LEVEL = 'exploration'
RULE = ('random: multisets of log records (levels INFO/WARNING/35/ERROR/CRITICAL x 7 type names x counts 0-6) fed through a real '
        'CountingHandler, with nested -maxwarn specification lists (numbers incl. 0/negative, bare names, name:count, repeats, '
        'never-occurring types); non-trivial = at least 2 occurring warning types, at least 2 specs, one numeric limit for an '
        'occurring type and a non-zero blanket.  exhaustive: every combination of 3 types x counts x errors x spec sets of the '
        'finite sub-domain is enumerated (distinct by construction); same non-triviality rule.  parser: spec strings formatted '
        'from (type,count) and parsed by maxwarn(); non-trivial = type:count form.')
ASSUMPTIONS = [
    'a type that is both waived by name and given a numeric limit is unspecified: only 0 <= left <= total is checked there',
    'exhaustive part writes counts into CountingHandler.counts directly instead of emitting records (random part emits real records)',
]

WARNING = logging.WARNING
TYPES = ['general', 'unmapped-atom', 'inconsistent-data', 'pdb-alternate', 'missing-feature']
ABSENT_TYPES = ['never-a', 'never-b']
LEVELS = [logging.INFO, logging.WARNING, 35, logging.ERROR, logging.CRITICAL]


def ref_left(counts, specs):
    """
    counts: {level: {type: n}}, specs: [[(type|None, count|None), ...], ...]
    Returns (left, unspecified) from the statement's formula.
    """
    above = sum(n for lvl, d in counts.items() if lvl > WARNING for n in d.values())
    warn = {t: n for t, n in counts.get(WARNING, {}).items() if n}
    numeric = {}
    named = set()
    for group in specs:
        for typ, cnt in group:
            if cnt is None:
                named.add(typ)
            else:
                numeric[typ] = max(numeric.get(typ, cnt), cnt)
    unspecified = bool(named & set(numeric))
    left = above
    rest = 0
    for typ, n in warn.items():
        if typ in numeric and typ is not None:
            left += max(0, n - max(0, numeric[typ]))
        elif typ in named:
            pass
        else:
            rest += n
    blanket = max(0, numeric.get(None, 0))
    left += max(0, rest - blanket)
    return left, unspecified


def total_at_or_above(counts):
    return sum(n for lvl, d in counts.items() if lvl >= WARNING for n in d.values())


_LOGGER_SEQ = [0]


def make_counter_by_logging(records):
    """records: list of (level, type, n).  Emits real records."""
    _LOGGER_SEQ[0] += 1
    logger = logging.getLogger('verif_c08.case%d' % (_LOGGER_SEQ[0] % 64))
    logger.propagate = False
    logger.setLevel(1)
    for h in list(logger.handlers):
        logger.removeHandler(h)
    handler = CountingHandler()
    logger.addHandler(handler)
    for level, typ, n in records:
        for _ in range(n):
            if typ is None:
                logger.log(level, 'msg')  # default type 'general'
            else:
                logger.log(level, 'msg', extra={'type': typ})
    logger.removeHandler(handler)
    return handler


def make_counter_direct(counts):
    handler = CountingHandler()
    for lvl, d in counts.items():
        for typ, n in d.items():
            if n:
                handler.counts[lvl][typ] += n
    return handler


def counts_from_records(records):
    counts = {}
    for level, typ, n in records:
        if n:
            d = counts.setdefault(level, {})
            t = 'general' if typ is None else typ
            d[t] = d.get(t, 0) + n
    return counts


def specs_from_case(case_specs):
    return [[(t, c) for t, c in group] for group in case_specs]


def check_one(counts, specs, make_counter, do_meta=True):
    expected, unspecified = ref_left(counts, specs)
    total = total_at_or_above(counts)
    counter = make_counter()
    before = {lvl: dict(d) for lvl, d in counter.counts.items() if d}
    got = ignore_warnings_and_count(counter, specs)
    # counting is a question, not an edit: the records of the handler are the same afterwards and asking again (the same
    # question, or without any allowance) gives the answer the records call for
    after = {lvl: dict(d) for lvl, d in counter.counts.items() if d}
    if after != before:
        raise Violation('counter-modified', 'the records of the counting handler changed: %r -> %r' % (before, after))
    again = ignore_warnings_and_count(counter, specs)
    if again != got:
        raise Violation('second-call-differs', 'left=%r on the first call, %r on the second call with the same handler and allowances' % (got, again))
    if not isinstance(got, int) or isinstance(got, bool):
        raise Violation('type', 'result %r is not an int' % (got,))
    if got < 0:
        raise Violation('negative', 'left=%d is negative' % got)
    if got > total:
        raise Violation('above-total', 'left=%d exceeds number of records at or above warning level %d' % (got, total))
    above = sum(n for lvl, d in counts.items() if lvl > WARNING for n in d.values())
    if got < above:
        raise Violation('error-waived', 'left=%d < %d records above warning level: an error was waived' % (got, above))
    if unspecified:
        return expected, got, True
    if got != expected:
        raise Violation('formula', 'left=%d, statement formula gives %d (counts=%r specs=%r)' % (got, expected, counts, specs))
    if not do_meta:
        return expected, got, False
    # consequence: an allowance for a type that did not occur never changes the result
    for extra in ([('never-occurs', 5)], [('never-occurs', None)]):
        got2 = ignore_warnings_and_count(make_counter(), specs + [extra])
        if got2 != got:
            raise Violation('absent-type', 'allowance %r for an absent type changed left %d -> %d' % (extra, got, got2))
    # consequence: one more ERROR raises left by exactly one
    counts2 = {lvl: dict(d) for lvl, d in counts.items()}
    counts2.setdefault(logging.ERROR, {})
    counts2[logging.ERROR]['general'] = counts2[logging.ERROR].get('general', 0) + 1
    got3 = ignore_warnings_and_count(make_counter_direct(counts2), specs)
    if got3 != got + 1:
        raise Violation('error-waived', 'adding one ERROR record changed left %d -> %d' % (got, got3))
    # consequence: raising the blanket allowance never raises left
    got4 = ignore_warnings_and_count(make_counter(), specs + [[(None, 1 + max([0] + [c for g in specs for t, c in g if t is None and c is not None]))]])
    if got4 > got:
        raise Violation('monotone', 'a larger blanket allowance raised left %d -> %d' % (got, got4))
    return expected, got, False


# ---------------------------------------------------------------------------
# part: random

def _strategy_random(tier):
    types_pool = TYPES + ABSENT_TYPES
    warn = st.lists(st.tuples(st.just(WARNING), st.one_of(st.none(), st.sampled_from(TYPES)), st.integers(0, 6)),
                    min_size=0, max_size=5)
    other = st.one_of(
        st.just([]),
        st.lists(st.tuples(st.sampled_from([logging.INFO, 35, logging.ERROR, logging.CRITICAL]),
                           st.one_of(st.none(), st.sampled_from(TYPES)), st.integers(0, 3)),
                 min_size=1, max_size=3))
    records = st.tuples(warn, other).map(lambda p: p[0] + p[1])
    count = st.one_of(st.integers(-3, 8), st.sampled_from([0, 1, 2, 100]))
    spec = st.one_of(
        st.tuples(st.none(), count),                                   # "3"
        st.tuples(st.sampled_from(types_pool), st.none()),            # "general"
        st.tuples(st.sampled_from(types_pool), count),                # "general:3"
        st.tuples(st.sampled_from(types_pool), count),
    )
    specs = st.lists(st.lists(spec, min_size=1, max_size=3), min_size=0, max_size=4)
    return st.fixed_dictionaries({'records': records, 'specs': specs})


def _run_random(case):
    records = [tuple(r) for r in case['records']]
    specs = specs_from_case(case['specs'])
    counts = counts_from_records(records)
    first = [make_counter_by_logging(records)]

    def make():
        if first:
            return first.pop()
        return make_counter_direct(counts)
    expected, got, unspecified = check_one(counts, specs, make)
    warn = counts.get(WARNING, {})
    flat = [s for g in specs for s in g]
    numeric_occurring = any(t is not None and c is not None and warn.get(t, 0) > 0 for t, c in flat)
    blanket = max([0] + [c for t, c in flat if t is None and c is not None])
    classes = []
    if unspecified:
        classes.append('unspecified-combination')
    if any(lvl > WARNING for lvl in counts):
        classes.append('has-error')
    if any(c is not None and c < 0 for t, c in flat):
        classes.append('negative-count')
    if any(t in ABSENT_TYPES for t, c in flat):
        classes.append('absent-type-spec')
    if got == 0 and total_at_or_above(counts) > 0:
        classes.append('all-covered')
    if got > 0:
        classes.append('leftover')
    nontrivial = (not unspecified and len(warn) >= 2 and len(flat) >= 2
                  and numeric_occurring and blanket > 0)
    return Outcome(classes, nontrivial)


# ---------------------------------------------------------------------------
# part: exhaustive

def _enum_domain(tier):
    t1, t2, t3 = 'general', 'unmapped-atom', 'pdb-alternate'
    if tier == 'quick':
        cvals = [0, 1, 3]
        evals = [0, 1]
        limits = [None, 0, 2, -1]
        max_specs = 2
    else:
        cvals = [0, 1, 2, 3]
        evals = [0, 1]
        limits = [None, 0, 1, 2, 5]
        max_specs = 3
    atoms = [(t, l) for t in (None, t1, t2) for l in limits if not (t is None and l is None)]
    specsets = [()]
    for k in range(1, max_specs + 1):
        specsets.extend(itertools.combinations(atoms, k))
    return (t1, t2, t3), cvals, evals, specsets


def _enumerate_exhaustive(tier, shard, nshards):
    (t1, t2, t3), cvals, evals, specsets = _enum_domain(tier)
    idx = 0
    for c1, c2, c3, e in itertools.product(cvals, cvals, cvals, evals):
        for ss in specsets:
            idx += 1
            if idx % nshards != shard:
                continue
            yield {'counts': [[t1, c1], [t2, c2], [t3, c3]], 'errors': e,
                   'specs': [[list(s)] for s in ss]}


def _run_exhaustive(case):
    counts = {WARNING: {t: n for t, n in case['counts'] if n}}
    if case['errors']:
        counts[logging.ERROR] = {'general': case['errors']}
    specs = [[(t, c) for t, c in group] for group in case['specs']]
    expected, got, unspecified = check_one(counts, specs, lambda: make_counter_direct(counts), do_meta=False)
    warn = counts[WARNING]
    flat = [s for g in specs for s in g]
    numeric_occurring = any(t is not None and c is not None and warn.get(t, 0) > 0 for t, c in flat)
    blanket = max([0] + [c for t, c in flat if t is None and c is not None])
    nontrivial = (not unspecified and len(warn) >= 2 and len(flat) >= 2 and numeric_occurring and blanket > 0)
    return Outcome(['unspecified-combination'] if unspecified else [], nontrivial)


# ---------------------------------------------------------------------------
# part: parser

def _strategy_parser(tier):
    name = st.text(alphabet='abcdefghijklmnopqrstuvwxyzABCDEFGHIJKLMNOPQRSTUVWXYZ-_', min_size=1, max_size=20).filter(
        lambda s: not _is_int(s))
    good = st.one_of(
        st.tuples(st.none(), st.integers(-50, 10**6)),
        st.tuples(name, st.none()),
        st.tuples(name, st.integers(-50, 10**6)),
    )
    bad = st.one_of(
        st.tuples(name, name).map(lambda p: '%s:%s' % p),
        st.tuples(name, st.integers(0, 9), st.integers(0, 9)).map(lambda p: '%s:%d:%d' % p),
        st.just(':'), st.just('a:'), st.just('::'), st.just('a:1.5'), st.just('1:x'),
    )
    return st.one_of(good.map(lambda g: {'kind': 'good', 'spec': list(g)}),
                     bad.map(lambda b: {'kind': 'bad', 'text': b}))


def _is_int(text):
    try:
        int(text)
    except ValueError:
        return False
    return True


def _run_parser(case):
    cli = load_cli()
    if case['kind'] == 'good':
        typ, cnt = case['spec']
        if typ is None:
            text = str(cnt)
        elif cnt is None:
            text = typ
        else:
            text = '%s:%d' % (typ, cnt)
        got = cli.maxwarn(text)
        if tuple(got) != (typ, cnt):
            raise Violation('parser-roundtrip', 'maxwarn(%r) = %r, expected %r' % (text, got, (typ, cnt)))
        return Outcome(['good'], typ is not None and cnt is not None)
    text = case['text']
    try:
        got = cli.maxwarn(text)
    except argparse.ArgumentTypeError:
        return Outcome(['bad-rejected'], False)
    raise Violation('parser-accepts-malformed', 'maxwarn(%r) returned %r instead of raising' % (text, got))


PARTS = [
    Part('random', _run_random, strategy=_strategy_random,
         examples={'quick': 24000, 'thorough': 400000},
         floors={'has-error': 0.05, 'negative-count': 0.05, 'absent-type-spec': 0.05, 'leftover': 0.1, 'all-covered': 0.02, 'unspecified-combination': 0.02}),
    Part('exhaustive', _run_exhaustive, enumerate=_enumerate_exhaustive),
    Part('parser', _run_parser, strategy=_strategy_parser,
         examples={'quick': 3000, 'thorough': 30000}),
]
