"""
C17  Per-residue annotations land on the intended residues and translate correctly.

assign      generated systems (selected / unselected molecules in any order) + sequences -> AnnotateResidues.run_system,
            expectation computed from the documented rules.
dssp-enum   every string over {H, C} up to a length bound -> convert_dssp_to_martini vs. a run-length reference (exhaustive).
dssp-random random strings over the full supported alphabet, directly and through AnnotateMartiniSecondaryStructures.
"""
import itertools

from hypothesis import strategies as st

from pbt.core import Part, Outcome, Violation

from vermouth.molecule import Molecule
from vermouth.system import System
from vermouth.dssp.dssp import (AnnotateResidues, AnnotateMartiniSecondaryStructures,
                                convert_dssp_to_martini)
from vermouth import selectors

PROPERTY = 'C17'
LEVEL = 'exploration'
RULE = ('assign: systems of 1-6 molecules (1-8 residues of 1-3 atoms, sparse increasing node keys, atoms of neighbouring residues '
        'optionally interleaved; residue numbers ascending, descending, wrapping at 9999 or with insertion codes), each molecule selected or not (by protein residue names or by a flag), sequences of length '
        'total / one molecule / 1 / off by one / empty / arbitrary; non-trivial = an unselected molecule precedes a selected one and '
        'the selected molecules differ in residue count or the sequence is per-residue for the whole selection. '
        'dssp-enum: all strings over {H,C} up to length 12 (quick) / 16 (thorough), enumerated completely; non-trivial = at least '
        'two helical runs. dssp-random: strings over 123HGIBETSC up to length 60; non-trivial = two helical runs separated by a '
        'single residue. assign-molecule: one molecule of 1-8 residues through annotate_residues_from_sequence or '
        'AnnotateResidues.run_molecule with a sequence of the right length, one element, or a wrong length, of equal or distinct '
        'elements; non-trivial = a wrong length with all elements equal. dssp-system: 2-5 molecules, each fully / not / partly annotated with its own DSSP string, translated by one '
        'AnnotateMartiniSecondaryStructures.run_system call (optionally twice); non-trivial = a molecule that ends in a helix is '
        'followed by one that starts with a helix.')
ASSUMPTIONS = [
    'the k-th residue of a molecule is the k-th in order of first appearance; generated node keys increase with insertion order so that this coincides with the lowest-key order the library uses',
    'residues of one molecule have distinct (chain, resid, resname, insertion code)',
    'helix rewriting rules taken from the documented table: runs of 1-4 -> 3..., 5 -> 13332, 6 -> 113322, 7 -> 1113222, >= 8 -> 1111 H* 2222',
]

PROT = ['ALA', 'GLY', 'LYS', 'SER', 'TRP']
NONPROT = ['POPC', 'LIG', 'W', 'NA', 'HEM']
TABLE = {'1': 'H', '2': 'H', '3': 'H', 'H': 'H', 'G': 'H', 'I': 'H', 'B': 'E', 'E': 'E', 'T': 'T', 'S': 'S', 'C': 'C'}


# ---------------------------------------------------------------------------
# reference for DSSP -> Martini

def ref_convert(seq):
    mapped = [TABLE[c] for c in seq]
    out = []
    i = 0
    n = len(mapped)
    while i < n:
        if mapped[i] != 'H':
            out.append(mapped[i])
            i += 1
            continue
        j = i
        while j < n and mapped[j] == 'H':
            j += 1
        run = j - i
        if run <= 4:
            out.extend('3' * run)
        elif run == 5:
            out.extend('13332')
        elif run == 6:
            out.extend('113322')
        elif run == 7:
            out.extend('1113222')
        else:
            out.extend('1111' + 'H' * (run - 8) + '2222')
        i = j
    return ''.join(out)


def helical_runs(seq):
    runs = []
    cur = 0
    for c in seq:
        if TABLE[c] == 'H':
            cur += 1
        else:
            if cur:
                runs.append(cur)
            cur = 0
    if cur:
        runs.append(cur)
    return runs


def check_convert(seq, got):
    expected = ref_convert(seq)
    got = ''.join(got)
    if len(got) != len(seq):
        raise Violation('dssp-length', 'convert(%r) has length %d, input %d' % (seq, len(got), len(seq)))
    if got != expected:
        raise Violation('dssp-translation', 'convert(%r) = %r, documented rules give %r' % (seq, got, expected))


def _enum_dssp(tier, shard, nshards):
    maxlen = 12 if tier == 'quick' else 16
    idx = 0
    for n in range(0, maxlen + 1):
        for tup in itertools.product('HC', repeat=n):
            idx += 1
            if idx % nshards == shard:
                yield ''.join(tup)


def _run_enum(case):
    check_convert(case, convert_dssp_to_martini(case))
    runs = helical_runs(case)
    return Outcome(['has-long-helix'] if any(r >= 8 for r in runs) else [], len(runs) >= 2)


def _strategy_dssp_random(tier):
    alphabet = '123HGIBETSC'
    piece = st.one_of(
        st.integers(1, 12).map(lambda n: 'H' * n),
        st.text(alphabet='HGI123', min_size=1, max_size=10),
        st.text(alphabet='BETSC', min_size=1, max_size=3),
        st.sampled_from(['C', 'T', 'S', 'E']),
    )
    seq = st.one_of(st.lists(piece, max_size=12).map(''.join), st.text(alphabet=alphabet, max_size=60))
    return st.fixed_dictionaries({'seq': seq, 'via_molecule': st.booleans(), 'atoms_per_res': st.integers(1, 3)})


def _strategy_assign_molecule(tier):
    return st.fixed_dictionaries({
        'residues': st.lists(st.integers(1, 3), min_size=1, max_size=8),
        'len_mode': st.sampled_from(['equal', 'equal', 'one', 'short', 'long', 'double', 'empty']),
        'letters': st.sampled_from(['same', 'same', 'mixed']),
        'via': st.sampled_from(['function', 'processor', 'processor-not-selected']),
        'resid0': st.sampled_from([1, 5, 9998]), 'key0': st.sampled_from([0, 3]), 'keystep': st.sampled_from([1, 2]),
        'preset': st.booleans(),
    })


def _run_assign_molecule(case):
    """The per-molecule entry points (annotate_residues_from_sequence, AnnotateResidues.run_molecule): k-th element to the
    k-th residue, a one-element sequence is repeated, any other length mismatch is an error -- whatever the sequence holds."""
    from vermouth.dssp.dssp import annotate_residues_from_sequence
    nres = len(case['residues'])
    mol = Molecule()
    key = case['key0']
    layout = []
    for ridx, natoms in enumerate(case['residues']):
        row = []
        for a in range(natoms):
            attrs = dict(atomname='A%d' % a, resname='ALA', resid=(case['resid0'] + ridx) % 10000, chain='A')
            if case['preset']:
                attrs['secstruct'] = 'old'
            mol.add_node(key, **attrs)
            row.append(key)
            key += case['keystep']
        layout.append(row)
    n = {'equal': nres, 'one': 1, 'short': nres - 1, 'long': nres + 1, 'double': 2 * nres, 'empty': 0}[case['len_mode']]
    if case['letters'] == 'same':
        seq = ['C'] * n
    else:
        seq = ['HCETS'[i % 5] + str(i) for i in range(n)]
    if n == nres:
        expect = seq
    elif n == 1:
        expect = seq * nres
    else:
        expect = 'error'
    selected = case['via'] != 'processor-not-selected'
    before = {k: mol.nodes[k].get('secstruct', '<<absent>>') for k in mol.nodes}
    try:
        if case['via'] == 'function':
            annotate_residues_from_sequence(mol, 'secstruct', seq)
        else:
            AnnotateResidues('secstruct', seq, molecule_selector=lambda m: selected).run_molecule(mol)
    except ValueError:
        if expect != 'error' or not selected:
            raise Violation('molecule-assign-rejected', 'sequence of %d elements rejected for a molecule of %d residues' % (n, nres))
        if {k: mol.nodes[k].get('secstruct', '<<absent>>') for k in mol.nodes} != before:
            raise Violation('molecule-assign-partial', 'ValueError raised but attributes were changed')
        return Outcome(['length-error', 'letters-' + case['letters']], case['letters'] == 'same')
    if not selected:
        if {k: mol.nodes[k].get('secstruct', '<<absent>>') for k in mol.nodes} != before:
            raise Violation('molecule-assign-unselected-touched', 'a molecule the selector rejects was modified')
        return Outcome(['not-selected'], False)
    if expect == 'error':
        raise Violation('molecule-assign-accepted-mismatch', 'sequence %r (%d elements) accepted for a molecule of %d residues; '
                        'attributes now %r' % (seq, n, nres, [mol.nodes[row[0]].get('secstruct') for row in layout]))
    for ridx, row in enumerate(layout):
        for k in row:
            if mol.nodes[k].get('secstruct') != expect[ridx]:
                raise Violation('molecule-assign-misplaced', 'residue %d atom %r: got %r, expected %r' % (
                    ridx, k, mol.nodes[k].get('secstruct'), expect[ridx]))
    return Outcome(['assigned', 'letters-' + case['letters']], False)


def _strategy_dssp_system(tier):
    piece = st.one_of(
        st.integers(1, 9).map(lambda n: 'H' * n),
        st.text(alphabet='HGI123', min_size=1, max_size=6),
        st.text(alphabet='BETSC', min_size=1, max_size=3),
    )
    seq = st.lists(piece, min_size=1, max_size=5).map(''.join)
    mol = st.fixed_dictionaries({'seq': seq, 'annotated': st.sampled_from(['full', 'full', 'full', 'full', 'full', 'none', 'partial']),
                                 'atoms_per_res': st.integers(1, 2), 'hole': st.integers(0, 50),
                                 # node keys handed out against the order in which the atoms are stored: the residue order of
                                 # the library (lowest node key first) is then the reverse of the storage order
                                 'keys_descending': st.sampled_from([False, False, True]),
                                 'other_names': st.sampled_from([False, False, True])})
    return st.fixed_dictionaries({'mols': st.lists(mol, min_size=2, max_size=5), 'twice': st.booleans()})


def _run_dssp_system(case):
    """Several molecules, each with its own DSSP string: every molecule is translated on its own (a helix never continues
    into the next molecule), molecules without any DSSP annotation are left alone, a partly annotated one is an error."""
    system = System()
    system.meta['header'] = []
    layout = []
    for mi, md in enumerate(case['mols']):
        mol = Molecule()
        seq = md['seq']
        descending = md.get('keys_descending', False)
        key = 3 * len(seq) * md['atoms_per_res'] if descending else 0
        hole = md['hole'] % len(seq)
        keys = []
        for ridx, c in enumerate(seq):
            row = []
            for a in range(md['atoms_per_res']):
                # residue names: amino acids, or a molecule that is not (only) made of them (capped or modified peptide, ligand)
                resname = 'ALA' if not md.get('other_names') else ['ALA', 'SEP', 'LIG', 'ACE'][(ridx + md['hole']) % 4]
                attrs = dict(atomname='A%d' % a, resname=resname, resid=ridx + 1, chain='ABCDE'[mi])
                if md['annotated'] == 'full' or (md['annotated'] == 'partial' and ridx != hole):
                    attrs['aasecstruct'] = c
                mol.add_node(key, **attrs)
                row.append(key)
                key += -3 if descending else 3
            keys.append(row)
        layout.append(keys)
        system.molecules.append(mol)
    partial = any(md['annotated'] == 'partial' and len(md['seq']) > 1 for md in case['mols'])
    # a one-residue molecule whose only residue lacks the annotation is an un-annotated molecule
    processor = AnnotateMartiniSecondaryStructures()
    try:
        processor.run_system(system)
        if case['twice']:
            processor.run_system(system)
    except ValueError:
        if not partial:
            raise Violation('dssp-system-rejected', 'ValueError although every molecule is fully annotated or not at all: %r' % (
                [(md['seq'], md['annotated']) for md in case['mols']],))
        return Outcome(['partly-annotated-molecule'], False)
    if partial:
        raise Violation('dssp-system-partial-accepted', 'a molecule with DSSP classes on only some residues was accepted')
    junction = False
    previous_helix_end = False
    for mi, (md, mol, keys) in enumerate(zip(case['mols'], system.molecules, layout)):
        seq = md['seq']
        full = md['annotated'] == 'full'
        if md.get('keys_descending'):
            # the residues in the order of their lowest node key are the stored ones backwards
            expected = ref_convert(seq[::-1])[::-1] if full else None
        else:
            expected = ref_convert(seq) if full else None
        for ridx, row in enumerate(keys):
            for key in row:
                got = mol.nodes[key].get('cgsecstruct')
                want = expected[ridx] if full else None
                if got != want:
                    raise Violation('dssp-system', 'molecule %d (%r, %s) residue %d: cgsecstruct %r, expected %r; sequences of the system: %r' % (
                        mi, seq, md['annotated'], ridx, got, want, [(m['seq'], m['annotated']) for m in case['mols']]))
        if full:
            if previous_helix_end and TABLE[seq[0]] == 'H':
                junction = True
            previous_helix_end = TABLE[seq[-1]] == 'H'
    classes = []
    if junction:
        classes.append('helix-at-both-sides-of-a-molecule-boundary')
    if any(md['annotated'] != 'full' for md in case['mols']):
        classes.append('has-unannotated-molecule')
    if any(md.get('other_names') and md['annotated'] == 'full' for md in case['mols']):
        classes.append('annotated-molecule-with-other-residue-names')
    if any(md.get('keys_descending') and md['annotated'] == 'full' and ref_convert(md['seq'][::-1])[::-1] != ref_convert(md['seq'])
           for md in case['mols']):
        classes.append('storage-order-against-key-order-matters')
    return Outcome(classes, junction)


def _run_dssp_random(case):
    seq = case['seq']
    classes = []
    if case['via_molecule'] and seq:
        mol = Molecule()
        key = 0
        for ridx, c in enumerate(seq):
            for a in range(case['atoms_per_res']):
                mol.add_node(key, atomname='A%d' % a, resname='ALA', resid=ridx + 1, chain='A', aasecstruct=c)
                key += 2
        system = System()
        system.meta['header'] = []
        system.molecules = [mol]
        AnnotateMartiniSecondaryStructures().run_system(system)
        expected = ref_convert(seq)
        key = 0
        for ridx in range(len(seq)):
            for a in range(case['atoms_per_res']):
                got = mol.nodes[key].get('cgsecstruct')
                if got != expected[ridx]:
                    raise Violation('dssp-annotation', 'residue %d atom %d of %r: cgsecstruct %r, expected %r' % (
                        ridx, a, seq, got, expected[ridx]))
                if mol.nodes[key].get('aasecstruct') != seq[ridx]:
                    raise Violation('dssp-annotation', 'aasecstruct changed')
                key += 2
        classes.append('via-molecule')
    else:
        check_convert(seq, convert_dssp_to_martini(seq))
    runs = helical_runs(seq)
    sep_one = False
    mapped = ''.join('H' if TABLE[c] == 'H' else '.' for c in seq)
    if 'H.H' in mapped:
        sep_one = True
        classes.append('runs-separated-by-one')
    if any(r >= 8 for r in runs):
        classes.append('has-long-helix')
    if any(c in '123GI' for c in seq):
        classes.append('non-H-helix-class')
    return Outcome(classes, sep_one and len(runs) >= 2)


# ---------------------------------------------------------------------------
# assignment

def build_system(case):
    mols = []
    layout = []
    for mi, md in enumerate(case['mols']):
        mol = Molecule()
        mol.meta['flag'] = bool(md['selected'])
        names = PROT if (md['selected'] or case['selector'] == 'flag' and md['protein_names']) else NONPROT
        if case['selector'] == 'protein':
            names = PROT if md['selected'] else NONPROT
        key = md['key0']
        residues = []
        nres = len(md['residues'])
        order = []
        for ridx, natoms in enumerate(md['residues']):
            order.append([(ridx, a) for a in range(natoms)])
        flat = []
        if md['interleave']:
            # interleave atoms of residue pairs (0,1), (2,3)...: first appearance order stays 0,1,2,...
            for i in range(0, nres, 2):
                a = order[i]
                b = order[i + 1] if i + 1 < nres else []
                merged = []
                for j in range(max(len(a), len(b))):
                    if j < len(a):
                        merged.append(a[j])
                    if j < len(b):
                        merged.append(b[j])
                flat.extend(merged)
        else:
            for o in order:
                flat.extend(o)
        per_res = [[] for _ in range(nres)]
        for ridx, a in flat:
            # residue numbering: ascending, descending, wrapping (9999 -> 0) or with insertion codes (same number, codes in
            # an order that is not alphabetical): the k-th residue is the k-th in the molecule, never the k-th when sorted
            scheme = md.get('numbering', 'ascending')
            if scheme == 'descending':
                resid, icode = md['resid0'] + (nres - ridx) * md['resid_step'], None
            elif scheme == 'wrap':
                resid, icode = (9998 + ridx) % 10000, None
            elif scheme == 'icode':
                resid, icode = md['resid0'] + ridx // 3, ['', 'B', 'A'][ridx % 3]
            else:
                resid, icode = md['resid0'] + ridx * md['resid_step'], None
            attrs = {'atomname': 'A%d' % a, 'resname': names[(ridx + mi) % len(names)], 'resid': resid,
                     'chain': md['chain']}
            if icode:
                attrs['insertion_code'] = icode
            if not md['selected'] and md['preset']:
                attrs['secstruct'] = 'preset-%d-%d' % (mi, ridx)
            mol.add_node(key, **attrs)
            per_res[ridx].append(key)
            key += md['keystep']
        keys = list(mol.nodes)
        for a, b in zip(keys[:-1], keys[1:]):
            mol.add_edge(a, b)
        mols.append(mol)
        layout.append(per_res)
    system = System()
    system.molecules = mols
    return system, layout


def snapshot(system, attribute):
    return [[(k, mol.nodes[k].get(attribute, '<<absent>>')) for k in mol.nodes] for mol in system.molecules]


def _expected(seq, selected, lens):
    n = len(seq)
    total = sum(lens)
    if n and not selected:
        return 'error'
    if lens and n == lens[0] and len(set(lens)) == 1:
        return [seq for _ in lens]
    if n == 1:
        return [[seq[0]] * l for l in lens]
    if n == total:
        expect = []
        pos = 0
        for l in lens:
            expect.append(seq[pos:pos + l])
            pos += l
        return expect
    return 'error'


def _apply_and_check(processor, case, seq, sequence, prefix=''):
    """Build the system of `case`, run the (possibly already used) processor on it and compare with the documented rules.
    Returns 'error' or 'assigned'."""
    system, layout = build_system(case)
    selected = [i for i, md in enumerate(case['mols']) if md['selected']]
    lens = [len(case['mols'][i]['residues']) for i in selected]
    total = sum(lens)
    n = len(seq)
    expect = _expected(seq, selected, lens)
    before = snapshot(system, 'secstruct')
    try:
        processor.run_system(system)
    except ValueError:
        if expect != 'error':
            raise Violation(prefix + 'assign-rejected', 'valid sequence of length %d rejected for selected residue counts %r' % (n, lens))
        after = snapshot(system, 'secstruct')
        if after != before:
            raise Violation(prefix + 'assign-partial', 'ValueError raised but attributes were changed')
        return 'error'
    if expect == 'error':
        raise Violation(prefix + 'assign-accepted-mismatch', 'sequence of length %d accepted for selected residue counts %r (total %d)' % (n, lens, total))
    after = snapshot(system, 'secstruct')
    for mi, mol in enumerate(system.molecules):
        if mi not in selected:
            if after[mi] != before[mi]:
                raise Violation(prefix + 'assign-unselected-touched', 'unselected molecule %d was modified: %r -> %r' % (mi, before[mi][:4], after[mi][:4]))
            continue
        exp = expect[selected.index(mi)]
        for ridx, keys in enumerate(layout[mi]):
            for k in keys:
                got = mol.nodes[k].get('secstruct', '<<absent>>')
                if got != exp[ridx]:
                    raise Violation(prefix + 'assign-misplaced', 'molecule %d residue %d atom %r: got %r, expected %r (sequence %r, selected residue counts %r)' % (
                        mi, ridx, k, got, exp[ridx], sequence, lens))
    return 'assigned'


def _run_assign(case):
    system, layout = build_system(case)
    selected = [i for i, md in enumerate(case['mols']) if md['selected']]
    lens = [len(case['mols'][i]['residues']) for i in selected]
    total = sum(lens)
    mode = case['seqmode']
    pool = case['seq']
    if mode == 'total':
        n = total
    elif mode == 'per-mol':
        n = lens[0] if lens else 0
    elif mode == 'one':
        n = 1
    elif mode == 'off-by-one':
        n = max(0, total + case['delta'])
    elif mode == 'empty':
        n = 0
    else:
        n = case['rawlen']
    seq = [pool[i % len(pool)] + str(i) if case['selector'] == 'flag' else pool[i % len(pool)] for i in range(n)]
    if case['selector'] == 'protein':
        sequence = ''.join(seq)
        selector = selectors.is_protein
    else:
        sequence = list(seq)
        selector = lambda mol: mol.meta.get('flag', False)  # noqa: E731
    processor = AnnotateResidues('secstruct', sequence, molecule_selector=selector)
    classes = [mode]
    outcome = _apply_and_check(processor, case, seq, sequence)
    # the same processor object on a second, differently sized system: the sequence it was created with still decides
    mols2 = [dict(md) for md in reversed(case['mols'])]
    if len(mols2) > 1:
        mols2 = mols2[:-1]
    else:
        mols2[0] = dict(mols2[0], residues=list(mols2[0]['residues']) + [1])
    case2 = dict(case, mols=mols2)
    outcome2 = _apply_and_check(processor, case2, seq, sequence, prefix='reuse:')
    classes.append('reuse-' + outcome2)
    if outcome == 'error':
        classes.append('length-error')
        return Outcome(classes, False)
    first_selected = selected[0] if selected else None
    unselected_before = any(not md['selected'] for md in case['mols'][:first_selected]) if selected else False
    if unselected_before:
        classes.append('unselected-first')
    if any(not md['selected'] for md in case['mols']):
        classes.append('has-unselected')
    if len(set(lens)) > 1:
        classes.append('unequal-lengths')
    if any(md['interleave'] for md in case['mols']):
        classes.append('interleaved-atoms')
    if any(md.get('numbering', 'ascending') != 'ascending' and case['mols'][i]['selected'] and len(md['residues']) > 1
           for i, md in enumerate(case['mols'])):
        classes.append('non-ascending-residue-ids')
    nontrivial = unselected_before and (len(set(lens)) > 1 or (mode == 'total' and len(lens) >= 1 and total >= 2))
    return Outcome(classes, nontrivial)


def _strategy_assign(tier):
    mol = st.fixed_dictionaries({
        'selected': st.booleans(),
        'protein_names': st.booleans(),
        'residues': st.lists(st.integers(1, 3), min_size=1, max_size=8),
        'interleave': st.booleans(),
        'key0': st.sampled_from([0, 0, 1, 10]),
        'keystep': st.sampled_from([1, 1, 3]),
        'resid0': st.sampled_from([1, 1, 5, 100]),
        'resid_step': st.sampled_from([1, 1, 2]),
        'chain': st.sampled_from(['A', 'B', '']),
        'numbering': st.sampled_from(['ascending', 'ascending', 'descending', 'wrap', 'icode']),
        'preset': st.booleans(),
    })
    same_len = st.integers(1, 6).flatmap(lambda n: st.lists(
        mol.map(lambda m: dict(m, residues=(m['residues'] * 8)[:n])), min_size=1, max_size=5))
    # selected molecules of unequal length whose first one has the mean length (4,3,5 / 2,1,3 / 5,5,2,8 ...)
    mean_first = st.tuples(st.integers(2, 6), st.integers(1, 5), st.integers(0, 4), st.lists(mol, min_size=4, max_size=4)).map(
        lambda t: [dict(t[3][0], selected=True, residues=[1] * t[0]),
                   dict(t[3][1], selected=True, residues=[1] * max(1, t[0] - min(t[1], t[0] - 1))),
                   dict(t[3][2], selected=True, residues=[1] * (t[0] + min(t[1], t[0] - 1)))]
        + ([dict(t[3][3], selected=False)] if t[2] == 0 else []))
    mols = st.one_of(st.lists(mol, min_size=1, max_size=6), st.lists(mol, min_size=1, max_size=6), same_len, mean_first)
    return st.fixed_dictionaries({
        'mols': mols,
        'selector': st.sampled_from(['protein', 'flag']),
        'seqmode': st.sampled_from(['total', 'total', 'total', 'per-mol', 'per-mol', 'one', 'off-by-one', 'empty', 'raw']),
        'delta': st.sampled_from([-1, 1, 2]),
        'rawlen': st.integers(0, 20),
        'seq': st.lists(st.sampled_from(list('HCETS')), min_size=1, max_size=12),
    })


PARTS = [
    Part('assign', _run_assign, strategy=_strategy_assign, examples={'quick': 6000, 'thorough': 150000},
         floors={'non-ascending-residue-ids': 0.1, 'unselected-first': 0.08, 'length-error': 0.1, 'unequal-lengths': 0.04, 'per-mol': 0.08, 'one': 0.04}),
    Part('dssp-enum', _run_enum, enumerate=_enum_dssp),
    Part('dssp-random', _run_dssp_random, strategy=_strategy_dssp_random, examples={'quick': 4000, 'thorough': 100000},
         floors={'runs-separated-by-one': 0.05, 'has-long-helix': 0.1, 'via-molecule': 0.2}),
    Part('assign-molecule', _run_assign_molecule, strategy=_strategy_assign_molecule, examples={'quick': 1600, 'thorough': 40000},
         floors={'length-error': 0.2, 'assigned': 0.2}),
    Part('dssp-system', _run_dssp_system, strategy=_strategy_dssp_system, examples={'quick': 1600, 'thorough': 40000},
         floors={'helix-at-both-sides-of-a-molecule-boundary': 0.1}),
]
