"""
C17  Per-residue annotations land on the intended residues and translate correctly.

assign      generated systems (selected / unselected molecules in any order) + sequences -> AnnotateResidues.run_system,
            expectation computed from the documented rules.
dssp-enum   every string over {H, C} up to a length bound -> convert_dssp_to_martini vs. a run-length reference (exhaustive).
dssp-random random strings over the full supported alphabet, directly and through AnnotateMartiniSecondaryStructures.
dssp-read   generated DSSP program output with chain-break ("!*") and in-chain-gap ("!") records -> read_dssp2.
dssp-annotate  AnnotateDSSP / annotate_dssp with a stand-in DSSP program on molecules with atoms lacking a position.
"""
import itertools

from hypothesis import strategies as st

from pbt.core import Part, Outcome, Violation

from vermouth.molecule import Molecule
from vermouth.system import System
from vermouth.dssp.dssp import (AnnotateResidues, AnnotateMartiniSecondaryStructures,
                                convert_dssp_to_martini)
from vermouth import selectors

PROPERTY = 'C17'
LEVEL = 'exploration'
RULE = ('assign: systems of 1-6 molecules (1-8 residues of 1-3 atoms, sparse increasing node keys, atoms of neighbouring residues '
        'optionally interleaved; residue numbers ascending, descending, wrapping at 9999 or with insertion codes), each molecule selected or not (by protein residue names or by a flag), sequences of length '
        'total / one molecule / 1 / off by one / empty / arbitrary; non-trivial = an unselected molecule precedes a selected one and '
        'the selected molecules differ in residue count or the sequence is per-residue for the whole selection. '
        'dssp-enum: all strings over {H,C} up to length 12 (quick) / 16 (thorough), enumerated completely; non-trivial = at least '
        'two helical runs. dssp-random: strings over 123HGIBETSC up to length 60; non-trivial = two helical runs separated by a '
        'single residue. assign-molecule: one molecule of 1-8 residues through annotate_residues_from_sequence or '
        'AnnotateResidues.run_molecule with a sequence of the right length, one element, or a wrong length, of equal or distinct '
        'elements; non-trivial = a wrong length with all elements equal. dssp-system: 2-5 molecules, each fully / not / partly annotated with its own DSSP string, translated by one '
        'AnnotateMartiniSecondaryStructures.run_system call (optionally twice); non-trivial = a molecule that ends in a helix is '
        'followed by one that starts with a helix. dssp-read: generated DSSP program output (1-5 segments of 1-8 residues, "!*" break '
        'records where the chain identifier changes, plain "!" records at a discontinuity inside a chain, three header versions, lines '
        'with or without new line characters) -> read_dssp2; non-trivial = a "!" record is present. dssp-annotate: 1-3 molecules '
        '(protein / other / without coordinates) of 1-7 residues of 1-5 atoms whose position is set, absent, None or non-finite, '
        'through AnnotateDSSP / annotate_dssp with a stand-in for the DSSP program that answers one class per residue it is given '
        '(directly or as program output read by read_dssp2); non-trivial = an annotated molecule has atoms without position or a '
        'residue without any coordinates makes the answer too short.')
ASSUMPTIONS = [
    'the k-th residue of a molecule is the k-th in order of first appearance; generated node keys increase with insertion order so that this coincides with the lowest-key order the library uses',
    'residues of one molecule have distinct (chain, resid, resname, insertion code)',
    'DSSP output format (versions 2/3): class in column 17, break records carry "!" in the amino-acid column 14, followed by "*" when the chain identifier changes',
    'a DSSP program answers one class per residue it is given; a molecule of which it saw exactly one residue is not judged (a one-element sequence is documented to be repeated)',
    'helix rewriting rules taken from the documented table: runs of 1-4 -> 3..., 5 -> 13332, 6 -> 113322, 7 -> 1113222, >= 8 -> 1111 H* 2222',
]

PROT = ['ALA', 'GLY', 'LYS', 'SER', 'TRP']
NONPROT = ['POPC', 'LIG', 'W', 'NA', 'HEM']
TABLE = {'1': 'H', '2': 'H', '3': 'H', 'H': 'H', 'G': 'H', 'I': 'H', 'B': 'E', 'E': 'E', 'T': 'T', 'S': 'S', 'C': 'C'}


# ---------------------------------------------------------------------------
# reference for DSSP -> Martini

def ref_convert(seq):
    mapped = [TABLE[c] for c in seq]
    out = []
    i = 0
    n = len(mapped)
    while i < n:
        if mapped[i] != 'H':
            out.append(mapped[i])
            i += 1
            continue
        j = i
        while j < n and mapped[j] == 'H':
            j += 1
        run = j - i
        if run <= 4:
            out.extend('3' * run)
        elif run == 5:
            out.extend('13332')
        elif run == 6:
            out.extend('113322')
        elif run == 7:
            out.extend('1113222')
        else:
            out.extend('1111' + 'H' * (run - 8) + '2222')
        i = j
    return ''.join(out)


def helical_runs(seq):
    runs = []
    cur = 0
    for c in seq:
        if TABLE[c] == 'H':
            cur += 1
        else:
            if cur:
                runs.append(cur)
            cur = 0
    if cur:
        runs.append(cur)
    return runs


def check_convert(seq, got):
    expected = ref_convert(seq)
    got = ''.join(got)
    if len(got) != len(seq):
        raise Violation('dssp-length', 'convert(%r) has length %d, input %d' % (seq, len(got), len(seq)))
    if got != expected:
        raise Violation('dssp-translation', 'convert(%r) = %r, documented rules give %r' % (seq, got, expected))


def _enum_dssp(tier, shard, nshards):
    maxlen = 12 if tier == 'quick' else 16
    idx = 0
    for n in range(0, maxlen + 1):
        for tup in itertools.product('HC', repeat=n):
            idx += 1
            if idx % nshards == shard:
                yield ''.join(tup)


def _run_enum(case):
    check_convert(case, convert_dssp_to_martini(case))
    runs = helical_runs(case)
    return Outcome(['has-long-helix'] if any(r >= 8 for r in runs) else [], len(runs) >= 2)


def _strategy_dssp_random(tier):
    alphabet = '123HGIBETSC'
    piece = st.one_of(
        st.integers(1, 12).map(lambda n: 'H' * n),
        st.text(alphabet='HGI123', min_size=1, max_size=10),
        st.text(alphabet='BETSC', min_size=1, max_size=3),
        st.sampled_from(['C', 'T', 'S', 'E']),
    )
    seq = st.one_of(st.lists(piece, max_size=12).map(''.join), st.text(alphabet=alphabet, max_size=60))
    return st.fixed_dictionaries({'seq': seq, 'via_molecule': st.booleans(), 'atoms_per_res': st.integers(1, 3)})


def _strategy_assign_molecule(tier):
    return st.fixed_dictionaries({
        'residues': st.lists(st.integers(1, 3), min_size=1, max_size=8),
        'len_mode': st.sampled_from(['equal', 'equal', 'one', 'short', 'long', 'double', 'empty']),
        'letters': st.sampled_from(['same', 'same', 'mixed']),
        'via': st.sampled_from(['function', 'processor', 'processor-not-selected']),
        'resid0': st.sampled_from([1, 5, 9998]), 'key0': st.sampled_from([0, 3]), 'keystep': st.sampled_from([1, 2]),
        'preset': st.booleans(),
    })


def _run_assign_molecule(case):
    """The per-molecule entry points (annotate_residues_from_sequence, AnnotateResidues.run_molecule): k-th element to the
    k-th residue, a one-element sequence is repeated, any other length mismatch is an error -- whatever the sequence holds."""
    from vermouth.dssp.dssp import annotate_residues_from_sequence
    nres = len(case['residues'])
    mol = Molecule()
    key = case['key0']
    layout = []
    for ridx, natoms in enumerate(case['residues']):
        row = []
        for a in range(natoms):
            attrs = dict(atomname='A%d' % a, resname='ALA', resid=(case['resid0'] + ridx) % 10000, chain='A')
            if case['preset']:
                attrs['secstruct'] = 'old'
            mol.add_node(key, **attrs)
            row.append(key)
            key += case['keystep']
        layout.append(row)
    n = {'equal': nres, 'one': 1, 'short': nres - 1, 'long': nres + 1, 'double': 2 * nres, 'empty': 0}[case['len_mode']]
    if case['letters'] == 'same':
        seq = ['C'] * n
    else:
        seq = ['HCETS'[i % 5] + str(i) for i in range(n)]
    if n == nres:
        expect = seq
    elif n == 1:
        expect = seq * nres
    else:
        expect = 'error'
    selected = case['via'] != 'processor-not-selected'
    before = {k: mol.nodes[k].get('secstruct', '<<absent>>') for k in mol.nodes}
    try:
        if case['via'] == 'function':
            annotate_residues_from_sequence(mol, 'secstruct', seq)
        else:
            AnnotateResidues('secstruct', seq, molecule_selector=lambda m: selected).run_molecule(mol)
    except ValueError:
        if expect != 'error' or not selected:
            raise Violation('molecule-assign-rejected', 'sequence of %d elements rejected for a molecule of %d residues' % (n, nres))
        if {k: mol.nodes[k].get('secstruct', '<<absent>>') for k in mol.nodes} != before:
            raise Violation('molecule-assign-partial', 'ValueError raised but attributes were changed')
        return Outcome(['length-error', 'letters-' + case['letters']], case['letters'] == 'same')
    if not selected:
        if {k: mol.nodes[k].get('secstruct', '<<absent>>') for k in mol.nodes} != before:
            raise Violation('molecule-assign-unselected-touched', 'a molecule the selector rejects was modified')
        return Outcome(['not-selected'], False)
    if expect == 'error':
        raise Violation('molecule-assign-accepted-mismatch', 'sequence %r (%d elements) accepted for a molecule of %d residues; '
                        'attributes now %r' % (seq, n, nres, [mol.nodes[row[0]].get('secstruct') for row in layout]))
    for ridx, row in enumerate(layout):
        for k in row:
            if mol.nodes[k].get('secstruct') != expect[ridx]:
                raise Violation('molecule-assign-misplaced', 'residue %d atom %r: got %r, expected %r' % (
                    ridx, k, mol.nodes[k].get('secstruct'), expect[ridx]))
    return Outcome(['assigned', 'letters-' + case['letters']], False)


def _strategy_dssp_system(tier):
    piece = st.one_of(
        st.integers(1, 9).map(lambda n: 'H' * n),
        st.text(alphabet='HGI123', min_size=1, max_size=6),
        st.text(alphabet='BETSC', min_size=1, max_size=3),
    )
    seq = st.lists(piece, min_size=1, max_size=5).map(''.join)
    mol = st.fixed_dictionaries({'seq': seq, 'annotated': st.sampled_from(['full', 'full', 'full', 'full', 'full', 'none', 'partial']),
                                 'atoms_per_res': st.integers(1, 2), 'hole': st.integers(0, 50),
                                 # node keys handed out against the order in which the atoms are stored: the residue order of
                                 # the library (lowest node key first) is then the reverse of the storage order
                                 'keys_descending': st.sampled_from([False, False, True]),
                                 'other_names': st.sampled_from([False, False, True])})
    return st.fixed_dictionaries({'mols': st.lists(mol, min_size=2, max_size=5), 'twice': st.booleans()})


def _run_dssp_system(case):
    """Several molecules, each with its own DSSP string: every molecule is translated on its own (a helix never continues
    into the next molecule), molecules without any DSSP annotation are left alone, a partly annotated one is an error."""
    system = System()
    system.meta['header'] = []
    layout = []
    for mi, md in enumerate(case['mols']):
        mol = Molecule()
        seq = md['seq']
        descending = md.get('keys_descending', False)
        key = 3 * len(seq) * md['atoms_per_res'] if descending else 0
        hole = md['hole'] % len(seq)
        keys = []
        for ridx, c in enumerate(seq):
            row = []
            for a in range(md['atoms_per_res']):
                # residue names: amino acids, or a molecule that is not (only) made of them (capped or modified peptide, ligand)
                resname = 'ALA' if not md.get('other_names') else ['ALA', 'SEP', 'LIG', 'ACE'][(ridx + md['hole']) % 4]
                attrs = dict(atomname='A%d' % a, resname=resname, resid=ridx + 1, chain='ABCDE'[mi])
                if md['annotated'] == 'full' or (md['annotated'] == 'partial' and ridx != hole):
                    attrs['aasecstruct'] = c
                mol.add_node(key, **attrs)
                row.append(key)
                key += -3 if descending else 3
            keys.append(row)
        layout.append(keys)
        system.molecules.append(mol)
    partial = any(md['annotated'] == 'partial' and len(md['seq']) > 1 for md in case['mols'])
    # a one-residue molecule whose only residue lacks the annotation is an un-annotated molecule
    processor = AnnotateMartiniSecondaryStructures()
    try:
        processor.run_system(system)
        if case['twice']:
            processor.run_system(system)
    except ValueError:
        if not partial:
            raise Violation('dssp-system-rejected', 'ValueError although every molecule is fully annotated or not at all: %r' % (
                [(md['seq'], md['annotated']) for md in case['mols']],))
        return Outcome(['partly-annotated-molecule'], False)
    if partial:
        raise Violation('dssp-system-partial-accepted', 'a molecule with DSSP classes on only some residues was accepted')
    junction = False
    previous_helix_end = False
    for mi, (md, mol, keys) in enumerate(zip(case['mols'], system.molecules, layout)):
        seq = md['seq']
        full = md['annotated'] == 'full'
        if md.get('keys_descending'):
            # the residues in the order of their lowest node key are the stored ones backwards
            expected = ref_convert(seq[::-1])[::-1] if full else None
        else:
            expected = ref_convert(seq) if full else None
        for ridx, row in enumerate(keys):
            for key in row:
                got = mol.nodes[key].get('cgsecstruct')
                want = expected[ridx] if full else None
                if got != want:
                    raise Violation('dssp-system', 'molecule %d (%r, %s) residue %d: cgsecstruct %r, expected %r; sequences of the system: %r' % (
                        mi, seq, md['annotated'], ridx, got, want, [(m['seq'], m['annotated']) for m in case['mols']]))
        if full:
            if previous_helix_end and TABLE[seq[0]] == 'H':
                junction = True
            previous_helix_end = TABLE[seq[-1]] == 'H'
    classes = []
    if junction:
        classes.append('helix-at-both-sides-of-a-molecule-boundary')
    if any(md['annotated'] != 'full' for md in case['mols']):
        classes.append('has-unannotated-molecule')
    if any(md.get('other_names') and md['annotated'] == 'full' for md in case['mols']):
        classes.append('annotated-molecule-with-other-residue-names')
    if any(md.get('keys_descending') and md['annotated'] == 'full' and ref_convert(md['seq'][::-1])[::-1] != ref_convert(md['seq'])
           for md in case['mols']):
        classes.append('storage-order-against-key-order-matters')
    return Outcome(classes, junction)


# ---------------------------------------------------------------------------
# DSSP program output -> read_dssp2, and the DSSP annotation of molecules (AnnotateDSSP with a stand-in for the executable)

DSSP_TAIL = '   0   0    0      0, 0.0     0, 0.0     0, 0.0     0, 0.0   0.000 360.0 360.0 360.0 360.0    0.0    0.0    0.0'
DSSP_FIRST = ['==== Secondary Structure Definition by the program DSSP, CMBI version 2.0                          ==== DATE=2022-07-15        .',
              '==== Secondary Structure Definition by the program DSSP, CMBI version 2.2.1                        ==== DATE=2020-01-01        .',
              '==== Secondary Structure Definition by the program DSSP, NKI version 3.0                           ==== DATE=2019-03-05        .']
DSSP_MIDDLE = ['REFERENCE W. KABSCH AND C.SANDER, BIOPOLYMERS 22 (1983) 2577-2637                                                              .',
               'HEADER    HORMONE                                 13-APR-09   3I40                                                             .',
               '   51  2  3  3  0 TOTAL NUMBER OF RESIDUES, NUMBER OF CHAINS, NUMBER OF SS-BRIDGES(TOTAL,INTRACHAIN,INTERCHAIN)                .',
               '  3.9   ACCESSIBLE SURFACE OF PROTEIN (ANGSTROM**2)                                                                            .',
               '  1  2  3  4  5  6  7  8  9 10 11 12 13 14 15 16 17 18 19 20 21 22 23 24 25 26 27 28 29 30     *** HISTOGRAMS OF ***           .',
               '  0  0  0  0  0  0  0  0  0  0  0  0  0  0  0  0  0  0  0  0  0  0  0  0  0  0  0  0  0  0    RESIDUES PER ALPHA HELIX         .']
DSSP_COLUMNS = '  #  RESIDUE AA STRUCTURE BP1 BP2  ACC     N-H-->O    O-->H-N    N-H-->O    O-->H-N    TCO  KAPPA ALPHA  PHI   PSI    X-CA   Y-CA   Z-CA'


def dssp_text(records, first=0, middle=0, newlines=False, final_empty=True):
    """The output of the DSSP program (format of versions 2 and 3, http://swift.cmbi.ru.nl/gv/dssp/DSSP_3.html) for `records`:
    (resid, insertion code, chain, amino acid letter, class or ' ', 8 further characters of the STRUCTURE block) for a residue,
    '!*' for a break with a change of chain identifier, '!' for a discontinuity inside a chain. Break records are numbered
    like residues in the first column but are not residues."""
    lines = [DSSP_FIRST[first]] + DSSP_MIDDLE[:middle] + [DSSP_COLUMNS]
    for num, record in enumerate(records, start=1):
        if record in ('!', '!*'):
            line = '%5d        %-2s' % (num, record) + ' ' * 10 + DSSP_TAIL
        else:
            resid, icode, chain, aa, ss, detail = record
            line = '%5d%5d%1s%1s %1s  %1s%-8s' % (num, resid, icode or ' ', chain or ' ', aa, ss, detail) + DSSP_TAIL
        lines.append(line)
    if newlines:
        # as read from a file handle
        return [line + '\n' for line in lines]
    if final_empty:
        # as produced by splitting the standard output of the program at the new lines
        lines.append('')
    return lines


def _strategy_dssp_read(tier):
    ss = st.text(alphabet='HBEGITS   ', min_size=1, max_size=8)
    segment = st.fixed_dictionaries({
        'new_chain': st.sampled_from([False, False, True]),
        'gap': st.integers(2, 30), 'start': st.sampled_from([1, 1, 2, 17, 998]),
        'ss': ss, 'aa': st.text(alphabet='ACDEFGHIKLMNPQRSTVWYXab', min_size=1, max_size=3),
        'detail': st.text(alphabet=' ><X345S+-aAbB', max_size=8), 'icode': st.sampled_from(['', '', '', 'A']),
    })
    return st.fixed_dictionaries({
        'segments': st.lists(segment, min_size=1, max_size=5),
        'chains': st.sampled_from(['ABCDE', 'AXBYC', 'BAbaD', '1234A']),
        'first': st.integers(0, len(DSSP_FIRST) - 1), 'middle': st.integers(0, len(DSSP_MIDDLE)),
        'newlines': st.sampled_from([False, False, True]), 'final_empty': st.booleans(),
    })


def _dssp_read_records(case):
    records = []
    expected = []
    breaks = []
    chain_idx = 0
    resid = None
    for sidx, seg in enumerate(case['segments']):
        if sidx == 0 or seg['new_chain']:
            if sidx:
                chain_idx += 1
                records.append('!*')
                breaks.append('!*')
            resid = seg['start']
        else:
            records.append('!')
            breaks.append('!')
            resid += seg['gap']
        for i, c in enumerate(seg['ss']):
            aa = seg['aa'][i % len(seg['aa'])]
            records.append((resid, seg['icode'], case['chains'][chain_idx], aa, c, seg['detail']))
            expected.append('C' if c == ' ' else c)
            resid += 1
    return records, expected, breaks


def _run_dssp_read(case):
    """read_dssp2 on generated program output: one element per residue line, the k-th being the class of the k-th residue
    (blank = 'C'); break records ('!*' between chains, '!' inside a chain) are not residues."""
    from vermouth.dssp.dssp import read_dssp2
    records, expected, breaks = _dssp_read_records(case)
    lines = dssp_text(records, case['first'], case['middle'], case['newlines'], case['final_empty'])
    try:
        found = list(read_dssp2(lines))
    except IOError as error:
        raise Violation('dssp-read-rejected', 'valid DSSP output rejected (%s); residue table: %r' % (error, records))
    if found != expected:
        bucket = 'dssp-read-length' if len(found) != len(expected) else 'dssp-read-class'
        raise Violation(bucket, 'read_dssp2 returned %r (%d elements) for %d residues with classes %r; breaks %r' % (
            ''.join(found), len(found), len(expected), ''.join(expected), breaks))
    classes = []
    if '!' in breaks:
        classes.append('in-chain-break')
    if '!*' in breaks:
        classes.append('chain-break')
    if not breaks:
        classes.append('no-break')
    if case['newlines']:
        classes.append('lines-with-newline')
    # non-trivial: something follows a discontinuity inside a chain, so that a mis-read break shifts or lengthens the answer
    return Outcome(classes, '!' in breaks)


POSITION_MODES = ['ok', 'ok', 'ok', 'ok', 'ok', 'absent', 'none', 'nan', 'inf']
BACKBONE = ['N', 'CA', 'C', 'O', 'CB', 'CG']


def _strategy_dssp_annotate(tier):
    residue = st.fixed_dictionaries({
        'ss': st.sampled_from(list('HHEEBGITSC')),
        'atoms': st.lists(st.sampled_from(POSITION_MODES), min_size=1, max_size=5),
        # a residue without any coordinates (not resolved, or built afterwards)
        'blank': st.sampled_from([False] * 9 + [True]),
        'jump': st.sampled_from([1, 1, 1, 1, 4]),
    })
    mol = st.fixed_dictionaries({
        'kind': st.sampled_from(['protein', 'protein', 'protein', 'protein', 'other', 'no-coordinates']),
        'residues': st.lists(residue, min_size=1, max_size=7),
        'all_positions': st.booleans(),
        'key0': st.sampled_from([0, 2]), 'keystep': st.sampled_from([1, 3]), 'resid0': st.sampled_from([1, 7, 9995]),
    })
    return st.fixed_dictionaries({'mols': st.lists(mol, min_size=1, max_size=3), 'via_text': st.booleans(),
                                  'entry': st.sampled_from(['processor', 'processor', 'function'])})


def _run_dssp_annotate(case):
    """AnnotateDSSP / annotate_dssp with a stand-in for the DSSP program that, like the program, answers one class per residue
    it is given. Documented: only atoms with a position are passed on; non-protein molecules and molecules without any
    position are left alone. C17: the k-th class goes to EVERY atom of the k-th residue of the molecule (with or without
    coordinates); an answer that is shorter than the molecule (a residue without any coordinates) is an error, not a
    shifted or partial assignment."""
    import numpy as np
    from vermouth.dssp.dssp import AnnotateDSSP, annotate_dssp, read_dssp2
    chains = 'ABC'
    mols = []
    layout = []      # per molecule: per residue: list of (key, has position)
    table = {}       # (chain, resid) -> class the program finds for that residue
    for mi, md in enumerate(case['mols']):
        mol = Molecule()
        key = md['key0']
        resid = md['resid0']
        rows = []
        for ridx, rd in enumerate(md['residues']):
            resid += rd['jump']
            row = []
            for aidx, mode in enumerate(rd['atoms']):
                if md['kind'] == 'no-coordinates' or (rd['blank'] and mode == 'ok'):
                    mode = ['absent', 'none', 'nan', 'inf'][(aidx + ridx) % 4]
                elif md['all_positions']:
                    mode = 'ok'
                attrs = dict(atomname=BACKBONE[aidx], resname='LIG' if md['kind'] == 'other' else PROT[(ridx + mi) % len(PROT)],
                             resid=resid, chain=chains[mi], element=BACKBONE[aidx][0], atomid=key + 1)
                if mode == 'ok':
                    attrs['position'] = np.array([0.1 * key, 0.05 * aidx, 0.0])
                elif mode == 'none':
                    attrs['position'] = None
                elif mode == 'nan':
                    attrs['position'] = np.array([0.1 * key, float('nan'), 0.0])
                elif mode == 'inf':
                    attrs['position'] = np.array([float('inf'), 0.0, 0.0])
                mol.add_node(key, **attrs)
                row.append((key, mode == 'ok'))
                key += md['keystep']
            table[(chains[mi], resid)] = rd['ss']
            rows.append(row)
        keys = list(mol.nodes)
        for a, b in zip(keys[:-1], keys[1:]):
            mol.add_edge(a, b)
        mols.append(mol)
        layout.append(rows)

    calls = []

    def program(system):
        if len(system.molecules) != 1:
            raise Violation('dssp-annotate-call', 'the DSSP callable received %d molecules' % len(system.molecules))
        received = system.molecules[0]
        residues = {}
        for k in received.nodes:
            node = received.nodes[k]
            position = node.get('position')
            if position is None or not all(float(x) == float(x) and abs(float(x)) != float('inf') for x in position):
                raise Violation('dssp-annotate-unpositioned-atom-passed', 'atom %r without a usable position was passed to DSSP' % (k,))
            residues.setdefault((node['chain'], node['resid']), []).append(k)
        ordered = sorted(residues, key=lambda ident: min(residues[ident]))
        calls.append((ordered[0][0] if ordered else None, sorted(received.nodes)))
        answer = [table[ident] for ident in ordered]
        if not case['via_text']:
            return answer
        records = []
        for i, ident in enumerate(ordered):
            if i and ident[1] != ordered[i - 1][1] + 1:
                records.append('!')
            records.append((ident[1], '', ident[0], 'A', ' ' if table[ident] == 'C' else table[ident], ''))
        return read_dssp2(dssp_text(records))

    def attributes(mol):
        return {k: mol.nodes[k].get('aasecstruct', '<<absent>>') for k in mol.nodes}

    expectations = []
    for md, rows in zip(case['mols'], layout):
        seen = [any(has for _, has in row) for row in rows]
        if md['kind'] == 'other' or not any(seen):
            expectations.append('untouched')
        elif all(seen):
            expectations.append('annotated')
        elif sum(seen) == 1:
            expectations.append('one-seen')   # a one-element sequence is documented to be repeated; either outcome is accepted
        else:
            expectations.append('error')
    processor = AnnotateDSSP(executable=program)
    classes = []
    whole_system = case['entry'] == 'processor' and all(e in ('untouched', 'annotated') for e in expectations)
    system = System()
    system.meta['header'] = []
    system.molecules = mols
    if whole_system:
        processor.run_system(system)
        classes.append('run-system')
    for mi, (mol, rows, expect) in enumerate(zip(mols, layout, expectations)):
        ncalls = len(calls)
        before = attributes(mol)
        raised = False
        if not whole_system:
            try:
                if case['entry'] == 'function':
                    annotate_dssp(mol, program)
                else:
                    processor.run_molecule(mol)
            except ValueError:
                raised = True
            if expect == 'untouched' and len(calls) != ncalls:
                raise Violation('dssp-annotate-called-for-nothing', 'DSSP was run on molecule %d (%s)' % (mi, case['mols'][mi]['kind']))
        seq = [rd['ss'] for rd in case['mols'][mi]['residues']]
        after = attributes(mol)
        if raised:
            if expect not in ('error', 'one-seen'):
                raise Violation('dssp-annotate-rejected', 'ValueError for molecule %d although DSSP answered one class per residue (%r)' % (mi, seq))
            if after != before:
                raise Violation('dssp-annotate-partial', 'ValueError raised but attributes were changed')
            classes.append('residue-without-coordinates-error')
            continue
        if expect == 'error':
            raise Violation('dssp-annotate-accepted-mismatch', 'molecule %d has %d residues, DSSP saw and answered %d, no error; attributes per residue now %r' % (
                mi, len(rows), sum(any(h for _, h in row) for row in rows), [[after[k] for k, _ in row] for row in rows]))
        if expect == 'untouched':
            if after != before or any(v != '<<absent>>' for v in after.values()):
                raise Violation('dssp-annotate-untouched', 'molecule %d (%s) was modified' % (mi, case['mols'][mi]['kind']))
            classes.append('molecule-left-alone')
            continue
        if expect == 'one-seen':
            only = [rd['ss'] for rd, row in zip(case['mols'][mi]['residues'], rows) if any(h for _, h in row)][0]
            seq = [only] * len(rows)
        positioned = sorted(k for row in rows for k, has in row if has)
        mine = [c for c in calls if c[0] == chains[mi]]
        if len(mine) != 1 or mine[0][1] != positioned:
            raise Violation('dssp-annotate-input', 'molecule %d: DSSP calls %r, atoms with a position %r' % (mi, mine, positioned))
        for ridx, row in enumerate(rows):
            for k, has in row:
                if after[k] != seq[ridx]:
                    raise Violation('dssp-annotate-misplaced', 'molecule %d residue %d atom %r (%s position): aasecstruct %r, class of that '
                                    'residue %r; per residue: %r' % (mi, ridx, k, 'with' if has else 'without', after[k], seq[ridx],
                                                                     [[after[x] for x, _ in r] for r in rows]))
        classes.append('annotated')
        if any(not has for row in rows for _, has in row):
            classes.append('annotated-with-atoms-without-position')
        if any(not row[0][1] for row in rows):
            classes.append('first-atom-of-a-residue-without-position')
    if whole_system:
        # the translation that follows in the pipeline
        AnnotateMartiniSecondaryStructures().run_system(system)
        for mi, (mol, rows, expect) in enumerate(zip(mols, layout, expectations)):
            want = ref_convert(''.join(rd['ss'] for rd in case['mols'][mi]['residues'])) if expect == 'annotated' else None
            for ridx, row in enumerate(rows):
                for k, _ in row:
                    got = mol.nodes[k].get('cgsecstruct')
                    if got != (want[ridx] if want else None):
                        raise Violation('dssp-annotate-translation', 'molecule %d residue %d atom %r: cgsecstruct %r, expected %r' % (
                            mi, ridx, k, got, want[ridx] if want else None))
    classes = sorted(set(classes))
    if case['via_text']:
        classes.append('via-text')
    nontrivial = 'annotated-with-atoms-without-position' in classes or 'residue-without-coordinates-error' in classes
    return Outcome(classes, nontrivial)


def _run_dssp_random(case):
    seq = case['seq']
    classes = []
    if case['via_molecule'] and seq:
        mol = Molecule()
        key = 0
        for ridx, c in enumerate(seq):
            for a in range(case['atoms_per_res']):
                mol.add_node(key, atomname='A%d' % a, resname='ALA', resid=ridx + 1, chain='A', aasecstruct=c)
                key += 2
        system = System()
        system.meta['header'] = []
        system.molecules = [mol]
        AnnotateMartiniSecondaryStructures().run_system(system)
        expected = ref_convert(seq)
        key = 0
        for ridx in range(len(seq)):
            for a in range(case['atoms_per_res']):
                got = mol.nodes[key].get('cgsecstruct')
                if got != expected[ridx]:
                    raise Violation('dssp-annotation', 'residue %d atom %d of %r: cgsecstruct %r, expected %r' % (
                        ridx, a, seq, got, expected[ridx]))
                if mol.nodes[key].get('aasecstruct') != seq[ridx]:
                    raise Violation('dssp-annotation', 'aasecstruct changed')
                key += 2
        classes.append('via-molecule')
    else:
        check_convert(seq, convert_dssp_to_martini(seq))
    runs = helical_runs(seq)
    sep_one = False
    mapped = ''.join('H' if TABLE[c] == 'H' else '.' for c in seq)
    if 'H.H' in mapped:
        sep_one = True
        classes.append('runs-separated-by-one')
    if any(r >= 8 for r in runs):
        classes.append('has-long-helix')
    if any(c in '123GI' for c in seq):
        classes.append('non-H-helix-class')
    return Outcome(classes, sep_one and len(runs) >= 2)


# ---------------------------------------------------------------------------
# assignment

def build_system(case):
    mols = []
    layout = []
    for mi, md in enumerate(case['mols']):
        mol = Molecule()
        mol.meta['flag'] = bool(md['selected'])
        names = PROT if (md['selected'] or case['selector'] == 'flag' and md['protein_names']) else NONPROT
        if case['selector'] == 'protein':
            names = PROT if md['selected'] else NONPROT
        key = md['key0']
        residues = []
        nres = len(md['residues'])
        order = []
        for ridx, natoms in enumerate(md['residues']):
            order.append([(ridx, a) for a in range(natoms)])
        flat = []
        if md['interleave']:
            # interleave atoms of residue pairs (0,1), (2,3)...: first appearance order stays 0,1,2,...
            for i in range(0, nres, 2):
                a = order[i]
                b = order[i + 1] if i + 1 < nres else []
                merged = []
                for j in range(max(len(a), len(b))):
                    if j < len(a):
                        merged.append(a[j])
                    if j < len(b):
                        merged.append(b[j])
                flat.extend(merged)
        else:
            for o in order:
                flat.extend(o)
        per_res = [[] for _ in range(nres)]
        for ridx, a in flat:
            # residue numbering: ascending, descending, wrapping (9999 -> 0) or with insertion codes (same number, codes in
            # an order that is not alphabetical): the k-th residue is the k-th in the molecule, never the k-th when sorted
            scheme = md.get('numbering', 'ascending')
            if scheme == 'descending':
                resid, icode = md['resid0'] + (nres - ridx) * md['resid_step'], None
            elif scheme == 'wrap':
                resid, icode = (9998 + ridx) % 10000, None
            elif scheme == 'icode':
                resid, icode = md['resid0'] + ridx // 3, ['', 'B', 'A'][ridx % 3]
            else:
                resid, icode = md['resid0'] + ridx * md['resid_step'], None
            attrs = {'atomname': 'A%d' % a, 'resname': names[(ridx + mi) % len(names)], 'resid': resid,
                     'chain': md['chain']}
            if icode:
                attrs['insertion_code'] = icode
            if not md['selected'] and md['preset']:
                attrs['secstruct'] = 'preset-%d-%d' % (mi, ridx)
            mol.add_node(key, **attrs)
            per_res[ridx].append(key)
            key += md['keystep']
        keys = list(mol.nodes)
        for a, b in zip(keys[:-1], keys[1:]):
            mol.add_edge(a, b)
        mols.append(mol)
        layout.append(per_res)
    system = System()
    system.molecules = mols
    return system, layout


def snapshot(system, attribute):
    return [[(k, mol.nodes[k].get(attribute, '<<absent>>')) for k in mol.nodes] for mol in system.molecules]


def _expected(seq, selected, lens):
    n = len(seq)
    total = sum(lens)
    if n and not selected:
        return 'error'
    if lens and n == lens[0] and len(set(lens)) == 1:
        return [seq for _ in lens]
    if n == 1:
        return [[seq[0]] * l for l in lens]
    if n == total:
        expect = []
        pos = 0
        for l in lens:
            expect.append(seq[pos:pos + l])
            pos += l
        return expect
    return 'error'


def _apply_and_check(processor, case, seq, sequence, prefix=''):
    """Build the system of `case`, run the (possibly already used) processor on it and compare with the documented rules.
    Returns 'error' or 'assigned'."""
    system, layout = build_system(case)
    selected = [i for i, md in enumerate(case['mols']) if md['selected']]
    lens = [len(case['mols'][i]['residues']) for i in selected]
    total = sum(lens)
    n = len(seq)
    expect = _expected(seq, selected, lens)
    before = snapshot(system, 'secstruct')
    try:
        processor.run_system(system)
    except ValueError:
        if expect != 'error':
            raise Violation(prefix + 'assign-rejected', 'valid sequence of length %d rejected for selected residue counts %r' % (n, lens))
        after = snapshot(system, 'secstruct')
        if after != before:
            raise Violation(prefix + 'assign-partial', 'ValueError raised but attributes were changed')
        return 'error'
    if expect == 'error':
        raise Violation(prefix + 'assign-accepted-mismatch', 'sequence of length %d accepted for selected residue counts %r (total %d)' % (n, lens, total))
    after = snapshot(system, 'secstruct')
    for mi, mol in enumerate(system.molecules):
        if mi not in selected:
            if after[mi] != before[mi]:
                raise Violation(prefix + 'assign-unselected-touched', 'unselected molecule %d was modified: %r -> %r' % (mi, before[mi][:4], after[mi][:4]))
            continue
        exp = expect[selected.index(mi)]
        for ridx, keys in enumerate(layout[mi]):
            for k in keys:
                got = mol.nodes[k].get('secstruct', '<<absent>>')
                if got != exp[ridx]:
                    raise Violation(prefix + 'assign-misplaced', 'molecule %d residue %d atom %r: got %r, expected %r (sequence %r, selected residue counts %r)' % (
                        mi, ridx, k, got, exp[ridx], sequence, lens))
    return 'assigned'


def _run_assign(case):
    system, layout = build_system(case)
    selected = [i for i, md in enumerate(case['mols']) if md['selected']]
    lens = [len(case['mols'][i]['residues']) for i in selected]
    total = sum(lens)
    mode = case['seqmode']
    pool = case['seq']
    if mode == 'total':
        n = total
    elif mode == 'per-mol':
        n = lens[0] if lens else 0
    elif mode == 'one':
        n = 1
    elif mode == 'off-by-one':
        n = max(0, total + case['delta'])
    elif mode == 'empty':
        n = 0
    else:
        n = case['rawlen']
    seq = [pool[i % len(pool)] + str(i) if case['selector'] == 'flag' else pool[i % len(pool)] for i in range(n)]
    if case['selector'] == 'protein':
        sequence = ''.join(seq)
        selector = selectors.is_protein
    else:
        sequence = list(seq)
        selector = lambda mol: mol.meta.get('flag', False)  # noqa: E731
    processor = AnnotateResidues('secstruct', sequence, molecule_selector=selector)
    classes = [mode]
    outcome = _apply_and_check(processor, case, seq, sequence)
    # the same processor object on a second, differently sized system: the sequence it was created with still decides
    mols2 = [dict(md) for md in reversed(case['mols'])]
    if len(mols2) > 1:
        mols2 = mols2[:-1]
    else:
        mols2[0] = dict(mols2[0], residues=list(mols2[0]['residues']) + [1])
    case2 = dict(case, mols=mols2)
    outcome2 = _apply_and_check(processor, case2, seq, sequence, prefix='reuse:')
    classes.append('reuse-' + outcome2)
    if outcome == 'error':
        classes.append('length-error')
        return Outcome(classes, False)
    first_selected = selected[0] if selected else None
    unselected_before = any(not md['selected'] for md in case['mols'][:first_selected]) if selected else False
    if unselected_before:
        classes.append('unselected-first')
    if any(not md['selected'] for md in case['mols']):
        classes.append('has-unselected')
    if len(set(lens)) > 1:
        classes.append('unequal-lengths')
    if any(md['interleave'] for md in case['mols']):
        classes.append('interleaved-atoms')
    if any(md.get('numbering', 'ascending') != 'ascending' and case['mols'][i]['selected'] and len(md['residues']) > 1
           for i, md in enumerate(case['mols'])):
        classes.append('non-ascending-residue-ids')
    nontrivial = unselected_before and (len(set(lens)) > 1 or (mode == 'total' and len(lens) >= 1 and total >= 2))
    return Outcome(classes, nontrivial)


def _strategy_assign(tier):
    mol = st.fixed_dictionaries({
        'selected': st.booleans(),
        'protein_names': st.booleans(),
        'residues': st.lists(st.integers(1, 3), min_size=1, max_size=8),
        'interleave': st.booleans(),
        'key0': st.sampled_from([0, 0, 1, 10]),
        'keystep': st.sampled_from([1, 1, 3]),
        'resid0': st.sampled_from([1, 1, 5, 100]),
        'resid_step': st.sampled_from([1, 1, 2]),
        'chain': st.sampled_from(['A', 'B', '']),
        'numbering': st.sampled_from(['ascending', 'ascending', 'descending', 'wrap', 'icode']),
        'preset': st.booleans(),
    })
    same_len = st.integers(1, 6).flatmap(lambda n: st.lists(
        mol.map(lambda m: dict(m, residues=(m['residues'] * 8)[:n])), min_size=1, max_size=5))
    # selected molecules of unequal length whose first one has the mean length (4,3,5 / 2,1,3 / 5,5,2,8 ...)
    mean_first = st.tuples(st.integers(2, 6), st.integers(1, 5), st.integers(0, 4), st.lists(mol, min_size=4, max_size=4)).map(
        lambda t: [dict(t[3][0], selected=True, residues=[1] * t[0]),
                   dict(t[3][1], selected=True, residues=[1] * max(1, t[0] - min(t[1], t[0] - 1))),
                   dict(t[3][2], selected=True, residues=[1] * (t[0] + min(t[1], t[0] - 1)))]
        + ([dict(t[3][3], selected=False)] if t[2] == 0 else []))
    mols = st.one_of(st.lists(mol, min_size=1, max_size=6), st.lists(mol, min_size=1, max_size=6), same_len, mean_first)
    return st.fixed_dictionaries({
        'mols': mols,
        'selector': st.sampled_from(['protein', 'flag']),
        'seqmode': st.sampled_from(['total', 'total', 'total', 'per-mol', 'per-mol', 'one', 'off-by-one', 'empty', 'raw']),
        'delta': st.sampled_from([-1, 1, 2]),
        'rawlen': st.integers(0, 20),
        'seq': st.lists(st.sampled_from(list('HCETS')), min_size=1, max_size=12),
    })


PARTS = [
    Part('assign', _run_assign, strategy=_strategy_assign, examples={'quick': 6000, 'thorough': 150000},
         floors={'non-ascending-residue-ids': 0.1, 'unselected-first': 0.08, 'length-error': 0.1, 'unequal-lengths': 0.04, 'per-mol': 0.08, 'one': 0.04}),
    Part('dssp-enum', _run_enum, enumerate=_enum_dssp),
    Part('dssp-random', _run_dssp_random, strategy=_strategy_dssp_random, examples={'quick': 4000, 'thorough': 100000},
         floors={'runs-separated-by-one': 0.05, 'has-long-helix': 0.1, 'via-molecule': 0.2}),
    Part('assign-molecule', _run_assign_molecule, strategy=_strategy_assign_molecule, examples={'quick': 1600, 'thorough': 40000},
         floors={'length-error': 0.2, 'assigned': 0.2}),
    Part('dssp-system', _run_dssp_system, strategy=_strategy_dssp_system, examples={'quick': 1600, 'thorough': 40000},
         floors={'helix-at-both-sides-of-a-molecule-boundary': 0.1}),
    Part('dssp-read', _run_dssp_read, strategy=_strategy_dssp_read, examples={'quick': 1600, 'thorough': 40000},
         floors={'in-chain-break': 0.2, 'chain-break': 0.15}),
    Part('dssp-annotate', _run_dssp_annotate, strategy=_strategy_dssp_annotate, examples={'quick': 1600, 'thorough': 40000},
         floors={'annotated-with-atoms-without-position': 0.1, 'residue-without-coordinates-error': 0.03}),
]
