"""
C16  Structure files round-trip: what is written is read back.

write_pdb -> read_pdb and write_gro -> read_gro on generated systems, with an
independent expectation per field (value if it fits the column, otherwise a
truncation of that field only), fixed-column checks on the text itself, and
for systems within five-digit serials exact CONECT / TER round trip.
"""
import math
import os
import shutil
import tempfile

import numpy as np
from hypothesis import strategies as st

from pbt.core import Part, Outcome, Violation

from vermouth.molecule import Molecule
from vermouth.system import System
from vermouth.pdb.pdb import write_pdb, read_pdb
from vermouth.gmx.gro import write_gro, read_gro

PROPERTY = 'C16'
LEVEL = 'exploration'
RULE = ('systems of 1-6 molecules built from explicit atom lists (names of 1-7 chars, resids incl. negative / 9999 / 10000 / 123456, '
        'chains of 0-2 chars, insertion codes, coordinates on a 1e-3 grid across and beyond the column range) optionally tiled to '
        'reach 9990-10010 (and in the thorough tier 99990-100010) atoms, with chain/star/random bond patterns up to degree 9; atom '
        'numbers absent / increasing / permuted / on some atoms only; written '
        'with write_pdb / write_gro and read back; non-trivial = some field is at or beyond its column width, or there are bonds at '
        'serials >= 10000; distinct by hash of the case description')
ASSUMPTIONS = [
    'names contain no whitespace and no "."; alternate-location is not set (the reader drops non-A altlocs by design)',
    'atom ids are absent, increase with node order, are a permutation of it, or are present on some atoms of a molecule only; '
    'they are distinct within a molecule. "In the same order" is the order the writers share: numbered atoms by atom number, '
    'then the unnumbered ones in node order; besides, the PDB and the GRO file of one system are compared record by record',
    'no bonds between different molecules (the PDB reader merges such molecules by design)',
    'a truncated field may keep either its leading or its trailing characters; which one is not prescribed by the statement',
    'readers are called with exclude=() so that residue name SOL is not filtered',
]

PDB_LINE_LEN = 80


def expand(case):
    """Build the real molecules + a flat expectation list from the case."""
    mols = []
    expected = []   # per molecule: list of atom dicts IN WRITTEN ORDER; edges as set of (i,j) ordinals in that order
    info = {}
    for mdesc in case['mols']:
        mol = Molecule()
        atoms = mdesc['atoms']
        tiles = mdesc.get('tiles', 1)
        n_tile = len(atoms)
        exp_atoms = []
        key = mdesc.get('key0', 0)
        step = mdesc.get('keystep', 1)
        keys = []
        for t in range(tiles):
            for a in atoms:
                pos = [(c + t * mdesc.get('tile_shift', 0)) / 1000.0 for c in a['pos']]
                attrs = {
                    'atomname': a['name'], 'resname': a['resname'],
                    'resid': a['resid'] + t * mdesc.get('resid_step', 0),
                    'position': np.array(pos, dtype=float),
                }
                if a.get('chain') is not None:
                    attrs['chain'] = a['chain']
                if a.get('icode') is not None:
                    attrs['insertion_code'] = a['icode']
                if a.get('element') is not None:
                    attrs['element'] = a['element']
                if case.get('velocities'):
                    attrs['velocity'] = np.array([c / 10000.0 for c in a.get('vel', [0, 0, 0])], dtype=float)
                aid = _atomid(mdesc, len(keys) % n_tile, t, n_tile, len(keys))
                if aid is not None:
                    attrs['atomid'] = aid
                mol.add_node(key, **attrs)
                keys.append(key)
                exp_atoms.append(attrs)
                key += step
        edges = set()
        for t in range(tiles):
            base = t * n_tile
            for i, j in mdesc.get('edges', []):
                i, j = i % n_tile, j % n_tile
                if i != j:
                    edges.add((min(base + i, base + j), max(base + i, base + j)))
            if mdesc.get('link_tiles') and t + 1 < tiles:
                edges.add((base + n_tile - 1, base + n_tile))
        for i, j in edges:
            mol.add_edge(keys[i], keys[j])
        mols.append(mol)
        # The order in which the atoms of a molecule are written: atoms that carry an atom number first, by that number,
        # the atoms without one after them in node order (the writers state that they share one atom order; C03 demands
        # that the k-th coordinate record is the k-th atom of the ITP). Atom numbers are distinct by construction, the
        # sort is stable.
        order = sorted(range(len(exp_atoms)), key=lambda i: (0, exp_atoms[i]['atomid']) if 'atomid' in exp_atoms[i] else (1, 0))
        if order != list(range(len(exp_atoms))):
            rank = {node: written for written, node in enumerate(order)}
            exp_atoms = [exp_atoms[i] for i in order]
            edges = set((min(rank[i], rank[j]), max(rank[i], rank[j])) for i, j in edges)
            info['reordered'] = True
            if any('atomid' not in a for a in exp_atoms):
                info['partial-reordered'] = True
        if any('atomid' in a for a in exp_atoms) and any('atomid' not in a for a in exp_atoms):
            info['partial'] = True
        expected.append((exp_atoms, edges))
    return mols, expected, info


AID_SPAN = 12     # no tile has more atoms than this


def _atomid(mdesc, i, t, n_tile, ordinal):
    """Atom number of atom i of tile t, or None. Modes: absent; increasing with node order ('atomid0'); 'shuffled' = every
    atom numbered, numbers a permutation of the node order; 'partial' = only some atoms numbered (a molecule that was read
    from a file and had atoms added, or a merge of a read and a generated molecule), numbers again permuted."""
    aid = mdesc.get('aid')
    if aid is None:
        if mdesc.get('atomid0') is not None:
            return mdesc['atomid0'] + 2 * ordinal
        return None
    number = aid['first'] + aid['perm'][i] + t * AID_SPAN
    if aid['mode'] == 'shuffled':
        return number
    mask = list(aid['mask'][:n_tile])
    if n_tile >= 2 and all(mask):
        mask[0] = False          # construct, do not filter: a partial molecule has both kinds of atom
    elif n_tile >= 2 and not any(mask):
        mask[-1] = True
    return number if mask[i] else None


def trunc_ok(text, got, width):
    """got is text if it fits, else a width-long prefix or suffix of text."""
    if len(text) <= width:
        return got == text
    return got in (text[:width], text[-width:]) or got in (text[:width].strip(), text[-width:].strip())


def int_trunc_ok(value, got, width):
    text = str(value)
    if len(text) <= width:
        return got == value
    cands = set()
    for piece in (text[:width], text[-width:]):
        try:
            cands.add(int(piece))
        except ValueError:
            pass
    return got in cands


def coord_fits(value, width, decimals=3):
    return len('%.*f' % (decimals, value)) <= width


def check_pdb(case, mols, expected, tmpdir):
    system = System()
    system.molecules = mols
    path = os.path.join(tmpdir, 'out.pdb')
    write_pdb(system, path, conect=True, defer_writing=False)
    with open(path) as fh:
        text = fh.read()
    lines = text.split('\n')
    atom_lines = [l for l in lines if l.startswith('ATOM') or l.startswith('HETATM')]
    total = sum(len(e[0]) for e in expected)
    classes = set()
    if len(atom_lines) != total:
        raise Violation('pdb-atom-count', 'wrote %d ATOM lines for %d atoms' % (len(atom_lines), total))
    # fixed columns on the text
    flat = [a for e in expected for a in e[0]]
    for line, attrs in zip(atom_lines, flat):
        if len(line) != PDB_LINE_LEN:
            raise Violation('pdb-line-length', 'ATOM line has %d chars instead of %d: %r' % (len(line), PDB_LINE_LEN, line))
        if line[11] != ' ' or line[20] != ' ' or line[27:30] != '   ':
            raise Violation('pdb-columns', 'separator columns are not blank: %r' % line)
        for (lo, hi) in ((30, 38), (38, 46), (46, 54)):
            if line[lo:hi][-4] != '.':
                raise Violation('pdb-columns', 'coordinate field %r of %r has no decimal point in place' % (line[lo:hi], line))
    n_ter = sum(1 for l in lines if l.startswith('TER'))
    if n_ter != len(mols):
        raise Violation('pdb-ter', '%d TER records for %d molecules' % (n_ter, len(mols)))
    last_serial = total + len(mols)
    read = read_pdb(path, exclude=())
    fits_serial = last_serial <= 99999
    if last_serial >= 10000:
        classes.add('serial>=10000')
    if not fits_serial:
        classes.add('serial>99999')
    # atoms in order
    read_atoms = [m.nodes[k] for m in read for k in m.nodes]
    if fits_serial or True:
        if len(read_atoms) != total:
            raise Violation('pdb-read-count', 'read %d atoms back, wrote %d' % (len(read_atoms), total))
    for idx, (got, attrs) in enumerate(zip(read_atoms, flat)):
        _cmp_atom_pdb(idx, got, attrs, classes)
    if fits_serial:
        # molecules through TER
        sizes = [len(m) for m in read]
        if sizes != [len(e[0]) for e in expected]:
            raise Violation('pdb-ter-partition', 'molecule sizes read %r, written %r' % (sizes, [len(e[0]) for e in expected]))
        for mi, (m, (exp_atoms, edges)) in enumerate(zip(read, expected)):
            order = {k: i for i, k in enumerate(m.nodes)}
            got_edges = set((min(order[a], order[b]), max(order[a], order[b])) for a, b in m.edges)
            if got_edges != edges:
                missing = sorted(edges - got_edges)[:5]
                extra = sorted(got_edges - edges)[:5]
                raise Violation('pdb-conect', 'molecule %d: %d bonds written, %d read back; missing %r extra %r' % (
                    mi, len(edges), len(got_edges), missing, extra))
            if edges:
                classes.add('bonds')
                if last_serial >= 10000:
                    classes.add('bonds-at-serial>=10000')
            deg = {}
            for a, b in edges:
                deg[a] = deg.get(a, 0) + 1
                deg[b] = deg.get(b, 0) + 1
            if deg and max(deg.values()) > 4:
                classes.add('degree>4')
    return classes


def _cmp_atom_pdb(idx, got, attrs, classes):
    name = attrs['atomname']
    if len(name) >= 4:
        classes.add('overflow-name' if len(name) > 4 else 'name-at-width')
    if not trunc_ok(name, got['atomname'], 4):
        raise Violation('pdb-atomname', 'atom %d: name %r read back as %r' % (idx, name, got['atomname']))
    resname = attrs['resname']
    if len(resname) >= 3:
        classes.add('overflow-resname' if len(resname) > 3 else 'resname-at-width')
    if not trunc_ok(resname, got['resname'], 3):
        raise Violation('pdb-resname', 'atom %d: resname %r read back as %r' % (idx, resname, got['resname']))
    resid = attrs['resid']
    if len(str(resid)) >= 4:
        classes.add('overflow-resid' if len(str(resid)) > 4 else 'resid-at-width')
    if not int_trunc_ok(resid, got['resid'], 4):
        raise Violation('pdb-resid', 'atom %d: resid %r read back as %r' % (idx, resid, got['resid']))
    chain = attrs.get('chain') or ''
    if len(chain) > 1:
        classes.add('overflow-chain')
    if not trunc_ok(chain, got['chain'], 1):
        raise Violation('pdb-chain', 'atom %d: chain %r read back as %r' % (idx, chain, got['chain']))
    icode = attrs.get('insertion_code') or ''
    if not trunc_ok(icode, got['insertion_code'], 1):
        raise Violation('pdb-icode', 'atom %d: insertion code %r read back as %r' % (idx, icode, got['insertion_code']))
    for axis in range(3):
        value_a = attrs['position'][axis] * 10
        if coord_fits(value_a, 8):
            if abs(value_a) >= 1000:
                classes.add('coord-wide')
            if abs(got['position'][axis] * 10 - value_a) > 0.5e-3 + 1e-9 * max(1, abs(value_a)):
                raise Violation('pdb-coordinate', 'atom %d axis %d: %r A read back as %r A' % (idx, axis, value_a, got['position'][axis] * 10))
        else:
            classes.add('overflow-coord')
    if attrs.get('element'):
        if got.get('element') != attrs['element'][:2]:
            raise Violation('pdb-element', 'atom %d: element %r read back as %r' % (idx, attrs['element'], got.get('element')))


def check_gro(case, mols, expected, tmpdir):
    system = System()
    system.molecules = mols
    path = os.path.join(tmpdir, 'out.gro')
    precision = case.get('precision', 7)
    write_gro(system, path, precision=precision, defer_writing=False, box=(10, 11, 12))
    with open(path) as fh:
        lines = fh.read().split('\n')
    flat = [a for e in expected for a in e[0]]
    total = len(flat)
    classes = set()
    if int(lines[1]) != total:
        raise Violation('gro-count', 'atom count line %r for %d atoms' % (lines[1], total))
    width = 20 + 3 * (precision + 1) * (2 if case.get('velocities') else 1)
    for line in lines[2:2 + total]:
        if len(line) != width:
            raise Violation('gro-line-length', 'atom line has %d chars instead of %d: %r' % (len(line), width, line))
    read = read_gro(path, exclude=())
    got_atoms = [read.nodes[k] for k in read.nodes]
    if len(got_atoms) != total:
        raise Violation('gro-read-count', 'read %d atoms back, wrote %d' % (len(got_atoms), total))
    if total >= 100000:
        classes.add('atoms>=100000')
    for idx, (got, attrs) in enumerate(zip(got_atoms, flat)):
        name = attrs['atomname']
        if len(name) >= 5:
            classes.add('overflow-name' if len(name) > 5 else 'name-at-width')
        if not trunc_ok(name, got['atomname'], 5):
            raise Violation('gro-atomname', 'atom %d: name %r read back as %r' % (idx, name, got['atomname']))
        resname = attrs['resname']
        if len(resname) >= 5:
            classes.add('overflow-resname' if len(resname) > 5 else 'resname-at-width')
        if not trunc_ok(resname, got['resname'], 5):
            raise Violation('gro-resname', 'atom %d: resname %r read back as %r' % (idx, resname, got['resname']))
        resid = attrs['resid']
        if len(str(resid)) >= 5:
            classes.add('overflow-resid' if len(str(resid)) > 5 else 'resid-at-width')
        if not int_trunc_ok(resid, got['resid'], 5):
            raise Violation('gro-resid', 'atom %d: resid %r read back as %r' % (idx, resid, got['resid']))
        for axis in range(3):
            value = attrs['position'][axis]
            if coord_fits(value, precision + 1):
                if abs(value) >= 100:
                    classes.add('coord-wide')
                if abs(got['position'][axis] - value) > 0.5e-3 + 1e-9 * max(1, abs(value)):
                    raise Violation('gro-coordinate', 'atom %d axis %d: %r nm read back as %r nm' % (idx, axis, value, got['position'][axis]))
            else:
                classes.add('overflow-coord')
        if case.get('velocities'):
            classes.add('velocities')
            if 'velocity' not in got:
                raise Violation('gro-velocity', 'atom %d: velocity not read back' % idx)
            for axis in range(3):
                value = attrs['velocity'][axis]
                if coord_fits(value, precision + 1, 4) and abs(got['velocity'][axis] - value) > 0.5e-4 + 1e-9:
                    raise Violation('gro-velocity', 'atom %d axis %d: velocity %r read back as %r' % (idx, axis, value, got['velocity'][axis]))
    return classes


CROSS_MAX_ATOMS = 400


def check_same_order(case, mols, expected, tmpdir):
    """The same system written as PDB and as GRO is read back in the same order. Needs no model of the order: record k of
    one file is compared with record k of the other, on the fields that fit the columns of both formats."""
    system = System()
    system.molecules = mols
    pdb_path = os.path.join(tmpdir, 'cross.pdb')
    gro_path = os.path.join(tmpdir, 'cross.gro')
    precision = case.get('precision', 7)
    write_pdb(system, pdb_path, conect=False, defer_writing=False)
    write_gro(system, gro_path, precision=precision, defer_writing=False, box=(10, 11, 12))
    from_pdb = [m.nodes[k] for m in read_pdb(pdb_path, exclude=()) for k in m.nodes]
    gro = read_gro(gro_path, exclude=())
    from_gro = [gro.nodes[k] for k in gro.nodes]
    if len(from_pdb) != len(from_gro):
        raise Violation('cross-count', 'same system: %d atoms read from PDB, %d from GRO' % (len(from_pdb), len(from_gro)))
    flat = [a for e in expected for a in e[0]]
    # A GRO column is at least as wide as the PDB column of the same field. A value read from the GRO file that does not
    # fill its column was not truncated there; if it fits the PDB column too, record k of the PDB file must show the same
    # value. Coordinates are compared on the axes on which every atom of the system fits both formats (a property of the
    # set of atoms, not of their order).
    axes = [ax for ax in range(3)
            if all(coord_fits(a['position'][ax] * 10, 8) and coord_fits(a['position'][ax], precision + 1) for a in flat)]
    compared = bool(axes)
    for idx, (p, g) in enumerate(zip(from_pdb, from_gro)):
        names = len(g['atomname']) <= 4
        resnames = len(g['resname']) <= 3
        resids = len(str(g['resid'])) <= 4
        compared = compared or names or resnames or resids
        if names and p['atomname'] != g['atomname']:
            raise Violation('cross-order', 'record %d is atom %r in the PDB and atom %r in the GRO file of the same system' % (
                idx, p['atomname'], g['atomname']))
        if resnames and p['resname'] != g['resname']:
            raise Violation('cross-order', 'record %d has residue name %r in the PDB and %r in the GRO file of the same system' % (
                idx, p['resname'], g['resname']))
        if resids and p['resid'] != g['resid']:
            raise Violation('cross-order', 'record %d has residue number %r in the PDB and %r in the GRO file of the same system' % (
                idx, p['resid'], g['resid']))
        for ax in axes:
            if abs(p['position'][ax] - g['position'][ax]) > 1.1e-3:
                raise Violation('cross-order', 'record %d axis %d is at %r nm in the PDB and at %r nm in the GRO file of the same system' % (
                    idx, ax, p['position'][ax], g['position'][ax]))
    return compared


def run(case):
    mols, expected, info = expand(case)
    tmpdir = tempfile.mkdtemp(prefix='c16_', dir='/dev/shm' if os.path.isdir('/dev/shm') else None)
    try:
        if case['fmt'] == 'pdb':
            classes = check_pdb(case, mols, expected, tmpdir)
        else:
            classes = check_gro(case, mols, expected, tmpdir)
        if info.get('reordered') and sum(len(e[0]) for e in expected) <= CROSS_MAX_ATOMS:
            if check_same_order(case, mols, expected, tmpdir):
                classes.add('pdb-vs-gro-order')
    finally:
        shutil.rmtree(tmpdir, ignore_errors=True)
    classes.add(case['fmt'])
    if info.get('partial'):
        classes.add('atomid-partial')
    if info.get('reordered'):
        classes.add('atomid-order!=node-order')
    if info.get('partial-reordered'):
        classes.add('atomid-partial-reordered')
        classes.add(case['fmt'] + '-atomid-partial-reordered')
    if len(mols) > 1:
        classes.add('multi-mol')
    nontrivial = bool(classes & {'overflow-name', 'name-at-width', 'overflow-resname', 'resname-at-width', 'overflow-resid',
                                 'resid-at-width', 'overflow-chain', 'overflow-coord', 'coord-wide',
                                 'bonds-at-serial>=10000', 'atoms>=100000'})
    return Outcome(sorted(classes), nontrivial)


# ---------------------------------------------------------------------------
# generators

LETTERS = "ABCDEFGHIKLMNOPQRSTUVWXYZ"
NAME_ALPHABET = "ABCDEFGHIKLMNOPQRSTUVWXYZabcdefgh0123456789'*"


def _atom_strategy(fmt):
    # names start with letters and end in at most three non-letters, so that every truncation the formats can produce
    # still contains a letter (the readers guess the element from the first letter and reject letter-less names)
    name = st.one_of(
        st.tuples(st.text(alphabet=LETTERS, min_size=1, max_size=4), st.text(alphabet=NAME_ALPHABET, min_size=0, max_size=3)).map(''.join),
        st.tuples(st.text(alphabet=LETTERS, min_size=1, max_size=4), st.text(alphabet=NAME_ALPHABET, min_size=0, max_size=3)).map(''.join),
        # names that begin with a digit, as hydrogens are called in old files (the letter follows at once, so that every
        # truncation still holds one)
        st.sampled_from(['1HB', '2HB', '1HD1', '3H', '1HW', '2HG2', '1C', '2OW', '1h']))
    resname = st.one_of(st.sampled_from(['ALA', 'GLY', 'POPC', 'W', 'ION', 'HSD', 'CHOL1']),
                        st.text(alphabet='ABCDEFGHIKLMNOPQRSTUVWXYZ0123456789', min_size=1, max_size=7))
    resid = st.one_of(st.integers(1, 200), st.integers(1, 200),
                      st.sampled_from([0, -1, -999, -1000, 9998, 9999, 10000, 10001, 99999, 100000, 123456]))
    if fmt == 'pdb':
        lim_lo, lim_hi = -999999, 9999999     # grid units of 1e-3 nm; column range -999.999..9999.999 A = -99.9999..999.9999 nm
        coord = st.one_of(st.integers(-5000, 5000), st.integers(-5000, 5000),
                          st.sampled_from([-99999, -99998, -100000, -100001, 999999, 999998, 1000000, 1000001, 0, -1, 1, 12345]),
                          st.integers(-2000000, 2000000))
    else:
        coord = st.one_of(st.integers(-5000, 5000), st.integers(-5000, 5000),
                          st.sampled_from([-999999, -999998, -1000000, -1000001, 9999999, 9999998, 10000000, 10000001, 0, -1, 1]),
                          st.integers(-20000000, 20000000))
    return st.fixed_dictionaries({
        'name': name, 'resname': resname, 'resid': resid,
        'chain': st.one_of(st.none(), st.sampled_from(['', 'A', 'B', 'Z', '1', 'AB'])),
        'icode': st.one_of(st.none(), st.none(), st.sampled_from(['', 'A', 'B', '1', '0', 'z'])),
        'element': st.one_of(st.none(), st.none(), st.sampled_from(['C', 'N', 'FE', 'H'])),
        'pos': st.lists(coord, min_size=3, max_size=3),
        'vel': st.lists(st.integers(-30000, 30000), min_size=3, max_size=3),
    })


def _aid_strategy(mode):
    return st.fixed_dictionaries({
        'mode': st.just(mode), 'first': st.sampled_from([1, 1, 7, 300]),
        'perm': st.permutations(list(range(AID_SPAN))),
        'mask': st.lists(st.booleans(), min_size=AID_SPAN, max_size=AID_SPAN),
    })


def _mol_strategy(fmt, max_atoms, big=None):
    atoms = st.lists(_atom_strategy(fmt), min_size=1, max_size=max_atoms)
    edges = st.one_of(
        st.just([]),
        st.lists(st.tuples(st.integers(0, 40), st.integers(0, 40)).map(list), max_size=12),
        st.integers(3, 9).map(lambda k: [[0, i] for i in range(1, k + 1)]),        # star, degree up to 9
    )
    base = {
        'atoms': atoms, 'edges': edges,
        'key0': st.sampled_from([0, 0, 1, 5, -3]), 'keystep': st.sampled_from([1, 1, 2, 7]),
        'atomid0': st.one_of(st.none(), st.none(), st.sampled_from([1, 10, 500])),
        # atom numbers that disagree with the node order, on all atoms or on some of them only
        'aid': st.one_of(st.none(), st.none(), st.none(), _aid_strategy('partial'), _aid_strategy('partial'), _aid_strategy('shuffled')),
    }
    if big is None:
        return st.fixed_dictionaries(base)
    lo, hi = big

    def tiled(d):
        n = len(d['atoms'])
        return st.integers(lo, hi).map(lambda target: dict(d, tiles=max(1, target // n), resid_step=1, tile_shift=3, link_tiles=True))
    return st.fixed_dictionaries(base).flatmap(tiled)


def strategy_small(tier):
    def case(fmt):
        return st.fixed_dictionaries({
            'fmt': st.just(fmt),
            'mols': st.lists(_mol_strategy(fmt, 12), min_size=1, max_size=6),
            'velocities': st.booleans() if fmt == 'gro' else st.just(False),
            'precision': st.sampled_from([7, 7, 8, 9]) if fmt == 'gro' else st.just(7),
        })
    return st.one_of(case('pdb'), case('pdb'), case('gro'))


def strategy_10k(tier):
    def case(fmt):
        big = _mol_strategy(fmt, 10, big=(9990, 10040))
        small = _mol_strategy(fmt, 6)
        return st.fixed_dictionaries({
            'fmt': st.just(fmt),
            'mols': st.tuples(st.lists(small, max_size=2), big, st.lists(small, max_size=2)).map(lambda t: t[0] + [t[1]] + t[2]),
            'velocities': st.just(False), 'precision': st.just(7),
        })
    return st.one_of(case('pdb'), case('pdb'), case('pdb'), case('gro'))


def _fit_pdb_serials(case):
    """The property speaks of systems up to the format limit: a PDB file numbers atoms and TER records with five digits, so
    the big molecule is shortened until the last serial is at most 99999 (GRO files have no such limit)."""
    if case['fmt'] != 'pdb':
        return case
    mols = [dict(m) for m in case['mols']]
    big = mols[0]
    others = sum(len(m['atoms']) * m.get('tiles', 1) for m in mols[1:])
    room = 99999 - len(mols) - others
    big['tiles'] = max(1, min(big['tiles'], room // len(big['atoms'])))
    return dict(case, mols=mols)


def strategy_100k(tier):
    def case(fmt):
        big = _mol_strategy(fmt, 10, big=(99980, 100010))
        small = _mol_strategy(fmt, 4)
        return st.fixed_dictionaries({
            'fmt': st.just(fmt),
            'mols': st.tuples(big, st.lists(small, max_size=1)).map(lambda t: [t[0]] + t[1]),
            'velocities': st.just(False), 'precision': st.just(7),
        }).map(_fit_pdb_serials)
    return st.one_of(case('pdb'), case('gro'))


def _enum_serial_limit(tier, shard, nshards):
    """Systems whose last PDB serial (one per atom, one per TER) is exactly 99999 or 99998: they fit the five-digit numbering,
    so bonds and molecule division must come back."""
    atom = {'name': 'CA', 'resname': 'ALA', 'resid': 1, 'chain': 'A', 'icode': None, 'element': 'C', 'pos': [100, 200, 300],
            'vel': [0, 0, 0]}
    other = dict(atom, name='OW', resname='W', chain='B', element='O', pos=[-500, 0, 40])
    small = {'atoms': [dict(other), dict(other, name='HW1', element='H', pos=[-400, 0, 40]), dict(other, name='HW2', element='H', pos=[-500, 90, 40])],
             'edges': [[0, 1], [0, 2]], 'key0': 0, 'keystep': 1, 'atomid0': None}
    cases = []
    # many molecules rather than one huge one: read_pdb numbers the atoms of a molecule with max(molecule) + 1, which is
    # quadratic in the size of the molecule
    for last_serial, n_mols, n_small in ((99999, 1000, 1), (99998, 1000, 2), (99999, 100, 0)):
        n_atoms = last_serial - n_mols
        per_mol = (n_atoms - 3 * n_small) // (n_mols - n_small)
        rest = n_atoms - 3 * n_small - per_mol * (n_mols - n_small)
        mols = []
        for m in range(n_mols - n_small):
            mols.append({'atoms': [dict(atom, resid=1 + m % 9000)], 'edges': [], 'key0': 0, 'keystep': 1, 'atomid0': None,
                         'tiles': per_mol + (1 if m < rest else 0), 'resid_step': 0, 'tile_shift': 3, 'link_tiles': True})
        mols += [dict(small) for _ in range(n_small)]
        cases.append({'fmt': 'pdb', 'mols': mols, 'velocities': False, 'precision': 7, 'last_serial': last_serial})
    for i, case in enumerate(cases):
        if i % nshards == shard:
            yield case


def _run_serial_limit(case):
    out = run(case)
    return Outcome(list(out.classes) + ['last-serial-%d' % case['last_serial']], True)


PARTS = [
    Part('small', run, strategy=strategy_small, examples={'quick': 1600, 'thorough': 40000},
         floors={'pdb': 0.4, 'gro': 0.2, 'bonds': 0.2, 'degree>4': 0.02, 'overflow-name': 0.1, 'overflow-resid': 0.05,
                 'overflow-coord': 0.03, 'multi-mol': 0.3, 'atomid-partial-reordered': 0.2, 'gro-atomid-partial-reordered': 0.05,
                 'pdb-atomid-partial-reordered': 0.1, 'pdb-vs-gro-order': 0.25}),
    Part('around-10k-atoms', run, strategy=strategy_10k, examples={'quick': 48, 'thorough': 480},
         floors={'bonds-at-serial>=10000': 0.2}, shrink_budget={'quick': 12, 'thorough': 100}, per_shard_min=3),
    Part('pdb-serial-limit', _run_serial_limit, enumerate=_enum_serial_limit),
    Part('around-100k-atoms', run, strategy=strategy_100k, examples={'quick': 0, 'thorough': 48},
         shrink_budget={'quick': 5, 'thorough': 20}, per_shard_min=3),
]
