"""
C15  Elastic-network bonds are exactly the pairs meeting every stated criterion.

Generated molecules (residues x beads, chains, gaps, cross-links), selectors,
domain criteria and parameter sets are run through ApplyRubberBand.run_molecule
and compared pair by pair with an O(n^2) reference written from the statement
(own residue graph + BFS, own distance, own decay).  Thresholds are constructed
from actual pair distances / force constants (x (1 +- 1e-7)); exact ties are
accepted either way.  A second, rigidly moved and re-ordered presentation must
give the same network.  NaN coordinates on a selected atom must give a warning
and no network, not an exception.
"""
import functools
import math

import numpy as np
from hypothesis import strategies as st

from pbt.core import Part, Outcome, Violation
from pbt.util import capture_logs

from vermouth.molecule import Molecule
from vermouth.forcefield import ForceField
from vermouth import selectors
from vermouth.processors.apply_rubber_band import (ApplyRubberBand, always_true, same_chain,
                                                   make_same_region_criterion)

PROPERTY = 'C15'
LEVEL = 'exploration'
RULE = ('molecules of 3-14 residues x 1-3 beads on a 1e-3 nm grid, 1-3 chains, missing backbone links (gaps), cross-links, '
        'selection by backbone name / attribute-in list / per-atom flag, domain = whole molecule / same chain / residue regions '
        '(on _old_resid), parameters lower/upper/decay factor/power/base/minimum force/residue separation with upper bound and '
        'minimum force constructed on actual pair values x (1 +- 1e-7); non-trivial = the selection is irregular (not all atoms, '
        'not a prefix of the node order) and at least two different criteria each decide (alone reject) some pair; distinct by hash')
ASSUMPTIONS = [
    'fractional decay powers are only generated with lower bound 0 (for d < lower the documented formula is undefined)',
    'pairs whose distance / force constant is within 1e-9 relative of a threshold may go either way',
    'every selected atom has a position; NaN coordinates are generated in a separate class of cases',
    'force constant reference: min(base, base*exp(-a*(d-lower)**p)) exactly as stated, including p = 0',
    'the rounded length may differ by one unit in the 5th decimal between two rigidly moved presentations',
]

_FF = ForceField(name='c15toy')
_FF.variables['elastic_network_bond_type'] = 6
_FF.variables['elastic_network_res_min_dist'] = 2
# the force field of the molecule a processor object may have handled before the one of the case
_FF_OTHER = ForceField(name='c15other')
_FF_OTHER.variables['elastic_network_bond_type'] = 1
_FF_OTHER.variables['elastic_network_res_min_dist'] = 5


# ---------------------------------------------------------------------------
# building

ROTATIONS = [
    ((1, 0, 0), (0, 1, 0), (0, 0, 1)),
    ((0, 1, 0), (-1, 0, 0), (0, 0, 1)),
    ((0, 0, 1), (1, 0, 0), (0, 1, 0)),
    ((-1, 0, 0), (0, -1, 0), (0, 0, 1)),
    ((0, 0, -1), (0, 1, 0), (1, 0, 0)),
    ((1, 0, 0), (0, 0, -1), (0, 1, 0)),
]


def atoms_of(case):
    """Flat list of atom dicts in canonical order with a stable tag."""
    atoms = []
    prev = None     # (chain, effective resid, run length of twins)
    for ridx, res in enumerate(case['residues']):
        # a residue may share the residue number of the one before it and be told apart by an insertion code only (52, 52A)
        if res.get('twin') and prev is not None and prev[0] == res['chain']:
            resid, run = prev[1], prev[2] + 1
            icode = 'ABCDEFGH'[min(run - 1, 7)]
        else:
            resid, run, icode = res['resid'], 0, None
        prev = (res['chain'], resid, run)
        for bidx, bead in enumerate(res['beads']):
            atoms.append({
                'tag': (ridx, bidx), 'ridx': ridx, 'icode': icode,
                'atomname': bead['name'], 'resname': res['resname'], 'resid': resid,
                'old_resid': res.get('old_resid'), 'chain': res['chain'],
                'flag': bead['flag'], 'pos': tuple(bead['pos']), 'nan': bead.get('nan', False),
            })
    return atoms


def build(case, order=None, rot=0, shift=(0, 0, 0), key0=0, keystep=1, ff=None):
    atoms = atoms_of(case)
    if order is None:
        order = list(range(len(atoms)))
    mol = Molecule(force_field=ff if ff is not None else _FF, nrexcl=1)
    mol.meta['moltype'] = 'testmol'
    R = ROTATIONS[rot]
    key_of = {}
    key = key0
    for i in order:
        a = atoms[i]
        p = a['pos']
        q = [sum(R[r][c] * p[c] for c in range(3)) + shift[r] for r in range(3)]
        pos = np.array([v / 1000.0 for v in q], dtype=float)
        if a['nan']:
            pos = np.array([np.nan, np.nan, np.nan])
        attrs = {'atomname': a['atomname'], 'resname': a['resname'], 'resid': a['resid'], 'chain': a['chain'],
                 'flag': a['flag'], 'position': pos}
        if a['old_resid'] is not None:
            attrs['_old_resid'] = a['old_resid']
        if a.get('icode'):
            attrs['insertion_code'] = a['icode']
        if a['chain'] is None:
            del attrs['chain']
        mol.add_node(key, **attrs)
        key_of[a['tag']] = key
        key += keystep
    # intra-residue edges: bead k - bead 0
    for ridx, res in enumerate(case['residues']):
        for bidx in range(1, len(res['beads'])):
            mol.add_edge(key_of[(ridx, 0)], key_of[(ridx, bidx)])
    for r1, r2 in residue_edges(case):
        mol.add_edge(key_of[(r1, 0)], key_of[(r2, 0)])
    # a pre-existing ordinary bond that must survive untouched
    if len(atoms) >= 2:
        mol.add_interaction('bonds', (key_of[atoms[0]['tag']], key_of[atoms[1]['tag']]), ['1', '0.35', '1250'], meta={'group': 'pre'})
    return mol, key_of


def residue_edges(case):
    edges = set()
    n = len(case['residues'])
    for i in range(n - 1):
        a, b = case['residues'][i], case['residues'][i + 1]
        if a['chain'] == b['chain'] and not b.get('gap_before'):
            edges.add((i, i + 1))
    for i, j in case['crosslinks']:
        i, j = i % n, j % n
        if i != j:
            edges.add((min(i, j), max(i, j)))
    return edges


# ---------------------------------------------------------------------------
# reference

def selected(case, atom):
    sel = case['selector']
    if sel['kind'] == 'backbone':
        return atom['atomname'] == 'BB'
    if sel['kind'] == 'names':
        return atom['atomname'] in sel['names']
    return bool(atom['flag'])


def make_selector(case):
    sel = case['selector']
    if sel['kind'] == 'backbone':
        return selectors.select_backbone
    if sel['kind'] == 'names':
        return functools.partial(selectors.proto_select_attribute_in, attribute='atomname', values=list(sel['names']))
    return lambda node: bool(node.get('flag'))


def same_domain(case, a, b):
    dom = case['domain']
    if dom['kind'] == 'all':
        return True
    if dom['kind'] == 'chain':
        return a['chain'] == b['chain']
    ra = a['old_resid'] if a['old_resid'] is not None else a['resid']
    rb = b['old_resid'] if b['old_resid'] is not None else b['resid']
    for lo, hi in dom['regions']:
        lo, hi = min(lo, hi), max(lo, hi)
        if lo <= ra <= hi and lo <= rb <= hi:
            return True
    return False


def make_domain(case):
    dom = case['domain']
    if dom['kind'] == 'all':
        return always_true
    if dom['kind'] == 'chain':
        return same_chain
    return make_same_region_criterion([tuple(r) for r in dom['regions']])


def residue_distances(case):
    n = len(case['residues'])
    adj = {i: set() for i in range(n)}
    for a, b in residue_edges(case):
        adj[a].add(b)
        adj[b].add(a)
    dist = {}
    for s in range(n):
        d = {s: 0}
        frontier = [s]
        while frontier:
            nxt = []
            for u in frontier:
                for v in adj[u]:
                    if v not in d:
                        d[v] = d[u] + 1
                        nxt.append(v)
            frontier = nxt
        dist[s] = d
    return dist


def distance(a, b):
    return math.sqrt(sum(((a['pos'][k] - b['pos'][k]) / 1000.0) ** 2 for k in range(3)))


def force_constant(d, prm):
    x = d - prm['lower']
    p = prm['power']
    try:
        val = x ** p
    except ZeroDivisionError:
        return None
    if isinstance(val, complex):
        return None
    try:
        k = prm['base'] * math.exp(-prm['factor'] * val)
    except OverflowError:
        k = float('inf')
    return min(prm['base'], k)


def resolve_params(case):
    """Turn 'constructed' thresholds into numbers using the reference distances."""
    prm = dict(case['params'])
    atoms = atoms_of(case)
    sel = [a for a in atoms if selected(case, a)]
    pairs = [(sel[i], sel[j]) for i in range(len(sel)) for j in range(i + 1, len(sel))]
    if prm.get('upper_from') is not None and pairs:
        idx, eps = prm['upper_from']
        a, b = pairs[idx % len(pairs)]
        d = distance(a, b)
        if d > 0:
            prm['upper'] = d * (1 + eps * 1e-7)
    if prm.get('minforce_from') is not None and pairs:
        idx, eps = prm['minforce_from']
        a, b = pairs[idx % len(pairs)]
        k = force_constant(distance(a, b), prm)
        if k is not None and k > 0 and math.isfinite(k):
            prm['minforce'] = k * (1 + eps * 1e-7)
    return prm


def reference(case, prm):
    atoms = atoms_of(case)
    sel = [a for a in atoms if selected(case, a)]
    rdist = residue_distances(case)
    must, may, reasons = set(), set(), {}
    for i in range(len(sel)):
        for j in range(i + 1, len(sel)):
            a, b = sel[i], sel[j]
            d = distance(a, b)
            k = force_constant(d, prm)
            rd = rdist[a['ridx']].get(b['ridx'])
            c_sep = rd is None or rd > prm['rmd']
            c_dom = same_domain(case, a, b)
            tie = False
            if abs(d - prm['upper']) <= 1e-9 * max(1.0, prm['upper']):
                tie = True
            c_up = d <= prm['upper']
            if k is None:
                return None
            if abs(k - prm['minforce']) <= 1e-9 * max(1.0, abs(prm['minforce'])):
                tie = True
            c_force = k > prm['minforce']
            conds = {'separation': c_sep, 'domain': c_dom, 'upper': c_up, 'force': c_force}
            failed = [n for n, v in conds.items() if not v]
            pair = frozenset((a['tag'], b['tag']))
            if tie and c_sep and c_dom:
                may.add(pair)
                reasons[pair] = ('tie', d, k)
            elif not failed:
                must.add(pair)
                reasons[pair] = ('bond', d, k)
            else:
                reasons[pair] = (tuple(failed), d, k)
    return must, may, reasons, sel


def extract(mol, key_of):
    tag_of = {v: k for k, v in key_of.items()}
    rb = {}
    others = []
    for inter in mol.interactions.get('bonds', []):
        if inter.meta.get('group') == 'Rubber band':
            pair = frozenset(tag_of[a] for a in inter.atoms)
            if len(pair) != 2:
                raise Violation('self-bond', 'elastic bond from an atom to itself: %r' % (inter.atoms,))
            if pair in rb:
                raise Violation('duplicate-bond', 'two elastic bonds for pair %r' % (sorted(pair),))
            rb[pair] = inter
        else:
            others.append(inter)
    return rb, others


def run(case):
    prm = resolve_params(case)
    atoms = atoms_of(case)
    has_nan = any(a['nan'] and selected(case, a) for a in atoms)
    ref = reference(case, prm)
    if ref is None:
        return Outcome(['undefined-formula'], False)
    must, may, reasons, sel = ref
    kwargs = dict(lower_bound=prm['lower'], upper_bound=prm['upper'], decay_factor=prm['factor'], decay_power=prm['power'],
                  base_constant=prm['base'], minimum_force=prm['minforce'],
                  selector=make_selector(case), domain_criterion=make_domain(case))
    if not case['from_ff']:
        kwargs['bond_type'] = 6
        kwargs['res_min_dist'] = prm['rmd']
    else:
        prm = dict(prm, rmd=2)
        ref = reference(case, prm)
        must, may, reasons, sel = ref
    mol, key_of = build(case)
    # one processor object for both presentations of the case: nothing may be carried over from one molecule to the next
    processor = ApplyRubberBand(**kwargs)
    if len(atoms) % 2 == 0:
        # ... and it has served a molecule of another force field (other bond type, other minimum separation) before
        with capture_logs():
            processor.run_molecule(build(case, ff=_FF_OTHER)[0])
    with capture_logs() as logs:
        processor.run_molecule(mol)
    rb, others = extract(mol, key_of)
    if len(others) != (1 if len(atoms) >= 2 else 0) or (others and others[0].parameters != ['1', '0.35', '1250']):
        raise Violation('foreign-bond-changed', 'pre-existing bonds changed: %r' % (others,))
    classes = set()
    if has_nan:
        classes.add('nan')
        if rb:
            raise Violation('nan-network', 'molecule with NaN coordinates on a selected atom got %d elastic bonds' % len(rb))
        warns = [r for r in logs.records if r.levelno >= 30]
        if len(warns) != 1:
            raise Violation('nan-warning', 'expected exactly one warning for NaN coordinates, got %d' % len(warns))
        return Outcome(sorted(classes), False)
    got = set(rb)
    missing = must - got
    extra = got - must - may
    if missing:
        pair = sorted(missing)[0]
        raise Violation('missing-bond', 'no elastic bond for pair %r which meets every criterion (%r); params %r' % (
            sorted(pair), reasons[pair], prm))
    if extra:
        pair = sorted(extra)[0]
        raise Violation('extra-bond', 'elastic bond for pair %r which fails %r; params %r' % (
            sorted(pair), reasons.get(pair, 'not both selected'), prm))
    for pair, inter in rb.items():
        _, d, k = reasons[pair]
        btype, length, const = inter.parameters
        if btype != 6:
            raise Violation('bond-type', 'bond type %r' % (btype,))
        if abs(float(length) - round(d, 5)) > 1e-9:
            raise Violation('bond-length', 'pair %r: length %r, distance %r' % (sorted(pair), length, d))
        if abs(float(const) - k) > 1e-9 * max(1.0, abs(k)):
            raise Violation('force-constant', 'pair %r: constant %r, formula gives %r (d=%r, params %r)' % (sorted(pair), const, k, d, prm))
    # metamorphic: rigid motion + node order permutation + different keys
    t = case['transform']
    order = sorted(range(len(atoms)), key=lambda i: (t['perm'][i % len(t['perm'])], i))
    mol2, key_of2 = build(case, order=order, rot=t['rot'], shift=t['shift'], key0=t['key0'], keystep=t['keystep'])
    processor.run_molecule(mol2)
    rb2, _ = extract(mol2, key_of2)
    diff = (set(rb) ^ set(rb2)) - may
    if diff:
        raise Violation('not-invariant', 'pairs %r differ between two presentations (rotation %d, reordering)' % (sorted(map(sorted, diff))[:3], t['rot']))
    for pair in set(rb) & set(rb2):
        k1, k2 = float(rb[pair].parameters[2]), float(rb2[pair].parameters[2])
        if abs(k1 - k2) > 1e-9 * max(1.0, abs(k1)):
            raise Violation('not-invariant', 'force constant of %r differs between presentations: %r vs %r' % (sorted(pair), k1, k2))
        if abs(float(rb[pair].parameters[1]) - float(rb2[pair].parameters[1])) > 1.1e-5:
            raise Violation('not-invariant', 'length of %r differs between presentations' % (sorted(pair),))
    # classification
    deciders = set()
    for pair, (why, d, k) in reasons.items():
        if isinstance(why, tuple) and len(why) == 1:
            deciders.add(why[0])
    for dname in deciders:
        classes.add('decided-by-' + dname)
    if may:
        classes.add('tie')
    if must:
        classes.add('has-bonds')
    if any(a.get('icode') for a in atoms):
        classes.add('residues-told-apart-by-insertion-code')
    flags = [selected(case, a) for a in atoms]
    nsel = sum(flags)
    irregular = 0 < nsel < len(atoms) and flags != sorted(flags, reverse=True)
    if irregular:
        classes.add('irregular-selection')
    if case['from_ff']:
        classes.add('params-from-ff')
    classes.add('domain-' + case['domain']['kind'])
    if prm['power'] not in (0, 1, 2, 3):
        classes.add('fractional-power')
    return Outcome(sorted(classes), irregular and len(deciders) >= 2 and bool(must))


# ---------------------------------------------------------------------------
# generator

def strategy(tier):
    max_res = 9 if tier == 'quick' else 14
    coord = st.integers(-600, 600)

    def bead(name):
        return st.fixed_dictionaries({'name': name, 'flag': st.booleans(), 'pos': st.lists(coord, min_size=3, max_size=3)})

    beads = st.one_of(
        st.tuples(bead(st.just('BB'))).map(list),
        st.tuples(bead(st.just('BB')), bead(st.just('SC1'))).map(list),
        st.tuples(bead(st.just('BB')), bead(st.just('SC1')), bead(st.just('SC2'))).map(list),
        st.tuples(bead(st.sampled_from(['W', 'SC1']))).map(list),
    )

    def residues(n):
        chains = st.lists(st.sampled_from(['A', 'A', 'A', 'B', 'C']), min_size=n, max_size=n).map(sorted)

        def with_chains(ch):
            items = []
            for i in range(n):
                items.append(st.fixed_dictionaries({
                    'chain': st.just(ch[i]), 'resid': st.just(i + 1), 'resname': st.sampled_from(['ALA', 'GLY', 'LYS']),
                    'old_resid': st.one_of(st.none(), st.integers(1, 12)),
                    'gap_before': st.sampled_from([False, False, False, False, True]),
                    'twin': st.sampled_from([False] * 7 + [True]),
                    'beads': beads,
                }))
            return st.tuples(*items).map(list)
        return chains.flatmap(with_chains)

    params = st.fixed_dictionaries({
        'lower': st.sampled_from([0.0, 0.0, 0.2, 0.5, 0.6]),
        'upper': st.sampled_from([0.3, 0.6, 0.9, 1.2, 1.5]),
        'factor': st.sampled_from([0, 0, 0.5, 1, 2, 5]),
        'power': st.sampled_from([0, 1, 1, 2, 3]),
        'base': st.sampled_from([100, 500, 700, 1000]),
        'minforce': st.sampled_from([0, 0, 1, 50, 200, 400]),
        'rmd': st.integers(0, 5),
        'upper_from': st.one_of(st.none(), st.tuples(st.integers(0, 200), st.sampled_from([-1, 0, 0, 1])).map(list), st.tuples(st.integers(0, 200), st.sampled_from([-1, 0, 1])).map(list)),
        'minforce_from': st.one_of(st.none(), st.tuples(st.integers(0, 200), st.sampled_from([-1, 0, 1])).map(list)),
    })
    frac = params.map(lambda p: dict(p, lower=0.0, power=0.5 if p['power'] in (0, 1) else 1.5))
    selector = st.one_of(
        st.just({'kind': 'backbone'}),
        st.fixed_dictionaries({'kind': st.just('names'), 'names': st.sampled_from([['BB'], ['BB', 'SC1'], ['SC1', 'SC2'], ['BB', 'W']])}),
        st.just({'kind': 'flag'}),
    )
    domain = st.one_of(
        st.just({'kind': 'all'}), st.just({'kind': 'chain'}),
        st.fixed_dictionaries({'kind': st.just('regions'),
                               'regions': st.lists(st.tuples(st.integers(1, 12), st.integers(1, 12)).map(list), min_size=1, max_size=3)}),
    )
    transform = st.fixed_dictionaries({
        'perm': st.lists(st.integers(0, 50), min_size=1, max_size=12),
        'rot': st.integers(0, len(ROTATIONS) - 1),
        'shift': st.lists(st.integers(-3000, 3000), min_size=3, max_size=3),
        'key0': st.sampled_from([0, 3, 100]), 'keystep': st.sampled_from([1, 2, 5]),
    })

    def nan_variant(case):
        # put NaN on one selected atom if any
        return case

    base = st.integers(3, max_res).flatmap(lambda n: st.fixed_dictionaries({
        'residues': residues(n),
        'crosslinks': st.lists(st.tuples(st.integers(0, 20), st.integers(0, 20)).map(list), max_size=2),
        'params': st.one_of(params, params, params, frac),
        'selector': selector, 'domain': domain, 'transform': transform,
        'from_ff': st.sampled_from([False, False, False, True]),
        'nan_at': st.one_of(st.none(), st.none(), st.none(), st.none(), st.none(), st.none(), st.none(), st.none(), st.integers(0, 40)),
    }))

    def apply_nan(case):
        if case['nan_at'] is None:
            return case
        flat = [b for r in case['residues'] for b in r['beads']]
        flat[case['nan_at'] % len(flat)]['nan'] = True
        return case
    return base.map(apply_nan)


PARTS = [
    Part('network', run, strategy=strategy, examples={'quick': 2400, 'thorough': 60000},
         floors={'has-bonds': 0.3, 'irregular-selection': 0.3, 'decided-by-separation': 0.2, 'decided-by-domain': 0.1,
                 'decided-by-upper': 0.2, 'decided-by-force': 0.03, 'tie': 0.04, 'nan': 0.012}),
]
