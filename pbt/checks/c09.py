"""
C09  A particle sits at the weighted mean of the atoms it represents.

Oracle: exact rational arithmetic (fractions.Fraction) on the integer grid
coordinates, weights and masses of the case description, written from the
property statement; the stated consequences (bounding box, NaN <=> zero weight
of the positioned constituents, rigid motion, irrelevance of constituents
without coordinates) are checked separately as direct / metamorphic relations.

Part `direct` builds CG molecules by hand (node attributes 'graph' and
'mapping_weights' as do_mapping produces them) and calls do_average_bead /
DoAverageBead.  Part `e2e` builds a toy pair of force fields, blocks and
Mapping objects in memory, runs the real do_mapping and then DoAverageBead, and
compares with the mean computed from the *declared* mapping, so the weights
come from the real bookkeeping.
"""
import itertools
from fractions import Fraction

import networkx as nx
import numpy as np
from hypothesis import strategies as st

from pbt.core import Part, Outcome, Violation, HarnessError
from pbt.util import capture_logs

from vermouth.forcefield import ForceField
from vermouth.molecule import Molecule, Block
from vermouth.system import System
from vermouth.map_parser import Mapping
from vermouth.processors.average_beads import do_average_bead, DoAverageBead
from vermouth.processors.do_mapping import do_mapping

PROPERTY = 'C09'
LEVEL = 'exploration'
RULE = ('direct: one atomistic Molecule of 1-12 atoms (integer grid of 1e-3 nm: a centre within +-20 nm plus offsets within '
        '+-1 nm or +-20 nm; ~22% of the atoms have no coordinates: key absent or None; optional mass in [1,250]) and 1-5 particles, '
        'each with a graph of 0-8 of those atoms (atoms shared between particles; subgraph made with Molecule.subgraph or a '
        'plain networkx copy, node order independent of the order of the mapping_weights dict), weights in {0} u ints 1-5 u '
        'floats [1e-3,10], weight keys missing (default 1) or the whole mapping_weights attribute missing, particles without '
        'graph (ignore_missing_graphs True/False); called through do_average_bead, DoAverageBead.run_molecule or run_system '
        'with the weight argument None/False/"mass" and force-field variable center_weight unset/None/"mass".  '
        'non-trivial = some particle has >= 2 positioned constituents with unequal effective weights and >= 1 constituent '
        'without coordinates.  '
        'e2e: 1-3 toy residue types (2-6 atoms in a tree, 1-3 beads, optional bead nobody maps to, every atom maps to 1-2 beads '
        'with weights as above), 1-4 residues, run through do_mapping and DoAverageBead(ignore_missing_graphs=True) with '
        'center_weight unset/"mass" and optional weight normalisation; same non-triviality rule per bead.')
ASSUMPTIONS = [
    'the code treats |sum of weights| < 1e-7 as zero; generated sums of positioned weights are exactly 0 or >= 1e-3 (2e-5 after normalisation), the band in between is outside the domain',
    'weights are non-negative (the statement quantifies over non-negative weights only)',
    'positions are 3-dimensional',
    'a missing weighting attribute (mass) on a constituent is answered with KeyError (repo test test_shoot_weight); a missing graph without ignore_missing_graphs with ValueError (docstring); when both faults are present either is accepted',
    'DoAverageBead(weight=False) means "no extra weighting even if the force field sets center_weight" (repo test test_processor_weight)',
    'the e2e part identifies output beads by (resid, atomname)',
]

GRID = 1000  # grid units per nm
REL_TOL = 1e-9


def _rotations():
    mats = []
    for perm in itertools.permutations(range(3)):
        for signs in itertools.product((1, -1), repeat=3):
            mat = [[0] * 3 for _ in range(3)]
            for row in range(3):
                mat[row][perm[row]] = signs[row]
            det = (mat[0][0] * (mat[1][1] * mat[2][2] - mat[1][2] * mat[2][1])
                   - mat[0][1] * (mat[1][0] * mat[2][2] - mat[1][2] * mat[2][0])
                   + mat[0][2] * (mat[1][0] * mat[2][1] - mat[1][1] * mat[2][0]))
            if det == 1:
                mats.append(mat)
    assert len(mats) == 24
    return mats


ROTATIONS = _rotations()


def rotate_int(mat, vec, trans):
    return [sum(mat[r][c] * vec[c] for c in range(3)) + trans[r] for r in range(3)]


# ---------------------------------------------------------------------------
# reference

def ref_mean(constituents):
    """
    constituents: list of (grid position [i, j, k] or None, weight Fraction).
    Returns None when the position is undefined (zero total weight of the
    positioned constituents), else a tuple of 3 Fractions in nm.
    """
    total = Fraction(0)
    acc = [Fraction(0)] * 3
    for pos, weight in constituents:
        if pos is None:
            continue
        total += weight
        for dim in range(3):
            acc[dim] += weight * Fraction(pos[dim], GRID)
    if total == 0:
        return None
    return tuple(a / total for a in acc)


def compare_position(label, got, constituents, bucket_prefix=''):
    """Check one particle position against the statement.  Returns True when
    the expected position is NaN."""
    if not isinstance(got, np.ndarray) or got.shape != (3,):
        raise Violation(bucket_prefix + 'shape', '%s: position %r is not an array of shape (3,)' % (label, got))
    expected = ref_mean(constituents)
    got_nan = [bool(np.isnan(x)) for x in got]
    if expected is None:
        if not all(got_nan):
            raise Violation(bucket_prefix + 'defined-for-zero-weight',
                            '%s: weights of the positioned constituents sum to zero but position is %r (constituents %r)'
                            % (label, got.tolist(), _show(constituents)))
        return True
    if any(got_nan) or not all(np.isfinite(got)):
        raise Violation(bucket_prefix + 'nan-for-nonzero-weight',
                        '%s: weights of the positioned constituents sum to %s but position is %r (constituents %r)'
                        % (label, float(sum(w for p, w in constituents if p is not None)), got.tolist(), _show(constituents)))
    positioned = [(p, w) for p, w in constituents if p is not None]
    scale = max([1e-3] + [abs(c) / GRID for p, w in positioned for c in p])
    tol = REL_TOL * scale
    for dim in range(3):
        # compare in exact arithmetic: Fraction(float) is exact
        diff = abs(Fraction(float(got[dim])) - expected[dim])
        if diff > Fraction(tol):
            raise Violation(bucket_prefix + 'mean',
                            '%s: position %r differs from the exact weighted mean %r by %.3g in dimension %d (constituents %r)'
                            % (label, got.tolist(), [float(e) for e in expected], float(diff), dim, _show(constituents)))
    contributing = [p for p, w in positioned if w != 0]
    for dim in range(3):
        low = min(p[dim] for p in contributing) / GRID
        high = max(p[dim] for p in contributing) / GRID
        if not low - tol <= got[dim] <= high + tol:
            raise Violation(bucket_prefix + 'bounding-box',
                            '%s: coordinate %d = %r outside [%r, %r] of the contributing atoms' % (label, dim, got[dim], low, high))
    return False


def _show(constituents):
    return [(p, float(w)) for p, w in constituents]


def particle_shape(constituents):
    """(n positioned, n missing, unequal weights among positioned?)"""
    weights = [w for p, w in constituents if p is not None]
    n_missing = sum(1 for p, w in constituents if p is None)
    return len(weights), n_missing, len(set(weights)) > 1


# ---------------------------------------------------------------------------
# part: direct

# Strategies are written to need few primitive draws (a draw costs ~50 us;
# bit masks and fixed-size integer lists instead of nested one_of/composite).

def _ints(low, high, size):
    return st.lists(st.integers(low, high), min_size=size, max_size=size)


def decode_weight(code):
    """One integer in [0, 80000) -> a weight: 0, None (= key absent from
    mapping_weights), an int 1..5 or a float on a 1e-3 grid in [1e-3, 10]."""
    sel, value = code % 8, code // 8
    if sel in (0, 3, 4):
        return 1 + value % 5
    if sel == 1:
        return 0
    if sel == 2:
        return None
    return (value % 10000 + 1) / 1000.0


WEIGHT_CODE = st.integers(0, 79999)


def _bits(mask, size):
    return [bool(mask >> i & 1) for i in range(size)]


def _draw_atoms(draw, n_atoms, wide):
    centre = draw(_ints(-20000, 20000, 3))
    span = 20000 if wide else 1000
    top = 2 ** n_atoms - 1
    missing = _bits(draw(st.integers(0, top)) & draw(st.integers(0, top)), n_atoms)
    which = _bits(draw(st.integers(0, top)), n_atoms)
    offsets = draw(_ints(-span, span, 3 * n_atoms))
    masses = draw(_ints(1000, 250000, n_atoms))
    # some atoms weigh nothing (virtual sites, dummy atoms): mass exactly 0
    massless = _bits(draw(st.integers(0, top)) & draw(st.integers(0, top)) & draw(st.integers(0, top)), n_atoms)
    masses = [0 if massless[i] else m for i, m in enumerate(masses)]
    atoms = []
    for i in range(n_atoms):
        kind = 'pos' if not missing[i] else ('none' if which[i] else 'nokey')
        atoms.append({'pos': [centre[d] + offsets[3 * i + d] for d in range(3)], 'kind': kind,
                      'mass': masses[i] / 1000.0, 'has_mass': True})
    return atoms


@st.composite
def _direct_case(draw):
    head = draw(_ints(0, 11, 8))
    n_atoms = draw(st.integers(1, 12))
    n_particles = draw(st.integers(1, 5))
    atoms = _draw_atoms(draw, n_atoms, head[0] >= 10)
    if head[1] == 11:
        for atom in atoms:
            atom['has_mass'] = False
    elif head[1] == 10:
        for atom in atoms:
            atom['has_mass'] = int(round(atom['mass'] * 1000)) % 2 == 0
    flags = draw(_ints(0, 11, 4 * n_particles))
    particles = []
    for pidx in range(n_particles):
        f_graph, f_weights, f_order, f_old = flags[4 * pidx:4 * pidx + 4]
        mask = draw(st.integers(1, 2 ** n_atoms - 1))
        members = [i for i in range(n_atoms) if mask >> i & 1][:8]
        order = f_order // 3
        if order == 1:
            members = members[::-1]
        elif order == 2:
            members = members[1:] + members[:1]
        elif order == 3:
            members = members[1:2] + members[:1] + members[2:]
        if f_weights == 8:
            members = []
        weights = [decode_weight(code) for code in draw(st.lists(WEIGHT_CODE, min_size=len(members), max_size=len(members)))]
        if f_weights == 9:
            weights = [0 for _ in members]
        old = None if f_old < 6 else [(f_old - 8) * 1000 + pidx, 17 * pidx, -250]
        particles.append({'has_graph': f_graph != 11, 'atoms': members, 'weights': weights,
                          'weights_attr': f_weights < 10, 'old': old,
                          'graph_kind': 'nx' if f_order % 3 == 2 else 'subgraph'})
    call = {
        'via': ['function', 'processor', 'processor', 'system'][head[2] % 4],
        'weight': [None, None, 'mass', 'mass', False, False][head[3] % 6],
        'center': ['unset', 'none', 'mass', 'mass'][head[4] % 4],
        'ignore': head[5] % 4 != 3,
        # the processor object first handles a molecule of a force field with the other centre-weight setting
        'warm': (head[5] + head[7]) % 3 == 0,
    }
    return {
        'atoms': atoms, 'particles': particles, 'call': call,
        'key0': head[6] * 4, 'stride': 1 + head[7] % 3,
        'rot': draw(st.integers(0, 23)),
        'trans': draw(_ints(-30000, 30000, 3)),
        # how the coordinates are held: float arrays (as read from a file), integer arrays or lists (as typed in by hand)
        'pos_dtype': draw(st.sampled_from(['float', 'float', 'float', 'int', 'list'])),
    }


def _strategy_direct(tier):
    return _direct_case()


def _atom_key(case, index):
    return case['key0'] + case['stride'] * index


def _coordinates(case, grid_pos):
    mode = case.get('pos_dtype', 'float')
    if mode == 'float':
        return np.array([c / GRID for c in grid_pos], dtype=float)
    if any(c % GRID for c in grid_pos):
        raise HarnessError('integer coordinates requested for a position off the 1 nm grid')
    if mode == 'int':
        return np.array([c // GRID for c in grid_pos], dtype=int)
    return [c // GRID for c in grid_pos]


def _build_direct(case):
    """Real objects from the case description."""
    call = case['call']
    ff_aa = ForceField(name='c09_aa')
    ff_cg = ForceField(name='c09_cg')
    if call['center'] == 'none':
        ff_cg.variables['center_weight'] = None
    elif call['center'] == 'mass':
        ff_cg.variables['center_weight'] = 'mass'
    aa = Molecule(force_field=ff_aa)
    for index, atom in enumerate(case['atoms']):
        attrs = {'atomname': 'A%d' % index, 'resname': 'XXX', 'resid': 1, 'chain': 'A'}
        if atom['kind'] == 'pos':
            attrs['position'] = _coordinates(case, atom['pos'])
        elif atom['kind'] == 'none':
            attrs['position'] = None
        if atom['has_mass']:
            attrs['mass'] = atom['mass']
        aa.add_node(_atom_key(case, index), **attrs)
    keys = [_atom_key(case, i) for i in range(len(case['atoms']))]
    aa.add_edges_from(zip(keys[:-1], keys[1:]))
    cg = Molecule(force_field=ff_cg)
    for pidx, particle in enumerate(case['particles']):
        attrs = {'atomname': 'B%d' % pidx, 'resname': 'XXX', 'resid': 1, 'chain': 'A'}
        if particle['old'] is not None:
            attrs['position'] = np.array([c / GRID for c in particle['old']], dtype=float)
        if particle['has_graph']:
            members = sorted(_atom_key(case, i) for i in particle['atoms'])
            if particle['graph_kind'] == 'subgraph':
                attrs['graph'] = aa.subgraph(members)
            else:
                graph = nx.Graph()
                for key in members:
                    node = dict(aa.nodes[key])
                    if node.get('position') is not None:
                        node['position'] = node['position'].copy()
                    graph.add_node(key, **node)
                attrs['graph'] = graph
        if particle['weights_attr']:
            attrs['mapping_weights'] = {_atom_key(case, i): w
                                        for i, w in zip(particle['atoms'], particle['weights']) if w is not None}
        cg.add_node(pidx, **attrs)
    cg.add_edges_from((i, i + 1) for i in range(len(case['particles']) - 1))
    return aa, cg


def _uses_mass(call):
    """From the documented interface: which attribute weights the average."""
    if call['via'] == 'function':
        return call['weight'] == 'mass'
    if call['weight'] is None:
        return call['center'] == 'mass'
    if call['weight'] is False:
        return False
    return call['weight'] == 'mass'


def _warm_up(processor, call):
    """The processor object handles another molecule first, one whose force field has the other centre-weight setting; what
    it does to the molecule of the case afterwards must not depend on that."""
    ff = ForceField(name='c09_warm')
    if call['center'] != 'mass':
        ff.variables['center_weight'] = 'mass'
    graph = Molecule(force_field=ff)
    graph.add_node(0, atomname='W0', resname='WRM', resid=1, mass=12.0, position=np.array([0.0, 0.0, 0.0]))
    graph.add_node(1, atomname='W1', resname='WRM', resid=1, mass=1.0, position=np.array([1.0, 0.5, 0.0]))
    graph.add_edge(0, 1)
    warm = Molecule(force_field=ff)
    warm.add_node(0, atomname='WB', resname='WRM', resid=1, graph=graph, mapping_weights={0: 1, 1: 1})
    processor.run_molecule(warm)
    want = np.array([1.0 / 13.0, 0.5 / 13.0, 0.0]) if _uses_mass(dict(call, via='processor', center='mass' if call['center'] != 'mass' else 'unset')) \
        else np.array([0.5, 0.25, 0.0])
    if not np.allclose(warm.nodes[0]['position'], want, atol=1e-9):
        raise Violation('warm-up-molecule', 'the two-atom molecule handled first is at %r, expected %r' % (warm.nodes[0]['position'], want))


def _call_direct(case, cg):
    call = case['call']
    if call['via'] == 'function':
        weight = call['weight'] if call['weight'] else None
        result = do_average_bead(cg, ignore_missing_graphs=call['ignore'], weight=weight)
    elif call['via'] == 'processor':
        processor = DoAverageBead(ignore_missing_graphs=call['ignore'], weight=call['weight'])
        if call.get('warm'):
            _warm_up(processor, call)
        result = processor.run_molecule(cg)
    else:
        system = System(force_field=cg.force_field)
        system.add_molecule(cg)
        processor = DoAverageBead(ignore_missing_graphs=call['ignore'], weight=call['weight'])
        if call.get('warm'):
            _warm_up(processor, call)
        processor.run_system(system)
        if len(system.molecules) != 1:
            raise Violation('system-molecules', 'run_system changed the number of molecules to %d' % len(system.molecules))
        result = system.molecules[0]
    if result is not cg:
        raise Violation('not-in-place', 'the molecule is documented to be updated in place but %r was returned' % (result,))
    return result


def _constituents(case, particle, use_mass):
    out = []
    for index, weight in zip(particle['atoms'], particle['weights']):
        atom = case['atoms'][index]
        if not particle['weights_attr'] or weight is None:
            weight = 1
        eff = Fraction(weight)
        if use_mass:
            eff *= Fraction(atom['mass'])
        out.append((atom['pos'] if atom['kind'] == 'pos' else None, eff))
    return out


def _positions_direct(case, expect_error=None):
    """Build, run, return list of positions (array or None per particle)."""
    aa, cg = _build_direct(case)
    before_atoms = {key: (None if node.get('position') is None else node['position'].copy())
                    for key, node in aa.nodes.items()}
    before_weights = {idx: dict(node['mapping_weights']) for idx, node in cg.nodes.items() if 'mapping_weights' in node}
    _call_direct(case, cg)
    # inputs are not disturbed
    for key, node in aa.nodes.items():
        old = before_atoms[key]
        new = node.get('position')
        if (old is None) != (new is None) or (old is not None and not np.array_equal(old, new)):
            raise Violation('atoms-modified', 'position of atom %r changed from %r to %r' % (key, old, new))
    for idx, old in before_weights.items():
        if cg.nodes[idx].get('mapping_weights') != old:
            raise Violation('weights-modified', 'mapping_weights of particle %r changed' % idx)
    for idx, node in cg.nodes.items():
        if 'graph' in node:
            for key, sub in node['graph'].nodes.items():
                kind = case['atoms'][(key - case['key0']) // case['stride']]['kind']
                if (kind == 'nokey') != ('position' not in sub) or (kind == 'none' and sub['position'] is not None):
                    raise Violation('atoms-modified', 'missing-coordinate marker of atom %r in particle %r changed' % (key, idx))
    return [cg.nodes[i].get('position') for i in range(len(case['particles']))]


def _same(a, b, tol):
    if a is None or b is None:
        return a is None and b is None
    if a.shape != b.shape:
        return False
    for x, y in zip(a, b):
        if np.isnan(x) or np.isnan(y):
            if not (np.isnan(x) and np.isnan(y)):
                return False
        elif abs(x - y) > tol:
            return False
    return True


def _run_direct(case):
    if case.get('pos_dtype', 'float') != 'float':
        # whole nanometres only, here and in every variation derived below
        case = dict(case, atoms=[dict(a, pos=[c * GRID for c in a['pos']]) for a in case['atoms']],
                    trans=[t * GRID for t in case['trans']])
    call = case['call']
    particles = case['particles']
    use_mass = _uses_mass(call)
    classes = []
    missing_graph = [i for i, p in enumerate(particles) if not p['has_graph']]
    used_atoms = {i for p in particles if p['has_graph'] for i in p['atoms']}
    missing_mass = use_mass and any(not case['atoms'][i]['has_mass'] for i in used_atoms)
    expected_errors = []
    if missing_graph and not call['ignore']:
        expected_errors.append(ValueError)
    if missing_mass:
        expected_errors.append(KeyError)
    if expected_errors:
        try:
            _positions_direct(case)
        except tuple(expected_errors) as exc:
            name = type(exc).__name__
            return Outcome(['rejected-' + name], False)
        raise Violation('missing-input-accepted',
                        'expected %s (missing graph: %r without ignore=%r; missing mass: %r) but the call returned'
                        % ('/'.join(e.__name__ for e in expected_errors), missing_graph, call['ignore'], missing_mass))

    got = _positions_direct(case)
    nontrivial = False
    scale_all = 1e-3
    n_nan = 0
    for pidx, particle in enumerate(particles):
        label = 'particle %d' % pidx
        if not particle['has_graph']:
            old = None if particle['old'] is None else np.array([c / GRID for c in particle['old']], dtype=float)
            if not _same(got[pidx], old, 0.0):
                raise Violation('graphless-touched', '%s has no graph but its position changed from %r to %r' % (label, old, got[pidx]))
            classes.append('particle-without-graph-skipped')
            continue
        cons = _constituents(case, particle, use_mass)
        is_nan = compare_position(label, got[pidx], cons)
        n_pos, n_missing, unequal = particle_shape(cons)
        scale_all = max([scale_all] + [abs(c) / GRID for p, w in cons if p is not None for c in p])
        if is_nan:
            n_nan += 1
            classes.append('nan:all-missing' if n_pos == 0 and cons else ('nan:empty-graph' if not cons else 'nan:zero-weights'))
        if n_pos >= 2 and unequal and n_missing >= 1:
            nontrivial = True
        if n_missing and n_pos:
            classes.append('mixed-missing-and-positioned')
        if any(w == 0 for p, w in cons if p is not None) and not is_nan:
            classes.append('zero-weight-positioned-atom')
        if not particle['weights_attr']:
            classes.append('no-mapping_weights-attr')
        elif any(w is None for w in particle['weights']):
            classes.append('default-weight-1')
        if particle['weights_attr'] and len(cons) >= 2 and unequal \
                and all(isinstance(w, int) for w in particle['weights'] if w is not None):
            classes.append('all-int-unequal-weights')
        if particle['atoms'] != sorted(particle['atoms']) and unequal:
            classes.append('weights-dict-order-differs-from-graph')
    shared = [i for i in used_atoms if sum(1 for p in particles if p['has_graph'] and i in p['atoms']) > 1]
    if shared:
        classes.append('shared-atom')
    if use_mass:
        classes.append('mass-weighted')
    elif any(case['atoms'][i]['has_mass'] for i in used_atoms):
        classes.append('mass-present-but-unused')
    if call['weight'] is False and call['center'] == 'mass' and call['via'] != 'function':
        classes.append('weight-False-overrides-center_weight')
    classes.append('via-' + call['via'])
    if case.get('pos_dtype', 'float') != 'float':
        classes.append('coordinates-held-as-' + case['pos_dtype'])
    if use_mass and any(case['atoms'][i]['has_mass'] and case['atoms'][i]['mass'] == 0 for i in used_atoms):
        classes.append('massless-atom-in-mass-weighted-particle')
    if call.get('warm') and call['via'] != 'function':
        classes.append('processor-object-used-before')
    kinds = {case['atoms'][i]['kind'] for i in used_atoms}
    if 'nokey' in kinds:
        classes.append('missing:no-key')
    if 'none' in kinds:
        classes.append('missing:None')
    if nontrivial:
        classes.append('nontrivial')

    # metamorphic 1: rigid motion (exact rotation + grid translation)
    mat = ROTATIONS[case['rot']]
    moved = dict(case)
    moved['atoms'] = [dict(a, pos=rotate_int(mat, a['pos'], case['trans'])) for a in case['atoms']]
    moved['particles'] = [dict(p, old=None if p['old'] is None else rotate_int(mat, p['old'], case['trans'])) for p in particles]
    got_moved = _positions_direct(moved)
    scale_moved = max(scale_all, max([1e-3] + [abs(c) / GRID for i in used_atoms for c in moved['atoms'][i]['pos']]))
    rot_np = np.array(mat, dtype=float)
    trans_np = np.array([t / GRID for t in case['trans']], dtype=float)
    for pidx, particle in enumerate(particles):
        if not particle['has_graph']:
            continue
        want = rot_np @ got[pidx] + trans_np
        if not _same(got_moved[pidx], want, REL_TOL * scale_moved):
            raise Violation('rigid-motion', 'particle %d: moving all atoms by rotation #%d and translation %r gives %r, '
                            'the moved original position is %r' % (pidx, case['rot'], case['trans'], got_moved[pidx].tolist(), want.tolist()))

    # metamorphic 2: the other kind of missing-coordinate marker
    swap = {'nokey': 'none', 'none': 'nokey', 'pos': 'pos'}
    swapped = dict(case)
    swapped['atoms'] = [dict(a, kind=swap[a['kind']]) for a in case['atoms']]
    got_swapped = _positions_direct(swapped)
    # metamorphic 3: constituents without coordinates removed from the particle altogether
    pruned = dict(case)
    pruned['particles'] = []
    for particle in particles:
        keep = [k for k, i in enumerate(particle['atoms']) if case['atoms'][i]['kind'] == 'pos']
        pruned['particles'].append(dict(particle, atoms=[particle['atoms'][k] for k in keep],
                                        weights=[particle['weights'][k] for k in keep]))
    got_pruned = _positions_direct(pruned)
    # metamorphic 4: other weights / masses on the constituents without coordinates
    reweighted = dict(case)
    reweighted['atoms'] = [a if a['kind'] == 'pos' else dict(a, mass=a['mass'] * 3 + 1) for a in case['atoms']]
    reweighted['particles'] = []
    for particle in particles:
        new_weights = [w if case['atoms'][i]['kind'] == 'pos' else (7 if not w else w * 2 + 1 if w is not None else 3)
                       for i, w in zip(particle['atoms'], particle['weights'])]
        reweighted['particles'].append(dict(particle, weights=new_weights))
    got_reweighted = _positions_direct(reweighted)
    for name, other in (('missing-marker-swap', got_swapped), ('missing-removed', got_pruned),
                        ('missing-reweighted', got_reweighted)):
        for pidx, particle in enumerate(particles):
            if not particle['has_graph']:
                continue
            if not _same(other[pidx], got[pidx], 1e-12 * scale_all):
                raise Violation(name, 'particle %d: position %r became %r under the variation "%s" of constituents without coordinates'
                                % (pidx, got[pidx].tolist(), other[pidx].tolist(), name))
    return Outcome(sorted(set(classes)), nontrivial)


# ---------------------------------------------------------------------------
# part: e2e (do_mapping + DoAverageBead)

@st.composite
def _e2e_case(draw):
    head = draw(_ints(0, 11, 4))
    n_types = draw(st.integers(1, 3))
    restypes = []
    for _ in range(n_types):
        n_atoms = draw(st.integers(2, 6))
        n_beads = draw(st.integers(1, 3))
        parents = [p % i for i, p in enumerate(draw(_ints(0, 59, n_atoms - 1)), start=1)]
        targets = draw(_ints(0, 11, n_atoms))
        codes = draw(st.lists(WEIGHT_CODE, min_size=2 * n_atoms, max_size=2 * n_atoms))
        mapping = []
        for aidx in range(n_atoms):
            first = targets[aidx] % n_beads
            entry = [[first, decode_weight(codes[2 * aidx])]]
            if n_beads > 1 and targets[aidx] >= 6:
                second = (first + 1 + (targets[aidx] // 3) % (n_beads - 1)) % n_beads
                entry.append([second, decode_weight(codes[2 * aidx + 1])])
            # a mapping always states a weight: "absent" does not exist here
            mapping.append([[bead, 1 if weight is None else weight] for bead, weight in entry])
        restypes.append({'n_atoms': n_atoms, 'parents': parents, 'n_beads': n_beads,
                         'dummy': draw(st.integers(0, 3)) == 3, 'mapping': mapping})
    rtypes = draw(_ints(0, n_types - 1, draw(st.integers(1, 4))))
    residues = [{'type': rtype, 'atoms': _draw_atoms(draw, restypes[rtype]['n_atoms'], False)} for rtype in rtypes]
    return {'restypes': restypes, 'residues': residues,
            'center': ['unset', 'mass', 'mass'][head[0] % 3],
            'normalize': head[1] % 2 == 1,
            'mass_on_block': head[2] % 2 == 1}


def _strategy_e2e(tier):
    return _e2e_case()


def _bead_sums(restype):
    sums = [Fraction(0)] * restype['n_beads']
    for targets in restype['mapping']:
        for bead, weight in targets:
            sums[bead] += Fraction(weight)
    return sums


def _run_e2e(case):
    ff_aa = ForceField(name='c09_e2e_aa')
    ff_cg = ForceField(name='c09_e2e_cg')
    if case['center'] == 'mass':
        ff_cg.variables['center_weight'] = 'mass'
    mappings = {}
    # weight normalisation divides by the declared sum of weights per bead: only defined when all are > 0
    normalize = case['normalize'] and all(s > 0 for rt in case['restypes'] for s in _bead_sums(rt))
    for tidx, restype in enumerate(case['restypes']):
        resname = 'R%d' % tidx
        block_aa = Block(force_field=ff_aa)
        block_aa.name = resname
        for aidx in range(restype['n_atoms']):
            block_aa.add_node('A%d' % aidx, resid=1, resname=resname, atomname='A%d' % aidx)
        for aidx, parent in enumerate(restype['parents'], start=1):
            block_aa.add_edge('A%d' % parent, 'A%d' % aidx)
        block_cg = Block(force_field=ff_cg)
        block_cg.name = resname
        bead_names = ['B%d' % b for b in range(restype['n_beads'])]
        if restype['dummy']:
            bead_names.append('D')
        for name in bead_names:
            attrs = {'resid': 1, 'resname': resname, 'atomname': name}
            if case['mass_on_block']:
                attrs['mass'] = 72.0  # the CG particle's own mass must play no role
            block_cg.add_node(name, **attrs)
        block_cg.add_edges_from(zip(bead_names[:-1], bead_names[1:]))
        ff_aa.blocks[resname] = block_aa
        ff_cg.blocks[resname] = block_cg
        mapping = {'A%d' % aidx: {'B%d' % bead: weight for bead, weight in targets}
                   for aidx, targets in enumerate(restype['mapping'])}
        mappings[resname] = Mapping(block_aa, block_cg, mapping=mapping, references={},
                                    ff_from=ff_aa, ff_to=ff_cg, names=(resname,), extra=(),
                                    normalize_weights=normalize)
    mol = Molecule(force_field=ff_aa)
    key = 0
    first_last = []
    for ridx, residue in enumerate(case['residues'], start=1):
        restype = case['restypes'][residue['type']]
        start = key
        for aidx, atom in enumerate(residue['atoms']):
            attrs = {'resid': ridx, 'resname': 'R%d' % residue['type'], 'atomname': 'A%d' % aidx,
                     'chain': 'A', 'mass': atom['mass']}
            if atom['kind'] == 'pos':
                attrs['position'] = np.array([c / GRID for c in atom['pos']], dtype=float)
            elif atom['kind'] == 'none':
                attrs['position'] = None
            mol.add_node(key, **attrs)
            key += 1
        for aidx, parent in enumerate(restype['parents'], start=1):
            mol.add_edge(start + parent, start + aidx)
        first_last.append((start, key - 1))
    for (_, last), (first, _) in zip(first_last[:-1], first_last[1:]):
        mol.add_edge(last, first)

    with capture_logs():
        cg = do_mapping(mol, {ff_aa.name: {ff_cg.name: mappings}}, ff_cg,
                        attribute_keep=('chain',), attribute_must=('resname',), attribute_stash=('resid',))
        result = DoAverageBead(ignore_missing_graphs=True).run_molecule(cg)
    if result is not cg:
        raise Violation('not-in-place', 'DoAverageBead.run_molecule returned another object')

    by_id = {}
    for idx, node in cg.nodes.items():
        ident = (node.get('resid'), node.get('atomname'))
        if ident in by_id:
            raise Violation('e2e-bookkeeping', 'two output particles are called %r' % (ident,))
        by_id[ident] = node
    use_mass = case['center'] == 'mass'
    classes = []
    nontrivial = False
    expected_ids = set()
    for ridx, residue in enumerate(case['residues'], start=1):
        restype = case['restypes'][residue['type']]
        beads = ['B%d' % b for b in range(restype['n_beads'])] + (['D'] if restype['dummy'] else [])
        for bidx, bead in enumerate(beads):
            ident = (ridx, bead)
            expected_ids.add(ident)
            if ident not in by_id:
                raise Violation('e2e-bookkeeping', 'no output particle %r; have %r' % (ident, sorted(by_id, key=str)))
            cons = []
            declared = False
            for atom, targets in zip(residue['atoms'], restype['mapping']):
                for target, weight in targets:
                    if bead != 'D' and target == bidx:
                        declared = True
                        eff = Fraction(weight)
                        if use_mass:
                            eff *= Fraction(atom['mass'])
                        cons.append((atom['pos'] if atom['kind'] == 'pos' else None, eff))
            node = by_id[ident]
            if 'position' not in node:
                raise Violation('e2e-no-position', 'particle %r did not get a position' % (ident,))
            is_nan = compare_position('residue %d bead %s' % ident, node['position'], cons, bucket_prefix='e2e-')
            n_pos, n_missing, unequal = particle_shape(cons)
            if n_pos >= 2 and unequal and n_missing >= 1:
                nontrivial = True
            if is_nan:
                classes.append('nan:nobody-maps-here' if not declared else
                               ('nan:all-missing' if n_pos == 0 else 'nan:zero-weights'))
            if n_missing and n_pos:
                classes.append('mixed-missing-and-positioned')
    if set(by_id) != expected_ids:
        raise Violation('e2e-bookkeeping', 'unexpected output particles %r' % (sorted(set(by_id) - expected_ids, key=str),))
    if any(len(targets) > 1 for rt in case['restypes'] for targets in rt['mapping']):
        classes.append('shared-atom')
    if use_mass:
        classes.append('mass-weighted')
    if normalize:
        classes.append('normalized-weights')
    if len(case['residues']) > 1:
        classes.append('multi-residue')
    if nontrivial:
        classes.append('nontrivial')
    return Outcome(sorted(set(classes)), nontrivial)


PARTS = [
    Part('direct', _run_direct, strategy=_strategy_direct,
         examples={'quick': 20000, 'thorough': 480000},
         floors={'nontrivial': 0.15, 'shared-atom': 0.3, 'mass-weighted': 0.2, 'mass-present-but-unused': 0.15,
                 'nan:all-missing': 0.02, 'nan:zero-weights': 0.02, 'zero-weight-positioned-atom': 0.1,
                 'particle-without-graph-skipped': 0.03, 'rejected-ValueError': 0.01, 'rejected-KeyError': 0.01,
                 'missing:no-key': 0.15, 'missing:None': 0.15, 'default-weight-1': 0.05,
                 'no-mapping_weights-attr': 0.05, 'all-int-unequal-weights': 0.03,
                 'weights-dict-order-differs-from-graph': 0.2,
                 'weight-False-overrides-center_weight': 0.02}),
    Part('e2e', _run_e2e, strategy=_strategy_e2e,
         examples={'quick': 4000, 'thorough': 64000},
         floors={'nontrivial': 0.05, 'shared-atom': 0.3, 'mass-weighted': 0.3, 'normalized-weights': 0.1,
                 'nan:nobody-maps-here': 0.1, 'multi-residue': 0.25, 'mixed-missing-and-positioned': 0.2}),
]
