"""
C03  Coordinates, molecule types and system topology agree atom for atom.

A system is a sequence of instances of 1-4 small CG-like templates.  It goes
through NameMolType -> write_gmx_topology + write_pdb (+ write_gro) ->
DeferredFileWriter().write() in a private temporary working directory.  What
was written is read back with readers that do not use vermouth (own .top
parser, the C02 ITP reader, own fixed-column PDB / GRO readers) and compared:

 (1) [ molecules ] expands to the sequence of moltype names of the molecules,
     in order, written as run lengths of successive identical names;
 (2) every moltype has its <name>.itp, is #included, nothing else is written /
     included, no file is opened for writing twice by the topology writer
     (part `include-once`: each moltype file is included exactly once);
 (3) the k-th coordinate record of molecule m (PDB: between TER records, GRO:
     consecutive records) has the atom name / residue name / residue number of
     the k-th [ atoms ] line of the ITP the .top names for m, modulo the width
     of the coordinate columns; the PDB coordinates are those of that atom;
 (4) all molecules that carry one name would be written as the same ITP text
     (and that text is what is in the file); with deduplication molecules that
     differ only in ignored attributes (position, chain, graph,
     mapping_weights) do share a name; without it all names differ.

Parts
  main          (1) (2) (3 PDB) (4)
  gro           the same plus (3) on the GRO file (bucket gro-order / gro-vs-itp)
  include-once  the same plus "each moltype file #included exactly once"
  cli-order     the same, with SortMoleculeAtoms between naming and writing as
                bin/martinize2 does (buckets prefixed `sorted:`)
"""
import copy
import io
import json
import os
import shutil
import tempfile

import networkx as nx
import numpy as np
from hypothesis import strategies as st

from pbt.core import Part, Outcome, Violation
from pbt import c02_ref_itp as ref

import vermouth
import vermouth.gmx.topology
from vermouth.forcefield import ForceField
from vermouth.file_writer import DeferredFileWriter
from vermouth.gmx.gro import write_gro
from vermouth.gmx.itp import write_molecule_itp
from vermouth.gmx.topology import write_gmx_topology
from vermouth.pdb.pdb import write_pdb
from vermouth.processors.name_moltype import NameMolType
from vermouth.processors.sort_molecule_atoms import SortMoleculeAtoms

PROPERTY = 'C03'
LEVEL = 'exploration'
RULE = ('systems of 1-8 molecules = instances of 1-4 templates (1-4 residues of 1-3 beads: 1-12 atoms with atomname/resname/resid/'
        'atype/charge_group, charge/mass present, absent or mixed, resids from 1 or around 1000 / 10000; node keys 0..n-1, offset or '
        'sparse ints in arbitrary order; node order = identity / permutation / reversed of the residue order; atomid absent, in '
        'residue order, in node order or another permutation, offset 0-99000; 0-6 interactions (bonds, constraints, angles, '
        'dihedrals, impropers, exclusions, position_restraints; ifdef/ifndef/comment/group/version meta); edges from bonds + extra; '
        'nrexcl 1-3).  The instance sequence is random, ABAB.., AABA.. or blocks; an instance is the template itself with its own '
        'position shift / chain labelling (none, one letter, per-residue letters) / graph + mapping_weights attributes, or the '
        'template changed in ONE detail drawn from a per-case palette of 0-3 variants (interaction parameter, atype, atomname, '
        'resname, resid, charge, mass, charge_group, edge, node order, atomid swap, interaction dropped/added/swapped/meta, nrexcl, '
        'node key).  deduplicate on (2/3) / off, molname, molecule meta (define, post_section_lines, ...), header, defines drawn.  '
        'non-trivial = >= 3 molecules, >= 2 from one template, (some name in two separated runs or a one-detail variant next to '
        'its template) and written (atom-id) order != node order in >= 1 molecule; distinct by hash of the case description')
ASSUMPTIONS = [
    'system.meta["header"] is a non-empty list and the system has a force field (as the CLI guarantees); molecule.meta is the same '
    'for all molecules',
    'all instances of a template use the same node keys (share_moltype_with compares node keys; the pipeline numbers every molecule alike)',
    'numeric variants differ by >= 0.5 and integers stay <= 99999, so that the numpy.isclose tolerance of utils.are_different (rtol '
    '1e-5, also applied to integers such as resid / atomid) is never what decides; see notes/C03.md',
    'interaction parameters are strings; an interaction never has both ifdef and ifndef',
    'a coordinate-file field that does not fit its column may keep either its leading or its trailing characters (C16 judges that)',
    'a variant that does not change the written ITP (extra edge, other node key, node order under complete atomids) may or may not '
    'share the name of its template: the statement only forbids sharing when the written topologies differ',
    'molecule names contain no path separator or blank (they are used as file names)',
    'part cli-order: SortMoleculeAtoms with its default arguments, chain present on all or none of the atoms of a molecule',
    '"written exactly once" is observed by counting the write-mode calls of vermouth.gmx.topology.deferred_open (wrapped during '
    'write_gmx_topology); if that module attribute disappears the count is silently skipped',
    'a violation that is an open known finding hides the rest of its case, therefore the three assertions that fail on the unchanged '
    'tree live in parts of their own (gro, include-once, cli-order) and are raised after every other assertion passed',
]

PDB_W = {'atomname': 4, 'resname': 3, 'resid': 4}
GRO_W = {'atomname': 5, 'resname': 5, 'resid': 5}
IGNORED = ('position', 'chain', 'graph', 'mapping_weights')

RES_KINDS = [
    ('ALA', ['BB', 'SC1', 'SC2']),
    ('LYS', ['BB', 'SC1', 'SC2']),
    ('GLY', ['BB', 'CA', 'O']),
    ('POPC', ['NC3', 'PO4', 'GL1']),
    ('W', ['W', 'WM', 'WP']),
    ('CHOL1', ['ROH', 'R1', 'R2']),
    ('TRPXY', ['BB', 'SC1A', 'SC10B']),
    ('ION', ['NA+', 'CL-', 'CA2+']),
]
ATYPES = ['P5', 'Qd', 'SC4', 'TN6d', 'C1', 'Q5']
ATOMNAME_ALT = ['BB', 'SC1', 'XX', 'D1']
RESNAME_ALT = ['ALA', 'GLY', 'DPPC', 'XYZ']
CHARGES = [0.0, 1.0, -1.0, 0.5]
ITYPES = [('bonds', 2), ('bonds', 2), ('constraints', 2), ('angles', 3), ('dihedrals', 4), ('impropers', 4),
          ('exclusions', 2), ('exclusions', 3), ('position_restraints', 1)]
PARAMS = {
    'bonds': [['1', '0.47', '1250'], ['1', '0.35', '5000'], ['6', '0.5', '700']],
    'constraints': [['1', '0.31'], ['1', '0.27']],
    'angles': [['2', '120', '25'], ['10', '100', '15']],
    'dihedrals': [['1', '180', '10', '2'], ['2', '0', '50']],
    'impropers': [['2', '0', '50'], ['2', '180', '200']],
    'exclusions': [[]],
    'position_restraints': [['1', 'POSRES_FC', 'POSRES_FC', 'POSRES_FC'], ['1', '1000', '1000', '1000']],
}
IMETA = [{}, {}, {}, {'ifdef': 'FLEXIBLE'}, {'ifndef': 'FLEXIBLE'}, {'comment': 'BB-SC1'}, {'group': 'Backbone bonds'},
         {'version': 1}, {'ifdef': 'POSRES'}]
MOLMETA = [{}, {}, {'define': {'POSRES_FC': 1000}}, {'post_section_lines': {'atoms': ['; end of atoms']}},
           {'some_flag': True, 'define': {'K_B': '1250'}}]
HEADERS = ['generated by the C03 check', 'second line', 'a ; b', '', 'martinize2 -f in.pdb -o topol.top']
VARIANT_KINDS = ['inter-neighbour', 'param-close', 'key-swap', 'key-swap', 'param', 'param', 'atype', 'atype', 'atomname', 'atomname', 'resname', 'resid', 'resid', 'charge', 'mass',
                 'charge_group', 'edge', 'node-order', 'node-order', 'atomid', 'atomid', 'inter-drop', 'inter-add', 'inter-swap',
                 'inter-meta', 'nrexcl', 'key']


# ---------------------------------------------------------------------------
# generator

@st.composite
def _template(draw):
    residues = draw(st.lists(st.tuples(st.integers(0, len(RES_KINDS) - 1), st.integers(1, 3)), min_size=1, max_size=4))
    resid0 = draw(st.sampled_from([1, 1, 1, 2, 17, 998, 9997, 0, 0, -2]))
    resid_step = draw(st.sampled_from([1, 1, 1, 2]))
    atoms = []
    for r, (kind, size) in enumerate(residues):
        resname, names = RES_KINDS[kind]
        for p in range(size):
            atoms.append({'atomname': names[p], 'resname': resname, 'resid': resid0 + r * resid_step, 'res': r})
    n = len(atoms)
    atypes = draw(st.lists(st.integers(0, len(ATYPES) - 1), min_size=n, max_size=n))
    cmode = draw(st.sampled_from(['all', 'all', 'none', 'mixed']))
    extras = draw(st.lists(st.tuples(st.integers(0, len(CHARGES) - 1), st.booleans(), st.booleans()), min_size=n, max_size=n))
    cg_mode = draw(st.sampled_from(['atom', 'atom', 'residue']))
    for i, atom in enumerate(atoms):
        atom['atype'] = ATYPES[atypes[i]]
        atom['charge_group'] = i + 1 if cg_mode == 'atom' else atom['res'] + 1
        charge_idx, has_charge, has_mass = extras[i]
        if cmode == 'all' or (cmode == 'mixed' and has_charge):
            atom['charge'] = CHARGES[charge_idx]
            if cmode == 'mixed' and has_mass:
                atom['mass'] = 72.0
    key_mode = draw(st.sampled_from(['range', 'offset', 'sparse', 'sparse', 'huge']))
    if key_mode == 'range':
        keys = list(range(n))
    elif key_mode == 'huge':
        # node keys as global atom indices of a very large system
        start = draw(st.sampled_from([100000, 1000000, 2 ** 31, 10 ** 12]))
        keys = list(range(start, start + n))
    elif key_mode == 'offset':
        start = draw(st.integers(-5, 300))
        keys = list(range(start, start + n))
    else:
        keys = draw(st.lists(st.integers(-20, 200), min_size=n, max_size=n, unique=True))
    order_mode = draw(st.sampled_from(['reversed', 'perm', 'perm', 'identity']))
    if order_mode == 'identity' or n == 1:
        order = list(range(n))
    elif order_mode == 'reversed':
        order = list(range(n))[::-1]
    else:
        order = list(draw(st.permutations(list(range(n)))))
    atomid_mode = draw(st.sampled_from(['logical', 'none', 'perm', 'logical', 'none', 'perm', 'logical', 'node', 'partial']))
    base = draw(st.sampled_from([0, 0, 0, 10, 1000, 99000]))
    if atomid_mode == 'none':
        atomid = None
    elif atomid_mode == 'logical':
        atomid = [base + i + 1 for i in range(n)]
    elif atomid_mode == 'node':
        atomid = [0] * n
        for rank, l in enumerate(order):
            atomid[l] = base + rank + 1
    elif atomid_mode == 'partial':
        # some atoms numbered, some not (a molecule extended by hand after it was read): the statement does not say where the
        # unnumbered ones go, but every writer has to put them at the same place
        atomid = [base + i + 1 for i in draw(st.permutations(list(range(n))))]
        for l in draw(st.lists(st.integers(0, n - 1), min_size=1, max_size=max(1, n - 1), unique=True)):
            atomid[l] = None
    else:
        atomid = [base + i + 1 for i in draw(st.permutations(list(range(n))))]
    interactions = []
    usable = [(name, k) for name, k in ITYPES if k <= n]
    for _ in range(draw(st.integers(0, 6))):
        name, k = draw(st.sampled_from(usable))
        members = draw(st.lists(st.integers(0, n - 1), min_size=k, max_size=k, unique=True))
        params = PARAMS[name][draw(st.integers(0, len(PARAMS[name]) - 1))]
        meta = IMETA[draw(st.integers(0, len(IMETA) - 1))]
        interactions.append({'type': name, 'atoms': members, 'params': list(params), 'meta': dict(meta)})
    if draw(st.sampled_from([False, False, True])):
        # parameters held as numbers, as computed ones (elastic network, Go model, scfix) are
        for inter in interactions:
            inter['params'] = [float(p) if '.' in p and p.replace('.', '').isdigit() else p for p in inter['params']]
    edges = set()
    if draw(st.booleans()):
        for inter in interactions:
            if inter['type'] in ('bonds', 'constraints'):
                edges.add(tuple(sorted(inter['atoms'])))
    if n >= 2:
        for a, b in draw(st.lists(st.tuples(st.integers(0, n - 1), st.integers(0, n - 1)), max_size=3)):
            if a != b:
                edges.add((min(a, b), max(a, b)))
    pos = draw(st.lists(st.tuples(st.integers(-4000, 4000), st.integers(-4000, 4000), st.integers(-4000, 4000)),
                        min_size=n, max_size=n))
    return {
        'atoms': atoms, 'keys': keys, 'order': order, 'atomid': atomid,
        'interactions': interactions, 'edges': sorted(list(e) for e in edges),
        'nrexcl': draw(st.integers(1, 3)), 'pos': [list(p) for p in pos],
    }


_variant = st.fixed_dictionaries({
    'kind': st.sampled_from(VARIANT_KINDS), 'i': st.integers(0, 59), 'j': st.integers(0, 59), 'v': st.integers(0, 59),
})


@st.composite
def _case(draw):
    n_templates = draw(st.sampled_from([2, 2, 3, 1, 2, 3, 4]))
    templates = [draw(_template()) for _ in range(n_templates)]
    variants = draw(st.lists(_variant, min_size=1, max_size=3))
    length = draw(st.sampled_from([4, 5, 3, 6, 4, 5, 3, 6, 7, 8, 2, 1]))
    pattern = draw(st.sampled_from(['abab', 'random', 'aaba', 'random', 'blocks', 'random']))
    if pattern == 'random':
        seq = draw(st.lists(st.integers(0, n_templates - 1), min_size=length, max_size=length))
    elif pattern == 'abab':
        seq = [i % n_templates for i in range(length)]
    elif pattern == 'aaba':
        seq = [(1 % n_templates) if i % 4 == 2 else 0 for i in range(length)]
    else:
        seq = sorted(draw(st.lists(st.integers(0, n_templates - 1), min_size=length, max_size=length)))
    variant_choice = st.sampled_from([None, None, None] + list(range(len(variants))))
    chain_choice = st.sampled_from(['A', None, 'B', 'A', None, 'C', 'AB', 'BA', 'ABC'])
    shift = st.tuples(st.integers(-4000, 4000), st.integers(-4000, 4000), st.integers(-4000, 4000))
    instances = []
    for t in seq:
        instances.append({'template': t, 'variant': draw(variant_choice), 'chain': draw(chain_choice),
                          'shift': list(draw(shift)),
                          # input residue numbers as the mapping step stashes them (_old_resid = resid + shift); None = absent
                          'old_resid_shift': draw(st.sampled_from([None, None, None, 0, 10, 10, 25]))})
    return {
        'templates': templates, 'variants': variants, 'instances': instances,
        'deduplicate': draw(st.sampled_from([True, True, False])),
        'named_before': draw(st.sampled_from([None, None, None, 'all', 'some'])),
        'molname': draw(st.sampled_from(['molecule', 'molecule', 'Protein', 'mol', 'm-1', 'chain_A', 'X', '1ubq.v2', 'a.b.c', 'm.itp'])),
        'molmeta': draw(st.integers(0, len(MOLMETA) - 1)),
        'header': draw(st.lists(st.sampled_from(HEADERS), min_size=1, max_size=3)),
        'defines': draw(st.sampled_from([[], [], ['FLEXIBLE'], ['POSRES', 'GO_VIRT']])),
        'top_name': draw(st.sampled_from(['topol.top', 'system.top', 'out.top'])),
        'pdb_deferred': draw(st.sampled_from([True, False])),
        'pipeline_attrs': draw(st.sampled_from([True, False])),
    }


def _strategy(tier):
    return _case()


# ---------------------------------------------------------------------------
# the case description expanded to concrete molecules (pure python, no vermouth)

def _apply_variant(inst, variant):
    """Change ONE detail of the instance.  Returns the kind that was applied
    (a kind that is not applicable falls back to a simpler one)."""
    kind, i, j, v = variant['kind'], variant['i'], variant['j'], variant['v']
    atoms, n = inst['atoms'], len(inst['atoms'])
    a = i % n
    b = j % n
    if b == a:
        b = (a + 1) % n
    inters = inst['interactions']

    if kind == 'atomid' and (inst['atomid'] is None or n < 2):
        kind = 'node-order'
    if kind in ('node-order', 'edge', 'key-swap') and n < 2:
        kind = 'atype'
    if kind == 'param' and not any(inter['params'] for inter in inters):
        kind = 'atype'
    if kind in ('inter-drop', 'inter-meta') and not inters:
        kind = 'inter-add'
    if kind == 'inter-neighbour' and not any(0 < len(inter['atoms']) < n for inter in inters):
        kind = 'inter-add'
    if kind == 'param-close' and not any(isinstance(p, float) for inter in inters for p in inter['params']):
        kind = 'param' if any(inter['params'] for inter in inters) else 'atype'
    if kind == 'inter-swap':
        found = None
        for x in range(len(inters)):
            for y in range(x + 1, len(inters)):
                if inters[x]['type'] == inters[y]['type'] and inters[x] != inters[y]:
                    found = (x, y)
                    break
            if found:
                break
        if found is None:
            kind = 'inter-add'
        else:
            inters[found[0]], inters[found[1]] = inters[found[1]], inters[found[0]]
            return kind

    if kind == 'param':
        with_params = [inter for inter in inters if inter['params']]
        inter = with_params[i % len(with_params)]
        pos = j % len(inter['params'])
        if isinstance(inter['params'][pos], float):
            inter['params'][pos] = inter['params'][pos] + 0.5
        else:
            inter['params'][pos] = inter['params'][pos] + '5'
    elif kind == 'param-close':
        # a numeric parameter that differs in the seventh digit: another number in the file
        spots = [(inter, pos) for inter in inters for pos, p in enumerate(inter['params']) if isinstance(p, float)]
        inter, pos = spots[i % len(spots)]
        inter['params'][pos] = inter['params'][pos] * (1 + 1e-6 * (1 + v % 3))
    elif kind == 'inter-neighbour':
        # one atom of an interaction replaced by the atom next to it in key order (for consecutive keys: key +- 1)
        cands = [inter for inter in inters if 0 < len(inter['atoms']) < n]
        inter = cands[i % len(cands)]
        by_key = sorted(range(n), key=lambda l: inst['keys'][l])
        rank = {l: r for r, l in enumerate(by_key)}
        for pos in range(len(inter['atoms'])):
            pos = (pos + j) % len(inter['atoms'])
            r = rank[inter['atoms'][pos]]
            free = [by_key[q] for q in (r + 1, r - 1) if 0 <= q < n and by_key[q] not in inter['atoms']]
            if free:
                inter['atoms'][pos] = free[v % len(free)]
                break
    elif kind == 'atype':
        alternatives = [t for t in ATYPES if t != atoms[a]['atype']]
        atoms[a]['atype'] = alternatives[v % len(alternatives)]
    elif kind == 'atomname':
        alternatives = [t for t in ATOMNAME_ALT if t != atoms[a]['atomname']]
        atoms[a]['atomname'] = alternatives[v % len(alternatives)]
    elif kind == 'resname':
        alternatives = [t for t in RESNAME_ALT if t != atoms[a]['resname']]
        atoms[a]['resname'] = alternatives[v % len(alternatives)]
    elif kind == 'resid':
        atoms[a]['resid'] += 1 + v % 3
    elif kind == 'charge':
        atoms[a]['charge'] = atoms[a]['charge'] + 0.5 * (1 + v % 2) if 'charge' in atoms[a] else 1.0
    elif kind == 'mass':
        atoms[a]['mass'] = atoms[a]['mass'] + 36.0 if 'mass' in atoms[a] else 72.0
        atoms[a].setdefault('charge', 0.0)      # a mass without a charge cannot be expressed in [ atoms ]
    elif kind == 'charge_group':
        atoms[a]['charge_group'] += 1 + v % 2
    elif kind == 'edge':
        pair = [min(a, b), max(a, b)]
        if pair in inst['edges']:
            inst['edges'].remove(pair)
        else:
            inst['edges'].append(pair)
    elif kind == 'node-order':
        order = inst['order']
        order[a], order[b] = order[b], order[a]
    elif kind == 'atomid':
        ids = inst['atomid']
        ids[a], ids[b] = ids[b], ids[a]
    elif kind == 'inter-drop':
        del inters[i % len(inters)]
    elif kind == 'inter-add':
        if n >= 2:
            inters.append({'type': 'bonds', 'atoms': [a, b], 'params': ['1', '0.4%d' % (v % 10), '999'], 'meta': {}})
        else:
            inters.append({'type': 'position_restraints', 'atoms': [a], 'params': ['1', '%d' % (500 + v), '1', '1'], 'meta': {}})
    elif kind == 'inter-meta':
        meta = inters[i % len(inters)]['meta']
        if 'ifdef' in meta:
            del meta['ifdef']
        else:
            meta.pop('ifndef', None)
            meta['ifdef'] = 'FLEXIBLE'
    elif kind == 'nrexcl':
        inst['nrexcl'] += 1
    elif kind == 'key-swap':
        # two atoms exchange their node keys, and every interaction / edge keeps its *keys*: key set, attributes by position and
        # interactions by key are the same as in the template, yet the interactions sit on other atoms
        keys = inst['keys']
        keys[a], keys[b] = keys[b], keys[a]
        swap = {a: b, b: a}
        for inter in inters:
            inter['atoms'] = [swap.get(x, x) for x in inter['atoms']]
        inst['edges'] = sorted(sorted([swap.get(x, x), swap.get(y, y)]) for x, y in inst['edges'])
    elif kind == 'key':
        inst['keys'][a] = max(inst['keys']) + 1 + v % 5
    else:
        raise AssertionError(kind)
    return kind


def expand(case):
    """One concrete description per molecule of the system."""
    out = []
    for idx, spec in enumerate(case['instances']):
        inst = copy.deepcopy(case['templates'][spec['template']])
        inst['template'] = spec['template']
        inst['variant'] = None
        if spec['variant'] is not None:
            inst['variant'] = _apply_variant(inst, case['variants'][spec['variant']])
            inst['variant_id'] = spec['variant']
        n = len(inst['atoms'])
        cycle = spec['chain']
        inst['chain'] = None if cycle is None else [cycle[inst['atoms'][l]['res'] % len(cycle)] for l in range(n)]
        inst['xyz'] = [[(inst['pos'][l][ax] + spec['shift'][ax]) / 1000.0 for ax in range(3)] for l in range(n)]
        inst['index'] = idx
        inst['old_resid_shift'] = spec.get('old_resid_shift')
        out.append(inst)
    return out


def node_attrs(inst, l):
    """The attributes of logical atom `l` that are not documented as ignored."""
    atom = inst['atoms'][l]
    attrs = {k: atom[k] for k in ('atomname', 'resname', 'resid', 'atype', 'charge_group', 'charge', 'mass') if k in atom}
    if inst['atomid'] is not None and inst['atomid'][l] is not None:
        attrs['atomid'] = inst['atomid'][l]
    if inst.get('old_resid_shift') is not None:
        attrs['_old_resid'] = atom['resid'] + inst['old_resid_shift']
    return attrs


def canonical(inst):
    """Everything of a molecule except the ignored attributes, as a string."""
    keys = inst['keys']
    nodes = [[keys[l], sorted(node_attrs(inst, l).items())] for l in inst['order']]
    edges = sorted(sorted([keys[a], keys[b]]) for a, b in inst['edges'])
    inters = {}
    for inter in inst['interactions']:
        inters.setdefault(inter['type'], []).append(
            [[keys[x] for x in inter['atoms']], inter['params'], sorted(inter['meta'].items())])
    return json.dumps([nodes, edges, sorted(inters.items()), inst['nrexcl']], sort_keys=True)


def written_order(inst, sorted_first=False):
    """Logical atoms in the order the statement prescribes for the output:
    by atom id, else node order.  With `sorted_first` the node order is first
    rearranged like SortMoleculeAtoms documents (chain, resid, resname,
    insertion code, atomid)."""
    order = list(inst['order'])
    if sorted_first:
        def key(l):
            return (inst['chain'][l] if inst['chain'] is not None else '', inst['atoms'][l]['resid'],
                    inst['atoms'][l]['resname'], _atomid_key(inst, l) if inst['atomid'] is not None else 0)
        order = sorted(order, key=key)
    if inst['atomid'] is None:
        return order
    return sorted(order, key=lambda l: _atomid_key(inst, l))


def _atomid_key(inst, l):
    value = inst['atomid'][l]
    return float('inf') if value is None else value


def partial_atomids(inst):
    return inst['atomid'] is not None and any(v is None for v in inst['atomid'])


def runs_of(seq):
    out = []
    for item in seq:
        if out and out[-1][0] == item:
            out[-1][1] += 1
        else:
            out.append([item, 1])
    return out


def case_facts(case):
    """Shape of a case, from the description alone (also used by MATCHERS)."""
    insts = expand(case)
    canon = [canonical(inst) for inst in insts]
    labels = canon if case['deduplicate'] else list(range(len(insts)))
    run_count = {}
    for label, _ in runs_of(labels):
        run_count[label] = run_count.get(label, 0) + 1
    by_template = {}
    for inst in insts:
        by_template.setdefault(inst['template'], []).append(inst)
    near = any(len({(i['variant'], i.get('variant_id')) for i in group}) > 1 for group in by_template.values())
    return {
        'insts': insts, 'canon': canon,
        'interleaved': any(c > 1 for c in run_count.values()),
        'shared_template': any(len(group) > 1 for group in by_template.values()),
        'near_duplicate': near,
        'disagree': [written_order(inst) != list(inst['order']) for inst in insts],
        'mixed_chain': any(inst['chain'] is not None and len(set(inst['chain'])) > 1 for inst in insts),
    }


# ---------------------------------------------------------------------------
# readers (no vermouth)

class FormatError(Exception):
    pass


def parse_top(text):
    """Returns (includes, defines, sections, order) of a .top file; includes
    carry the number of section headers seen before them."""
    includes, defines, sections, order = [], [], {}, []
    current = None
    for raw in text.split('\n'):
        line = raw.split(';', 1)[0].strip()
        if not line:
            continue
        if line.startswith('#include'):
            rest = line[len('#include'):].strip()
            if len(rest) < 3 or rest[0] != '"' or rest[-1] != '"':
                raise FormatError('malformed include line %r' % raw)
            includes.append((rest[1:-1], len(order)))
        elif line.startswith('#define'):
            defines.append(line[len('#define'):].strip())
        elif line.startswith('#'):
            raise FormatError('unexpected preprocessor line %r' % raw)
        elif line.startswith('['):
            if not line.endswith(']'):
                raise FormatError('malformed section header %r' % raw)
            name = line[1:-1].strip()
            if name in sections:
                raise FormatError('section [ %s ] twice' % name)
            sections[name] = current = []
            order.append(name)
        else:
            if current is None:
                raise FormatError('data line %r before any section' % raw)
            current.append(line)
    return includes, defines, sections, order


def parse_molecules(lines):
    out = []
    for line in lines:
        tokens = line.split()
        if len(tokens) != 2:
            raise FormatError('[ molecules ] line %r is not "name count"' % line)
        try:
            count = int(tokens[1])
        except ValueError:
            raise FormatError('[ molecules ] count %r is not an integer' % tokens[1]) from None
        if str(count) != tokens[1] or count < 1:
            raise FormatError('[ molecules ] count %r is not a positive integer' % tokens[1])
        out.append([tokens[0], count])
    return out


def parse_pdb(text):
    """ATOM/HETATM records grouped by TER; returns (blocks, leftover)."""
    blocks, current = [], []
    for line in text.split('\n'):
        record = line[:6]
        if record in ('ATOM  ', 'HETATM'):
            try:
                current.append({
                    'atomname': line[12:16].strip(), 'resname': line[17:20].strip(), 'chain': line[21:22].strip(),
                    'resid': int(line[22:26]), 'xyz': [float(line[30:38]), float(line[38:46]), float(line[46:54])],
                })
            except ValueError:
                raise FormatError('unreadable ATOM record %r' % line) from None
        elif record[:3] == 'TER':
            blocks.append(current)
            current = []
        elif record[:3] == 'END':
            break
    return blocks, current


def parse_gro(text):
    lines = text.split('\n')
    try:
        count = int(lines[1])
    except (ValueError, IndexError):
        raise FormatError('no atom count on the second line of the GRO file') from None
    records = []
    for line in lines[2:2 + count]:
        try:
            records.append({
                'resid': int(line[0:5]), 'resname': line[5:10].strip(), 'atomname': line[10:15].strip(),
                'xyz': [float(line[20:28]), float(line[28:36]), float(line[36:44])],
            })
        except ValueError:
            raise FormatError('unreadable GRO record %r' % line) from None
    if len(records) != count:
        raise FormatError('GRO file announces %d atoms and holds %d records' % (count, len(records)))
    return records


def read_itp(text):
    """(moltype name, [Atom]) with the C02 reader."""
    sections, _, includes, _ = ref.parse(text)
    if includes:
        raise ref.ITPFormatError('#include inside a moleculetype file: %r' % (includes,))
    names = [sec.name for sec in sections]
    if names.count('moleculetype') != 1 or names.count('atoms') != 1:
        raise ref.ITPFormatError('expected one [ moleculetype ] and one [ atoms ], got %r' % (names,))
    moltype, _ = ref.read_moleculetype(sections[names.index('moleculetype')].lines)
    atoms = [ref.read_atom(ln) for ln in sections[names.index('atoms')].lines if ln.tokens]
    return moltype, atoms


def strip_header(text):
    """The ITP text without its leading comment / blank lines."""
    lines = text.split('\n')
    start = 0
    while start < len(lines) and (not lines[start].strip() or lines[start].lstrip().startswith(';')):
        start += 1
    return '\n'.join(lines[start:])


def _sans_name(body):
    """An ITP body with the name on the [ moleculetype ] data line blanked."""
    lines = body.split('\n')
    for idx, line in enumerate(lines):
        if line.strip() == '[ moleculetype ]' and idx + 1 < len(lines):
            lines[idx + 1] = ' '.join(lines[idx + 1].split()[1:])
            break
    return '\n'.join(lines)


def _trunc_ok(text, got, width):
    if len(text) <= width:
        return got == text
    return got in (text[:width], text[-width:], text[:width].strip(), text[-width:].strip())


def _int_trunc_ok(value, got, width):
    text = str(value)
    if len(text) <= width:
        return got == value
    candidates = set()
    for piece in (text[:width], text[-width:]):
        try:
            candidates.add(int(piece))
        except ValueError:
            pass
    return got in candidates


def _record_matches(atom, record, widths):
    return (_trunc_ok(atom.atomname, record['atomname'], widths['atomname'])
            and _trunc_ok(atom.resname, record['resname'], widths['resname'])
            and _int_trunc_ok(atom.resnr, record['resid'], widths['resid']))


def _is_permutation(atoms, records, widths):
    if len(atoms) != len(records):
        return False
    free = list(records)
    for atom in atoms:
        for idx, record in enumerate(free):
            if _record_matches(atom, record, widths):
                del free[idx]
                break
        else:
            return False
    return True


# ---------------------------------------------------------------------------
# running the real code

def build_system(case, insts):
    system = vermouth.System(force_field=ForceField(name='c03ff'))
    for inst in insts:
        mol = vermouth.Molecule(nrexcl=inst['nrexcl'], meta=copy.deepcopy(MOLMETA[case['molmeta']]))
        keys = inst['keys']
        for l in inst['order']:
            attrs = node_attrs(inst, l)
            attrs['position'] = np.array(inst['xyz'][l], dtype=float)
            if inst['chain'] is not None:
                attrs['chain'] = inst['chain'][l]
            if case['pipeline_attrs']:
                graph = nx.Graph()
                graph.add_node(inst['index'] * 100 + l, position=np.array(inst['xyz'][l]), atomname='CA')
                attrs['graph'] = graph
                attrs['mapping_weights'] = {inst['index'] * 100 + l: 1.0 + inst['index']}
            mol.add_node(keys[l], **attrs)
        for a, b in inst['edges']:
            mol.add_edge(keys[a], keys[b])
        for inter in inst['interactions']:
            mol.add_interaction(inter['type'], atoms=[keys[x] for x in inter['atoms']],
                                parameters=list(inter['params']), meta=dict(inter['meta']))
        system.add_molecule(mol)
    system.meta['header'] = list(case['header'])
    return system


def _tmp_root():
    return '/dev/shm' if os.path.isdir('/dev/shm') and os.access('/dev/shm', os.W_OK) else None


def produce(case, insts, mode):
    """Name, write, flush; returns what ended up on disk and the per-molecule
    ITP text the writer produces at writing time."""
    writer = DeferredFileWriter()
    writer.close()                      # nothing pending from an earlier, aborted case
    cwd = os.getcwd()
    tmpdir = tempfile.mkdtemp(prefix='c03_', dir=_tmp_root())
    try:
        os.chdir(tmpdir)                # <moltype>.itp is written relative to the working directory
        system = build_system(case, insts)
        if case.get('named_before'):
            # the molecules come from systems that were named before (every one of them starts at <name>_0), or the system is
            # named a second time after editing: names already present say nothing about the present topology
            for idx, mol in enumerate(system.molecules):
                if case['named_before'] == 'all' or idx % 2:
                    mol.meta['moltype'] = '%s_0' % case['molname']
        NameMolType(deduplicate=case['deduplicate'], molname=case['molname']).run_system(system)
        if mode == 'cli-order':
            SortMoleculeAtoms().run_system(system)
        if mode == 'cli-resid-input':
            # what bin/martinize2 does for "-resid input", after the molecule types were named
            for mol in system.molecules:
                old_resids = nx.get_node_attributes(mol, '_old_resid')
                nx.set_node_attributes(mol, old_resids, 'resid')
        names = [mol.meta.get('moltype') for mol in system.molecules]
        opened = []
        topology_module = vermouth.gmx.topology
        real_open = getattr(topology_module, 'deferred_open', None)
        if real_open is not None:
            def counting_open(filename, mode='r', *args, **kwargs):
                if 'r' not in mode:
                    opened.append(os.path.basename(str(filename)))
                return real_open(filename, mode, *args, **kwargs)
            topology_module.deferred_open = counting_open
        try:
            write_gmx_topology(system, os.path.join(tmpdir, case['top_name']), itp_paths=[], C6C12=False,
                               defines=tuple(case['defines']))
        finally:
            if real_open is not None:
                topology_module.deferred_open = real_open
        write_pdb(system, os.path.join(tmpdir, 'out.pdb'), omit_charges=True, defer_writing=case['pdb_deferred'])
        if mode == 'gro':
            write_gro(system, os.path.join(tmpdir, 'out.gro'), box=(20.0, 20.0, 20.0))
        writer.write()
        files = {}
        for name in sorted(os.listdir(tmpdir)):
            with open(os.path.join(tmpdir, name)) as handle:
                files[name] = handle.read()
        texts = []
        for mol in system.molecules:
            out = io.StringIO()
            write_molecule_itp(mol, out)
            texts.append(out.getvalue())
        return names, files, texts, opened
    finally:
        writer.close()
        os.chdir(cwd)
        shutil.rmtree(tmpdir, ignore_errors=True)


# ---------------------------------------------------------------------------
# oracle

def check_names(case, facts, names, texts):
    """(4): who shares a name."""
    n = len(names)
    for idx, name in enumerate(names):
        if not isinstance(name, str) or not name or name != name.strip() or len(name.split()) != 1:
            raise Violation('moltype-not-set', 'molecule %d has moltype %r after NameMolType' % (idx, name))
    bodies = [strip_header(text) for text in texts]
    first = {}
    for idx, name in enumerate(names):
        other = first.setdefault(name, idx)
        if bodies[other] != bodies[idx]:
            raise Violation('shared-name-different-topology',
                            'molecules %d and %d are both called %r (deduplicate=%r) but are written as different ITPs:\n%s\n--- vs ---\n%s'
                            % (other, idx, name, case['deduplicate'], bodies[other], bodies[idx]))
    if not case['deduplicate']:
        if len(set(names)) != n:
            raise Violation('no-dedup-shared-name', 'deduplicate=False but the names are %r' % (names,))
        return
    canon = facts['canon']
    for i in range(n):
        for j in range(i + 1, n):
            if canon[i] == canon[j] and names[i] != names[j]:
                raise Violation('dedup-missed', 'molecules %d and %d differ only in ignored attributes (position/chain/graph/'
                                'mapping_weights) but are called %r and %r' % (i, j, names[i], names[j]))


def check_top(case, names, files):
    """(1) and (2).  Returns the moltype name of every molecule as the .top
    states it, and the include multiplicity per name."""
    top_name = case['top_name']
    if top_name not in files:
        raise Violation('top-missing', 'no %s written, files are %r' % (top_name, sorted(files)))
    try:
        includes, defines, sections, order = parse_top(files[top_name])
        if 'molecules' not in sections:
            raise FormatError('no [ molecules ] section')
        entries = parse_molecules(sections['molecules'])
    except FormatError as err:
        raise Violation('malformed-top', '%s\n%s' % (err, files[top_name]))
    expansion = [name for name, count in entries for _ in range(count)]
    if expansion != names:
        bucket = 'molecules-order' if sorted(expansion) == sorted(names) else 'molecules-count'
        raise Violation(bucket, '[ molecules ] %r expands to %d molecules %r, the system is %r'
                        % (entries, len(expansion), expansion, names))
    if entries != runs_of(names):
        raise Violation('molecules-not-run-length', '[ molecules ] %r, the run lengths of successive names are %r'
                        % (entries, runs_of(names)))
    if defines != list(case['defines']):
        raise Violation('top-defines', '#define lines %r, asked for %r' % (defines, case['defines']))
    wanted = {name + '.itp' for name in names}
    allowed = wanted | {top_name, 'out.pdb', 'out.gro'}
    missing = sorted(wanted - set(files))
    if missing:
        raise Violation('itp-missing', 'moltype file(s) %r not written; files: %r' % (missing, sorted(files)))
    stray = sorted(set(files) - allowed)
    if stray:
        raise Violation('stray-file', 'file(s) %r written that no molecule needs; names: %r' % (stray, sorted(set(names))))
    first_molecules = order.index('molecules')
    multiplicity = {}
    for path, sections_before in includes:
        if path == 'martini.itp':
            continue
        if path not in wanted:
            raise Violation('include-stray', '#include "%s" names no moltype of the system (%r)' % (path, sorted(set(names))))
        if sections_before > min(first_molecules, order.index('system') if 'system' in order else first_molecules):
            raise Violation('include-after-system', '#include "%s" comes after [ system ] / [ molecules ]' % path)
        multiplicity[path[:-4]] = multiplicity.get(path[:-4], 0) + 1
    not_included = sorted(set(names) - set(multiplicity))
    if not_included:
        raise Violation('include-missing', 'moltype(s) %r are listed in [ molecules ] but never #included:\n%s'
                        % (not_included, files[top_name]))
    return expansion, multiplicity


def check_itps(names, files, texts):
    """Every written moltype file: its name, and that it is the ITP of every
    molecule carrying the name.  Returns {name: [Atom]}."""
    atoms_of = {}
    for name in sorted(set(names)):
        text = files[name + '.itp']
        try:
            moltype, atoms = read_itp(text)
        except ref.ITPFormatError as err:
            raise Violation('malformed-itp', '%s.itp: %s\n%s' % (name, err, text))
        if moltype != name:
            raise Violation('itp-moltype-name', '%s.itp defines moleculetype %r' % (name, moltype))
        for k, atom in enumerate(atoms, 1):
            if atom.nr != k:
                raise Violation('itp-numbering', '%s.itp: atom line %d is numbered %d' % (name, k, atom.nr))
        atoms_of[name] = atoms
        body = strip_header(text)
        for idx, other in enumerate(names):
            if other == name and strip_header(texts[idx]) != body:
                raise Violation('itp-not-valid-for-molecule',
                                '%s.itp is not the ITP of molecule %d, which is called %r:\n%s\n--- the molecule would be written as ---\n%s'
                                % (name, idx, name, body, strip_header(texts[idx])))
    return atoms_of


def check_records(prefix, widths, blocks, expansion, atoms_of):
    """(3) for one coordinate file already split in per-molecule record lists."""
    for idx, (records, name) in enumerate(zip(blocks, expansion)):
        atoms = atoms_of[name]
        if len(records) != len(atoms):
            raise Violation('%s-vs-itp-count' % prefix, 'molecule %d (%s): %d coordinate records, %d atoms in %s.itp'
                            % (idx, name, len(records), len(atoms), name))
        for k, (atom, record) in enumerate(zip(atoms, records), 1):
            if not _record_matches(atom, record, widths):
                bucket = '%s-order' % prefix if _is_permutation(atoms, records, widths) else '%s-vs-itp' % prefix
                raise Violation(bucket, 'molecule %d (%s): coordinate record %d is %s %s %s, atom %d of %s.itp is %s %s %s; '
                                'records: %r; itp: %r'
                                % (idx, name, k, record['atomname'], record['resname'], record['resid'], k, name,
                                   atom.atomname, atom.resname, atom.resnr,
                                   [(r['atomname'], r['resid']) for r in records],
                                   [(x.atomname, x.resnr) for x in atoms]))


def check_pdb(facts, files, expansion, atoms_of, sorted_first):
    if 'out.pdb' not in files:
        raise Violation('pdb-missing', 'no PDB written, files are %r' % (sorted(files),))
    try:
        blocks, leftover = parse_pdb(files['out.pdb'])
    except FormatError as err:
        raise Violation('malformed-pdb', str(err))
    if leftover or len(blocks) != len(expansion):
        raise Violation('pdb-ter', '%d TER-terminated blocks (+%d trailing atoms) for %d molecules'
                        % (len(blocks), len(leftover), len(expansion)))
    check_records('pdb', PDB_W, blocks, expansion, atoms_of)
    for idx, (records, inst) in enumerate(zip(blocks, facts['insts'])):
        if partial_atomids(inst):
            continue    # where unnumbered atoms go is not prescribed; agreement with the ITP is checked above
        for k, (record, l) in enumerate(zip(records, written_order(inst, sorted_first)), 1):
            want = [10 * c for c in inst['xyz'][l]]
            if any(abs(g - w) > 1.5e-3 for g, w in zip(record['xyz'], want)):
                raise Violation('pdb-position', 'molecule %d record %d (%s %s %d) carries the coordinates %r, the atom written '
                                'at that place by atom id / node order is at %r A'
                                % (idx, k, record['atomname'], record['resname'], record['resid'], record['xyz'], want))


def check_gro(files, expansion, atoms_of):
    if 'out.gro' not in files:
        raise Violation('gro-missing', 'no GRO written, files are %r' % (sorted(files),))
    try:
        records = parse_gro(files['out.gro'])
    except FormatError as err:
        raise Violation('malformed-gro', str(err))
    sizes = [len(atoms_of[name]) for name in expansion]
    if sum(sizes) != len(records):
        raise Violation('gro-vs-itp-count', '%d GRO records, the topology describes %d atoms' % (len(records), sum(sizes)))
    blocks, start = [], 0
    for size in sizes:
        blocks.append(records[start:start + size])
        start += size
    check_records('gro', GRO_W, blocks, expansion, atoms_of)


def _classes(case, facts, names, texts):
    insts = facts['insts']
    classes = ['dedup' if case['deduplicate'] else 'no-dedup']
    if len(insts) >= 3:
        classes.append('molecules>=3')
    runs = runs_of(names)
    seen = set()
    interleaved_names = False
    for name, _ in runs:
        if name in seen:
            interleaved_names = True
        seen.add(name)
    if interleaved_names:
        classes.append('name-in-separated-runs')
    if any(count > 1 for _, count in runs):
        classes.append('adjacent-repeat')
    if len(set(names)) < len(names):
        classes.append('name-shared')
    bodies = [strip_header(text) for text in texts]
    for inst in insts:
        if inst['variant'] is not None:
            classes.append('variant:%s' % inst['variant'])
    if facts['near_duplicate']:
        classes.append('near-duplicate')
    # a one-detail variant that would be written exactly like another instance of its template
    for i, a in enumerate(insts):
        for j in range(i + 1, len(insts)):
            b = insts[j]
            if a['template'] == b['template'] and facts['canon'][i] != facts['canon'][j]:
                same_text = _sans_name(bodies[i]) == _sans_name(bodies[j])
                if same_text and names[i] == names[j]:
                    classes.append('variant-same-text-shared')
                elif same_text:
                    classes.append('variant-same-text-not-shared')
                else:
                    classes.append('variant-told-apart')
            elif facts['canon'][i] == facts['canon'][j] and case['deduplicate']:
                if a['chain'] != b['chain']:
                    classes.append('shared-despite-chain')
                classes.append('shared-despite-position')
    if any(facts['disagree']):
        classes.append('atomid-order!=node-order')
    if any(inst['atomid'] is None for inst in insts):
        classes.append('atomid-absent')
    if any(partial_atomids(inst) for inst in insts):
        classes.append('atomid-partial')
    if any(inst['atomid'] is not None and min(_atomid_key(inst, l) for l in range(len(inst['atomid']))) > 90000 for inst in insts):
        classes.append('atomid>90000')
    if any(inst['keys'] != list(range(len(inst['keys']))) for inst in insts):
        classes.append('keys-not-0..n-1')
    if any(len(atom['atomname']) > 4 or len(atom['resname']) > 3 or atom['resid'] > 9999
           for inst in insts for atom in inst['atoms']):
        classes.append('pdb-field-truncated')
    if facts['mixed_chain']:
        classes.append('several-chains-in-molecule')
    if case['pipeline_attrs']:
        classes.append('graph+mapping_weights')
    nontrivial = (len(insts) >= 3 and facts['shared_template'] and (facts['interleaved'] or facts['near_duplicate'])
                  and any(facts['disagree']))
    return sorted(set(classes)), nontrivial


def _run(case, mode):
    facts = case_facts(case)
    names, files, texts, opened = produce(case, facts['insts'], mode)
    check_names(case, facts, names, texts)
    expansion, multiplicity = check_top(case, names, files)
    twice = sorted(name for name in set(opened) if opened.count(name) > 1)
    if twice:
        raise Violation('file-written-twice', 'the topology writer opened %r for writing more than once (all: %r)' % (twice, opened))
    atoms_of = check_itps(names, files, texts)
    check_pdb(facts, files, expansion, atoms_of, sorted_first=(mode == 'cli-order'))
    classes, nontrivial = _classes(case, facts, names, texts)
    if mode == 'gro':
        check_gro(files, expansion, atoms_of)
        classes.append('gro-checked')
    if mode == 'include-once':
        if any(count != 1 for count in multiplicity.values()):
            run_count = {}
            for name, _ in runs_of(names):
                run_count[name] = run_count.get(name, 0) + 1
            bucket = 'include-once-per-run' if multiplicity == run_count else 'include-duplicated'
            raise Violation(bucket, 'moltype files are #included %r times (names in order: %r):\n%s'
                            % (multiplicity, names, files[case['top_name']]))
        classes.append('include-checked')
    return Outcome(classes, nontrivial)


def _run_main(case):
    return _run(case, 'main')


def _run_gro(case):
    return _run(case, 'gro')


def _run_include(case):
    return _run(case, 'include-once')


def _cli_order_case(case):
    """Precondition of the real caller: the molecules the CLI sorts carry an atom id on every atom or on none."""
    if any(tpl['atomid'] is not None and any(v is None for v in tpl['atomid']) for tpl in case['templates']):
        case = copy.deepcopy(case)
        for tpl in case['templates']:
            if tpl['atomid'] is not None and any(v is None for v in tpl['atomid']):
                tpl['atomid'] = None
    return case


def _run_cli_order(case):
    case = _cli_order_case(case)
    try:
        return _run(case, 'cli-order')
    except Violation as viol:
        raise Violation('sorted:' + viol.bucket, viol.message, viol.detail) from None


def _run_cli_resid(case):
    try:
        out = _run(case, 'cli-resid-input')
    except Violation as viol:
        raise Violation('resid-input:' + viol.bucket, viol.message, viol.detail) from None
    insts = expand(case)
    shifts = {}
    for inst in insts:
        shifts.setdefault((inst['template'], inst['variant'], inst.get('variant_id')), set()).add(inst.get('old_resid_shift'))
    differs = any(len(v - {None}) > 1 or (len(v) > 1 and None in v and (v - {None, 0})) for v in shifts.values())
    return Outcome(list(out.classes) + (['same-topology-different-input-resids'] if differs else []),
                   out.nontrivial and differs)


# ---------------------------------------------------------------------------
# known findings

def _match_gro_order(params, part_name, case, violation):
    """write_gro follows node order, PDB and ITP follow atom ids."""
    return part_name == 'gro' and violation.bucket == 'gro-order' and any(case_facts(case)['disagree'])


def _match_include_per_run(params, part_name, case, violation):
    """one #include per run of a name instead of one per name."""
    return (part_name == 'include-once' and violation.bucket == 'include-once-per-run'
            and case['deduplicate'] and case_facts(case)['interleaved'])


def _match_sort_after_naming(params, part_name, case, violation):
    """SortMoleculeAtoms (sorts by chain first) after NameMolType (ignores chain)."""
    if part_name != 'cli-order' or violation.bucket not in (
            'sorted:shared-name-different-topology', 'sorted:itp-not-valid-for-molecule'):
        return False
    if not case['deduplicate']:
        return False
    facts = case_facts(_cli_order_case(case))
    insts, canon = facts['insts'], facts['canon']
    # two molecules that are the same but for ignored attributes, and that the sorting rearranges differently
    return any(canon[i] == canon[j] and written_order(insts[i], True) != written_order(insts[j], True)
               for i in range(len(insts)) for j in range(i + 1, len(insts)))


MATCHERS = {
    'gro_order_vs_atomid': _match_gro_order,
    'include_once_per_run': _match_include_per_run,
    'sort_after_naming_by_chain': _match_sort_after_naming,
}

PARTS = [
    Part('main', _run_main, strategy=_strategy, examples={'quick': 960, 'thorough': 20000},
         floors={'name-in-separated-runs': 0.15, 'adjacent-repeat': 0.15, 'near-duplicate': 0.1, 'variant-told-apart': 0.08,
                 'shared-despite-position': 0.2, 'shared-despite-chain': 0.1, 'atomid-order!=node-order': 0.3,
                 'atomid-absent': 0.2, 'no-dedup': 0.1, 'molecules>=3': 0.5}),
    Part('gro', _run_gro, strategy=_strategy, examples={'quick': 320, 'thorough': 6400}, floors={'gro-checked': 0.1},
         shrink_budget={'quick': 60, 'thorough': 400}),
    Part('include-once', _run_include, strategy=_strategy, examples={'quick': 320, 'thorough': 6400},
         floors={'include-checked': 0.3}, shrink_budget={'quick': 60, 'thorough': 400}),
    Part('cli-resid-input', _run_cli_resid, strategy=_strategy, examples={'quick': 320, 'thorough': 6400},
         floors={'same-topology-different-input-resids': 0.1}),
    Part('cli-order', _run_cli_order, strategy=_strategy, examples={'quick': 320, 'thorough': 6400},
         floors={'dedup': 0.1}, shrink_budget={'quick': 60, 'thorough': 400}),
]
