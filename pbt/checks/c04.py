"""
C04  Atoms are identified by connectivity, not by the names in the input.

A residue is built from a block of a shipped atomistic force field (charmm,
amber, gromos) and *presented* in a different way: names replaced / swapped /
dropped, atoms re-ordered on sparse node keys, some atoms removed, a few extra
atoms attached, optionally with a second residue bonded to it.  The molecule is
handed to RepairGraph().run_molecule and the result is judged by a validity
predicate written from the property statement (own code + networkx VF2):

  * no input atom is lost, the input bonds are unchanged;
  * among the atoms not flagged PTM_atom the names are unique, are exactly the
    atom names of the block (complete), the element an input atom came with is
    the element of the block atom whose name it received, and name -> block atom
    is an isomorphism of the induced subgraph onto the block graph (so a rebuilt
    atom is bonded exactly as in the block);
  * rebuilt atoms are never flagged and never bonded to a flagged atom or to
    another residue;
  * #flagged == #input atoms - (size of a maximum common induced subgraph of
    input residue and block, elements as colours); the maximum is known by
    construction (extras of an element foreign to the block can never match,
    the rest is an induced subgraph of the block) or comes from a brute force
    with VF2 over node subsets (extras of an element of the block);
  * a second presentation of the same residue (other names / order / keys) must
    pass the same predicate and agree on the number of flagged and rebuilt atoms
    and on the multiset (canonical name, element) - and on (name, element,
    degree) when no extra atoms are attached.
"""
import itertools

import networkx as nx
import numpy as np
from networkx.algorithms.isomorphism import GraphMatcher
from hypothesis import strategies as st

from pbt.core import Part, Outcome, Violation, HarnessError
from pbt.util import capture_logs

import vermouth.forcefield
from vermouth.molecule import Molecule
from vermouth.processors.repair_graph import RepairGraph

from pbt import c04_isoshape
from pbt import c04_requested

PROPERTY = 'C04'
LEVEL = 'exploration'

FF_NAMES = ('charmm', 'amber', 'gromos')
FOREIGN = 'Xx'          # an element no block atom can have (block elements are one ASCII letter)
# two-letter elements that begin with the letter of a block element: selenium where sulfur belongs, chlorine for carbon ...
TWO_LETTER = {'H': 'HG', 'C': 'CL', 'N': 'NA', 'O': 'OS', 'S': 'SE', 'P': 'PT'}
MAX_ATOMS = {'quick': 40, 'thorough': 70}

# Size bounds (number of block atoms) per presentation.  They exist because the
# cost of the largest-common-subgraph search in make_reference explodes when
# the names give it no hint (measured, see notes/C04.md); cases are bounded by
# size, never by time.
BOUND_FULL = {'quick': 14, 'thorough': 15}      # any renaming: all atoms fresh / swapped / degenerate names
BOUND_HEAVY = {'quick': 30, 'thorough': 35}     # all heavy atoms renamed while hydrogens keep their names
BOUND_SAME_ANY = 8                              # extras of an element of the block, any presentation
BOUND_SAME_CANONICAL = 24                       # ... with canonical names, no removal, any order
BOUND_SECOND = 12                               # size of the second residue

# charmm blocks of 15-70 atoms on which RepairGraph needs more than ~1 s (up to
# minutes) already for canonical names in a permuted order (measured 2026-10,
# 3 random orders each for: order only / hydrogens renamed / 3 atoms renamed).
# Mostly fused or symmetric ring systems and long chains.  Not in the domain.
SLOW_BLOCKS = frozenset(('charmm', name) for name in """
14MN 22BPY 23MN ACRD ADAM ATP BAM1 BCA BF6 BF7 BGAU BGCU BHWG BPET BPIP BPSP C36 C37 C3C CA CDCA CPEN CPES
CRBZ CYSF CYSG CYSP DCA FEOZ FETZ FLRN FRET GLYM GTPG HEXD INDE LCA NAFT NORB PMHA PNTM PXYL RTAL RTOL SM059
SM097 SM132 SM153 SM188 UDCA WEI1 WEI2 WEI3
""".split())


# ---------------------------------------------------------------------------
# block tables (the specification: names, elements, bonds of every block)

_FF = {}
_INFO = {}
_ELIGIBLE = {}


def _first_letter(name):
    for char in name:
        if char.isascii() and char.isalpha():
            return char
    raise HarnessError('block atom name %r has no letter' % (name,))


class BlockInfo:
    __slots__ = ('ff', 'name', 'names', 'elements', 'edges', 'n', 'comp', 'ncomp', 'graph', '_sym')

    def __init__(self, ffname, name, block):
        self.ff = ffname
        self.name = name
        nodes = list(block.nodes)
        index = {node: i for i, node in enumerate(nodes)}
        self.names = [block.nodes[node]['atomname'] for node in nodes]
        self.elements = [_first_letter(an) for an in self.names]
        self.edges = sorted({(min(index[u], index[v]), max(index[u], index[v])) for u, v in block.edges if u != v})
        self.n = len(nodes)
        graph = nx.Graph()
        for i in range(self.n):
            graph.add_node(i, element=self.elements[i])
        graph.add_edges_from(self.edges)
        self.graph = graph
        self.comp = [0] * self.n
        comps = sorted((sorted(c) for c in nx.connected_components(graph)), key=lambda c: c[0])
        for cidx, members in enumerate(comps):
            for i in members:
                self.comp[i] = cidx
        self.ncomp = len(comps)
        self._sym = None

    def symmetry(self):
        """(any non-trivial element-preserving automorphism, one that moves a heavy atom) - networkx VF2."""
        if self._sym is None:
            nm = nx.isomorphism.categorical_node_match('element', None)
            count = 0
            for _ in GraphMatcher(self.graph, self.graph, node_match=nm).isomorphisms_iter():
                count += 1
                if count > 1:
                    break
            heavy = [i for i in range(self.n) if self.elements[i] != 'H']
            hgraph = nx.Graph()
            for i in heavy:
                nh = sum(1 for j in self.graph[i] if self.elements[j] == 'H')
                hgraph.add_node(i, label=(self.elements[i], nh))
            hgraph.add_edges_from((u, v) for u, v in self.edges if u in hgraph and v in hgraph)
            hm = nx.isomorphism.categorical_node_match('label', None)
            hcount = 0
            for _ in GraphMatcher(hgraph, hgraph, node_match=hm).isomorphisms_iter():
                hcount += 1
                if hcount > 1:
                    break
            self._sym = (count > 1, hcount > 1)
        return self._sym


def preload():
    if _FF:
        return
    for ffname in FF_NAMES:
        ff = vermouth.forcefield.get_native_force_field(ffname)
        _FF[ffname] = ff
        for bname in sorted(ff.blocks):
            block = ff.blocks[bname]
            names = [block.nodes[node].get('atomname') for node in block.nodes]
            if not 1 <= len(block) <= MAX_ATOMS['thorough']:
                continue
            if any(not isinstance(an, str) for an in names) or len(set(names)) != len(names):
                continue
            if (ffname, bname) in SLOW_BLOCKS:
                continue
            if {block.nodes[node].get('resname') for node in block.nodes} != {bname}:
                continue   # gromos NAD: its atoms carry resname NADP, repair renames the residue
            _INFO[(ffname, bname)] = BlockInfo(ffname, bname, block)
    for tier, bound in MAX_ATOMS.items():
        _ELIGIBLE[tier] = {ffname: [key for key in sorted(_INFO) if key[0] == ffname and _INFO[key].n <= bound]
                           for ffname in FF_NAMES}


def info_of(ffname, bname):
    preload()
    try:
        return _INFO[(ffname, bname)]
    except KeyError:
        raise HarnessError('block %s/%s is not in the domain' % (ffname, bname)) from None


# ---------------------------------------------------------------------------
# building the input molecule from a case

def layout_residue(spec):
    """
    Turn the JSON description of one residue into the abstract residue: a list
    of atoms (tag, element, canonical name or None) and tagged edges.  Tags are
    ('b', i) for block atom i and ('x', j) for extra atom j.
    """
    info = info_of(spec['ff'], spec['block'])
    removed = set(spec.get('remove', ()))
    kept = [i for i in range(info.n) if i not in removed]
    if not kept:
        raise HarnessError('all atoms removed')
    for cidx in range(info.ncomp):
        if not any(info.comp[i] == cidx for i in kept):
            raise HarnessError('a whole component of the block was removed')
    atoms = [{'tag': ('b', i), 'element': info.elements[i], 'canon': info.names[i], 'slot': i} for i in kept]
    edges = [(('b', u), ('b', v)) for u, v in info.edges if u not in removed and v not in removed]
    for j, extra in enumerate(spec.get('extras', ())):
        anchor_pool = [a['tag'] for a in atoms]
        anchor = anchor_pool[extra['at'] % len(anchor_pool)]
        if extra['el'] == 'foreign' and extra.get('two_letter'):
            # the element of a removed block atom that was bonded to the anchor (the foreign atom sits where that atom
            # belongs), else the anchor's own element -- with a second letter: still an element no block atom has
            letter = None
            if anchor[0] == 'b':
                for u, v in info.edges:
                    other = v if u == anchor[1] else u if v == anchor[1] else None
                    if other is not None and other in removed:
                        letter = info.elements[other]
                        break
            if letter is None:
                letter = next(a['element'] for a in atoms if a['tag'] == anchor)[0]
            element = TWO_LETTER.get(letter, FOREIGN)
        elif extra['el'] == 'foreign':
            element = FOREIGN
        else:
            element = info.elements[extra['el'] % info.n]
        if extra['name'] is None:
            canon = None
        else:
            canon = info.names[extra['name'] % info.n]   # a PTM atom that carries the name of a block atom
        atoms.append({'tag': ('x', j), 'element': element, 'canon': canon, 'slot': info.n + j})
        edges.append((anchor, ('x', j)))
    return info, atoms, edges


def present(info, atoms, pres):
    """Apply a presentation: returns [(tag, element, atomname or ABSENT)] in node order."""
    order = pres['order']
    namekey = pres['namekey']
    rename = set(pres['rename'])
    style = pres['style']
    nslots = info.n + 3
    if sorted(order) != list(range(nslots)) or sorted(namekey) != list(range(nslots)):
        raise HarnessError('order/namekey must be permutations of range(n+3)')
    ranked = sorted(atoms, key=lambda a: order[a['slot']])
    names = {}
    for atom in atoms:
        slot = atom['slot']
        if atom['canon'] is None:
            names[slot] = 'Zx%02d' % namekey[slot]
        else:
            names[slot] = atom['canon']
    chosen = [a['slot'] for a in ranked if a['slot'] in rename]
    if style == 'fresh':
        for slot in chosen:
            names[slot] = 'Zz%02d' % namekey[slot]
    elif style == 'swap':
        # the given names are handed round among the chosen atoms (cyclic shift in name-key order)
        cyc = sorted(chosen, key=lambda s: namekey[s])
        old = [names[s] for s in cyc]
        for k, slot in enumerate(cyc):
            names[slot] = old[(k + 1) % len(cyc)]
    elif style == 'element':
        elem = {a['slot']: a['element'] for a in atoms}
        for slot in chosen:
            names[slot] = elem[slot]
    elif style == 'absent':
        for slot in chosen:
            names[slot] = None
    elif style == 'empty':
        for slot in chosen:
            names[slot] = ''
    else:
        raise HarnessError('unknown style %r' % (style,))
    return [(a['tag'], a['element'], names[a['slot']]) for a in ranked]


IDENT = {
    'resid': lambda: ({'resid': 7, 'chain': 'A'}, {'resid': 8, 'chain': 'A'}),
    'chain': lambda: ({'resid': 7, 'chain': 'A'}, {'resid': 7, 'chain': 'B'}),
    'icode': lambda: ({'resid': 7, 'chain': 'A', 'insertion_code': 'A'}, {'resid': 7, 'chain': 'A', 'insertion_code': 'B'}),
    'resid-back': lambda: ({'resid': 8, 'chain': 'A'}, {'resid': 7, 'chain': 'A'}),
}


def build(case, which):
    """
    Build the molecule of presentation `which` (0 or 1).  Returns the molecule
    and, per residue, a record with what the oracle needs.
    """
    residues = [case['residue']]
    second = case.get('second')
    if second is not None:
        residues.append(second['residue'])
        ident = IDENT[second['ident']]()
    else:
        ident = ({'resid': 7, 'chain': 'A'},)
    ffname = case['residue']['ff']
    preload()
    mol = Molecule(force_field=_FF[ffname], nrexcl=3)
    listed = []
    records = []
    for ridx, spec in enumerate(residues):
        if spec['ff'] != ffname:
            raise HarnessError('both residues must come from one force field')
        info, atoms, edges = layout_residue(spec)
        pres = spec['pres'][which]
        shown = present(info, atoms, pres)
        records.append({'info': info, 'edges': edges, 'attrs': dict(ident[ridx], resname=info.name),
                        'elements': {}, 'n_extras': len(spec.get('extras', ())),
                        'foreign_only': all(e['el'] == 'foreign' for e in spec.get('extras', ())),
                        'keys': {}})
        listed.append([(ridx, tag, element, name) for tag, element, name in shown])
    if len(listed) == 2 and second['interleave']:
        flat = []
        for k in range(max(len(listed[0]), len(listed[1]))):
            for part in (listed[1], listed[0]) if second['interleave'] == 'second-first' else (listed[0], listed[1]):
                if k < len(part):
                    flat.append(part[k])
    else:
        flat = [item for part in listed for item in part]
    pres0 = case['residue']['pres'][which]
    key = pres0['key0']
    for pos, (ridx, tag, element, name) in enumerate(flat):
        rec = records[ridx]
        attrs = dict(rec['attrs'])
        attrs['element'] = element
        if name is not None:
            attrs['atomname'] = name
        # simple deterministic embedding: distinct, finite coordinates
        attrs['position'] = np.array([0.12 * pos, 0.05 * (pos % 3), 0.07 * (pos % 5)])
        attrs['atomid'] = pos + 1
        mol.add_node(key, **attrs)
        rec['keys'][tag] = key
        rec['elements'][key] = element
        key += pres0['keystep']
    for rec in records:
        rec['in_edges'] = set()
        for tag_u, tag_v in rec['edges']:
            u, v = rec['keys'][tag_u], rec['keys'][tag_v]
            mol.add_edge(u, v)
            rec['in_edges'].add(frozenset((u, v)))
    link = None
    if second is not None:
        tags0 = sorted(records[0]['keys'])
        tags1 = sorted(records[1]['keys'])
        a = records[0]['keys'][tags0[second['link'][0] % len(tags0)]]
        b = records[1]['keys'][tags1[second['link'][1] % len(tags1)]]
        mol.add_edge(a, b)
        link = frozenset((a, b))
    return mol, records, link


# ---------------------------------------------------------------------------
# reference: maximum common induced subgraph size (elements as colours)

def residue_graph(rec):
    graph = nx.Graph()
    for key, element in rec['elements'].items():
        graph.add_node(key, element=element)
    graph.add_edges_from(tuple(e) for e in rec['in_edges'])
    return graph


def expected_mcs(rec):
    """
    Size of a maximum common induced subgraph of the input residue and the
    block.  The residue without its extra atoms is an induced subgraph of the
    block, which gives the lower bound; extras of the foreign element can never
    be matched.  Anything better is searched by brute force: drop d < #extras
    atoms from the residue and ask VF2 (networkx) whether the rest is an induced
    subgraph of the block.
    """
    info = rec['info']
    n_in = len(rec['elements'])
    lower = n_in - rec['n_extras']
    if rec['foreign_only'] or rec['n_extras'] == 0:
        return lower, False
    graph = residue_graph(rec)
    foreign = {k for k, e in rec['elements'].items() if e == FOREIGN or e in TWO_LETTER.values()}
    block_count = {}
    for e in info.elements:
        block_count[e] = block_count.get(e, 0) + 1
    nm = nx.isomorphism.categorical_node_match('element', None)
    nodes = sorted(graph)
    for dropped in range(len(foreign), rec['n_extras']):
        rest = [k for k in nodes if k not in foreign]
        for extra_drop in itertools.combinations(rest, dropped - len(foreign)):
            keep = [k for k in rest if k not in extra_drop]
            count = {}
            for k in keep:
                count[rec['elements'][k]] = count.get(rec['elements'][k], 0) + 1
            if any(c > block_count.get(e, 0) for e, c in count.items()):
                continue
            sub = graph.subgraph(keep)
            if GraphMatcher(info.graph, sub, node_match=nm).subgraph_is_isomorphic():
                return n_in - dropped, True
    return lower, True


# ---------------------------------------------------------------------------
# the validity predicate

RES_ATTRS = ('chain', 'resid', 'resname', 'insertion_code')


def judge(case, which, processor=None):
    mol, records, link = build(case, which)
    if processor is None:
        processor = RepairGraph(include_graph=case['include_graph'])
    n_before = len(mol)
    before_nodes = {k: dict(mol.nodes[k]) for k in mol.nodes}
    before_edges = {frozenset(e) for e in mol.edges}
    with capture_logs() as logs:
        out = processor.run_molecule(mol)
    label = 'presentation %d' % which
    # the input molecule itself is not to be modified (run_molecule works on a copy)
    if len(mol) != n_before or {frozenset(e) for e in mol.edges} != before_edges:
        raise Violation('input-modified', '%s: the molecule passed in was changed' % label)
    groups = {}
    for key in out.nodes:
        ident = tuple(out.nodes[key].get(attr) for attr in RES_ATTRS)
        groups.setdefault(ident, set()).add(key)
    all_in = set(before_nodes)
    summary = []
    owner = {}
    for ridx, rec in enumerate(records):
        ident = tuple(rec['attrs'].get(attr) for attr in RES_ATTRS)
        members = groups.pop(ident, set())
        for key in members:
            owner[key] = ridx
        summary.append(check_residue(rec, out, members, all_in, '%s residue %d (%s/%s)' % (
            label, ridx, rec['info'].ff, rec['info'].name)))
    if groups:
        ident, members = sorted(groups.items(), key=repr)[0]
        raise Violation('stray-atom', '%s: %d atoms with residue identity %r that no input residue has' % (label, len(members), ident))
    out_edges = {frozenset(e) for e in out.edges}
    cross = {e for e in out_edges if len({owner[k] for k in e}) == 2}
    if cross != ({link} if link else set()):
        raise Violation('inter-residue-bonds', '%s: bonds between the residues are %r, the input had %r' % (
            label, sorted(map(sorted, cross)), sorted(link) if link else None))
    errors = [m for r, m in zip(logs.records, logs.messages(0)) if r.levelno >= 40]
    if errors:
        raise Violation('error-logged', '%s: error logged on a repairable residue: %s' % (label, errors[0]))
    return summary


def check_residue(rec, out, members, all_in, label):
    info = rec['info']
    in_keys = set(rec['elements'])
    lost = in_keys - members
    if lost:
        raise Violation('atom-lost', '%s: input atoms %r are gone or changed residue' % (label, sorted(lost)[:5]))
    added = members - in_keys
    if added & all_in:
        raise Violation('atom-moved', '%s: atoms of another residue ended up in this one' % label)
    flagged = {k for k in members if out.nodes[k].get('PTM_atom')}
    if flagged & added:
        raise Violation('rebuilt-flagged', '%s: a rebuilt atom is flagged PTM_atom' % label)
    recognised = members - flagged
    names = {}
    for key in sorted(recognised):
        name = out.nodes[key].get('atomname')
        if name in names:
            raise Violation('duplicate-name', '%s: name %r on two recognised atoms (%r, %r)' % (label, name, names[name], key))
        names[name] = key
    index = {name: i for i, name in enumerate(info.names)}
    unknown = sorted(repr(n) for n in names if n not in index)
    if unknown:
        raise Violation('unknown-name', '%s: recognised atoms carry names not in the block: %s' % (label, ', '.join(unknown[:5])))
    missing = sorted(n for n in index if n not in names)
    if missing:
        raise Violation('incomplete', '%s: block atoms %r are absent after repair (%d input atoms, %d flagged)' % (
            label, missing[:6], len(in_keys), len(flagged)))
    to_block = {key: index[name] for name, key in names.items()}
    for key, bidx in sorted(to_block.items()):
        if key in in_keys and rec['elements'][key] != info.elements[bidx]:
            raise Violation('element-mismatch', '%s: input atom %r of element %r was named %r (element %r)' % (
                label, key, rec['elements'][key], info.names[bidx], info.elements[bidx]))
        if out.nodes[key].get('element') != info.elements[bidx]:
            raise Violation('element-attribute', '%s: atom %r named %r has element %r' % (
                label, key, info.names[bidx], out.nodes[key].get('element')))
    got = set()
    for u, v in out.edges:
        if u in to_block and v in to_block:
            a, b = to_block[u], to_block[v]
            got.add((min(a, b), max(a, b)))
    want = set(info.edges)
    if want - got:
        a, b = sorted(want - got)[0]
        raise Violation('missing-bond', '%s: block bond %s-%s is absent between the atoms that got these names' % (
            label, info.names[a], info.names[b]))
    if got - want:
        a, b = sorted(got - want)[0]
        raise Violation('extra-bond', '%s: atoms named %s and %s are bonded, the block has no such bond' % (
            label, info.names[a], info.names[b]))
    now_edges = {frozenset((u, v)) for u, v in out.edges if u in in_keys and v in in_keys}
    if now_edges != rec['in_edges']:
        raise Violation('input-bonds-changed', '%s: bonds among the input atoms changed: %r' % (
            label, sorted(map(sorted, now_edges ^ rec['in_edges']))[:4]))
    for key in sorted(added):
        for nb in out[key]:
            if nb in flagged:
                raise Violation('rebuilt-bonded-to-unrecognised', '%s: rebuilt atom %r (%s) is bonded to flagged atom %r' % (
                    label, key, out.nodes[key].get('atomname'), nb))
    mcs, brute = expected_mcs(rec)
    n_in = len(in_keys)
    if len(flagged) > n_in - mcs:
        raise Violation('match-not-maximal', '%s: %d atoms flagged, but a common induced subgraph of %d of the %d input atoms exists '
                        '(at most %d may be flagged)' % (label, len(flagged), mcs, n_in, n_in - mcs))
    if len(flagged) < n_in - mcs:
        raise HarnessError('%s: valid match of %d atoms found, the reference maximum is %d' % (label, n_in - len(flagged), mcs))
    if len(members) != n_in + info.n - mcs:
        raise Violation('atom-count', '%s: %d atoms after repair, expected %d' % (label, len(members), n_in + info.n - mcs))
    degree = {k: sum(1 for nb in out[k] if nb in members) for k in members}   # bonds inside the residue
    return {
        'flagged': len(flagged), 'added': len(added), 'brute': brute, 'mcs': mcs, 'n_in': n_in,
        'better-than-lower': mcs > n_in - rec['n_extras'],
        'named': sorted((out.nodes[k]['atomname'], out.nodes[k]['element']) for k in recognised),
        'named-degree': sorted((out.nodes[k]['atomname'], out.nodes[k]['element'], degree[k]) for k in recognised),
    }


# ---------------------------------------------------------------------------
# run

def _changes(spec, pres):
    """(changes a heavy atom name, changes the order) for the block atoms of a presentation."""
    info = info_of(spec['ff'], spec['block'])
    removed = set(spec.get('remove', ()))
    heavy_renamed = any(slot < info.n and slot not in removed and info.elements[slot] != 'H' for slot in pres['rename'])
    if pres['style'] == 'swap' and heavy_renamed:
        # a cyclic shift of one name is no change
        heavy_renamed = len([s for s in pres['rename'] if s < info.n and s not in removed]) >= 2
    kept = [i for i in range(info.n) if i not in removed]
    reordered = sorted(kept, key=lambda i: pres['order'][i]) != kept
    return heavy_renamed, reordered


def run(case):
    # both presentations go through one processor object: nothing may be carried over from one molecule to the next
    processor = RepairGraph(include_graph=case['include_graph'])
    first = judge(case, 0, processor)
    second = judge(case, 1, processor)
    for ridx, (a, b) in enumerate(zip(first, second)):
        if a['flagged'] != b['flagged'] or a['added'] != b['added']:
            raise Violation('presentation-dependent', 'residue %d: %d flagged / %d rebuilt in one presentation, %d / %d in the other' % (
                ridx, a['flagged'], a['added'], b['flagged'], b['added']))
        if a['named'] != b['named']:
            raise Violation('presentation-dependent', 'residue %d: (name, element) multisets differ between presentations' % ridx)
        spec = case['residue'] if ridx == 0 else case['second']['residue']
        if not spec.get('extras') and a['named-degree'] != b['named-degree']:
            raise Violation('presentation-dependent', 'residue %d: (name, element, degree) multisets differ between presentations' % ridx)
    spec = case['residue']
    info = info_of(spec['ff'], spec['block'])
    classes = set()
    sym_any, sym_heavy = info.symmetry()
    if sym_any:
        classes.add('symmetric')
    if sym_heavy:
        classes.add('symmetric-heavy')
    has_removal = bool(spec.get('remove'))
    has_extras = bool(spec.get('extras'))
    if has_removal:
        classes.add('removal')
    if has_extras:
        classes.add('extras')
        if first[0]['brute']:
            classes.add('extras-same-element')
        if first[0]['better-than-lower']:
            classes.add('extra-stands-in')
        if any(e['name'] is not None for e in spec['extras']):
            classes.add('extra-with-block-name')
    if has_removal and has_extras:
        classes.add('removal+extras')
    if not has_removal and not has_extras:
        classes.add('pure')
    if case.get('second') is not None:
        classes.add('two-residue')
        if case['second']['interleave']:
            classes.add('interleaved')
    pres = spec['pres'][0]
    heavy_renamed, reordered = _changes(spec, pres)
    if reordered:
        classes.add('reordered')
    if heavy_renamed:
        classes.add('heavy-renamed')
    nblock = len([s for s in pres['rename'] if s < info.n])
    if nblock >= info.n - len(spec.get('remove', ())) and nblock:
        classes.add('all-renamed-' + pres['style'])
    elif nblock:
        classes.add('some-renamed-' + pres['style'])
    if first[0]['added']:
        classes.add('atoms-rebuilt')
    if has_removal:
        kept = [i for i in range(info.n) if i not in set(spec['remove'])]
        if nx.number_connected_components(info.graph.subgraph(kept)) > info.ncomp:
            classes.add('input-disconnected')
    classes.add('ff-' + spec['ff'])
    classes.add('size-%s' % ('1-3' if info.n < 4 else '4-14' if info.n <= 14 else '15-24' if info.n <= 24 else '25-40' if info.n <= 40 else '41-70'))
    nontrivial = info.n >= 4 and (heavy_renamed or reordered)
    return Outcome(sorted(classes), nontrivial)


# ---------------------------------------------------------------------------
# generator

def _intensity(tier, info):
    if info.n <= BOUND_FULL[tier]:
        return 'full'
    if info.n <= BOUND_HEAVY[tier]:
        return 'heavy'
    return 'mild'


def _pres_strategy(info, intensity):
    nslots = info.n + 3
    slots = list(range(nslots))
    hyd = [i for i in range(info.n) if info.elements[i] == 'H']
    heavy = [i for i in range(info.n) if info.elements[i] != 'H']
    extras = list(range(info.n, nslots))
    order = st.one_of(st.permutations(slots), st.permutations(slots), st.permutations(slots),
                      st.just(slots), st.just(slots[::-1]))

    def subset(pool, most):
        if not pool:
            return st.just([])
        return st.lists(st.sampled_from(pool), unique=True, min_size=1, max_size=min(most, len(pool))).map(sorted)

    few = subset(slots[:info.n], 6)
    if intensity == 'full':
        rename = st.one_of(st.just(slots), st.just(slots), st.just(hyd + extras), st.just(heavy + extras),
                           subset(slots, nslots), st.just([]))
        style = st.sampled_from(['fresh', 'fresh', 'fresh', 'swap', 'swap', 'element', 'absent', 'empty'])
    elif intensity == 'heavy':
        rename = st.one_of(st.just(heavy + extras), st.just(heavy), st.just(hyd + extras), few, st.just([]),
                           subset(heavy, 3).map(lambda some: sorted(set(some) | set(hyd))))
        style = st.sampled_from(['fresh', 'fresh', 'fresh', 'absent'])
    elif intensity == 'mild':
        rename = st.one_of(st.just(hyd + extras), st.just(hyd), few, st.just([]),
                           subset(heavy, 3).map(lambda some: sorted(set(some) | set(hyd))))
        style = st.sampled_from(['fresh', 'fresh', 'fresh', 'absent'])
    elif intensity == 'canonical':
        rename = st.just([])
        style = st.just('fresh')
    else:
        raise HarnessError(intensity)
    return st.fixed_dictionaries({
        'order': order.map(list), 'namekey': st.permutations(slots).map(list), 'rename': rename, 'style': style,
        'key0': st.sampled_from([0, 0, 1, 17]), 'keystep': st.sampled_from([1, 1, 2, 7]),
    })


def _max_extras(n):
    return 3 if n <= 30 else 2 if n <= 45 else 1


def _residue_strategy(tier, key, kind):
    info = _INFO[key]
    intensity = _intensity(tier, info)
    if kind in ('same', 'remove+same') and info.n > BOUND_SAME_ANY:
        intensity = 'canonical'
    fields = {'ff': st.just(key[0]), 'block': st.just(key[1])}
    if 'remove' in kind:
        most = max(1, int(0.4 * info.n))
        fields['remove'] = st.lists(st.integers(0, info.n - 1), unique=True, min_size=1, max_size=min(most, info.n - 1)).map(sorted)
    if 'foreign' in kind or 'same' in kind:
        if 'same' in kind:
            element = st.one_of(st.integers(0, info.n - 1), st.integers(0, info.n - 1), st.just('foreign'))
            count = 3
        else:
            element = st.just('foreign')
            count = _max_extras(info.n)
        name = st.one_of(st.none(), st.none(), st.integers(0, info.n - 1)) if intensity == 'full' else st.none()
        extra = st.fixed_dictionaries({'at': st.integers(0, info.n + 2), 'el': element, 'name': name,
                                       'two_letter': st.booleans()})
        fields['extras'] = st.lists(extra, min_size=1, max_size=count)
    pres = _pres_strategy(info, intensity)
    fields['pres'] = st.tuples(pres, pres).map(list)
    if kind == 'remove+same':
        fields['standin'] = st.booleans()
    spec = st.fixed_dictionaries(fields)
    if 'same' in kind:
        # at least one extra of an element of the block, else it is a 'foreign' case
        spec = spec.map(_force_same)
    return spec


def _force_same(spec):
    if all(e['el'] == 'foreign' for e in spec['extras']):
        spec['extras'][0]['el'] = spec['extras'][0]['at']
    if spec.pop('standin', False):
        # the first extra takes the place of a removed atom: same element, attached to a former neighbour
        info = _INFO[(spec['ff'], spec['block'])]
        removed = set(spec['remove'])
        kept = [i for i in range(info.n) if i not in removed]
        for gone in spec['remove']:
            partners = [i for i in info.graph[gone] if i not in removed]
            if partners:
                spec['extras'][0].update(at=kept.index(min(partners)), el=gone)
                break
    return spec


KINDS = ['pure', 'pure', 'pure', 'remove', 'remove', 'foreign', 'foreign', 'remove+foreign', 'remove+foreign',
         'same', 'remove+same']


def _kind_pool(tier, ffname, kind):
    keys = _ELIGIBLE[tier][ffname]
    if kind in ('pure', 'foreign'):
        return keys
    connected = [k for k in keys if _INFO[k].ncomp == 1]
    if kind in ('remove', 'remove+foreign'):
        return [k for k in connected if _INFO[k].n >= 2]
    if kind == 'same':
        return [k for k in connected if 2 <= _INFO[k].n <= BOUND_SAME_CANONICAL]
    if kind == 'remove+same':
        return [k for k in connected if 2 <= _INFO[k].n <= BOUND_SAME_ANY]
    raise HarnessError(kind)


def _strategy(tier):
    preload()

    def for_choice(choice):
        ffname, kind, two = choice
        pool = _kind_pool(tier, ffname, kind)
        if kind == 'same':
            # half of the cases on the small blocks where every presentation is affordable
            small = [k for k in pool if _INFO[k].n <= BOUND_SAME_ANY]
            block = st.one_of(st.sampled_from(small), st.sampled_from(pool)) if small else st.sampled_from(pool)
        else:
            # a quarter of the cases on the (few) blocks of 25 atoms and more
            big = [k for k in pool if _INFO[k].n >= 25]
            block = st.one_of(st.sampled_from(pool), st.sampled_from(pool), st.sampled_from(pool),
                              st.sampled_from(big)) if big else st.sampled_from(pool)
        residue = block.flatmap(lambda key: _residue_strategy(tier, tuple(key), kind))
        if not two:
            second = st.none()
        else:
            small = [k for k in _ELIGIBLE[tier][ffname] if _INFO[k].n <= BOUND_SECOND]
            second_kind = st.sampled_from(['pure', 'pure', 'remove', 'foreign'])

            def second_residue(pair):
                key, skind = pair
                if skind == 'remove' and (_INFO[key].ncomp != 1 or _INFO[key].n < 2):
                    skind = 'pure'
                return _residue_strategy(tier, key, skind)
            second = st.fixed_dictionaries({
                'residue': st.tuples(st.sampled_from(small), second_kind).flatmap(second_residue),
                'ident': st.sampled_from(['resid', 'resid', 'chain', 'icode', 'resid-back']),
                'interleave': st.sampled_from([False, False, 'first-first', 'second-first']),
                'link': st.tuples(st.integers(0, 80), st.integers(0, 80)).map(list),
            })
        return st.fixed_dictionaries({'residue': residue, 'second': second, 'include_graph': st.booleans()})

    choice = st.tuples(st.sampled_from(['charmm', 'charmm', 'charmm', 'amber', 'gromos']),
                       st.sampled_from(KINDS),
                       st.sampled_from([False, False, False, False, True]))
    return choice.flatmap(for_choice)


# ---------------------------------------------------------------------------
# enumeration of all eligible blocks with fixed presentations

def _fixed_pres(info, intensity, variant):
    nslots = info.n + 3
    slots = list(range(nslots))
    hyd = [i for i in range(info.n) if info.elements[i] == 'H']
    heavy = [i for i in range(info.n) if info.elements[i] != 'H']
    # a multiplicative permutation of the slots: i -> (a*i + b) mod nslots with gcd(a, nslots) = 1
    a = next(c for c in (7, 11, 13, 17, 5, 3, 1) if np.gcd(c, nslots) == 1)
    stride = [(a * i + 2) % nslots for i in slots]
    if variant == 0:
        if intensity == 'full':
            rename = slots
        elif intensity == 'heavy':
            rename = heavy
        else:
            rename = sorted(hyd + heavy[::max(1, len(heavy) // 3)][:3])
        return {'order': slots[::-1], 'namekey': stride, 'rename': rename, 'style': 'fresh', 'key0': 3, 'keystep': 2}
    return {'order': stride, 'namekey': slots[::-1], 'rename': hyd, 'style': 'fresh', 'key0': 0, 'keystep': 1}


def _enumerate(tier, shard, nshards):
    preload()
    import os
    try:
        seed = int(os.environ.get('VERIF_SEED', '1'))
    except ValueError:
        seed = 1
    keys = [k for ffname in FF_NAMES for k in _ELIGIBLE[tier][ffname]]
    stride = 4 if tier == 'quick' else 1
    for idx, key in enumerate(keys):
        if idx % nshards != shard:
            continue
        if (idx // nshards) % stride != seed % stride:
            continue
        info = _INFO[key]
        intensity = _intensity(tier, info)
        pres = [_fixed_pres(info, intensity, 0), _fixed_pres(info, intensity, 1)]
        yield {'residue': {'ff': key[0], 'block': key[1], 'pres': pres}, 'second': None, 'include_graph': False}
        if info.ncomp == 1 and info.n >= 3:
            # every third atom missing, one foreign atom attached
            remove = list(range(1, info.n, 3))[:max(1, int(0.4 * info.n))]
            yield {'residue': {'ff': key[0], 'block': key[1], 'remove': remove,
                               'extras': [{'at': info.n // 2, 'el': 'foreign', 'name': None}], 'pres': pres[::-1]},
                   'second': None, 'include_graph': True}


RULE = (
    'Domain: the blocks of charmm, amber and gromos with 1-40 (quick) / 1-70 (thorough) atoms, unique atom names, minus 53 charmm '
    'blocks on which the matching takes seconds to minutes even with canonical names (SLOW_BLOCKS) and gromos NAD (its atoms carry '
    'another residue name).  "blocks": every eligible block (thorough; quick: a quarter of them, which quarter depends on VERIF_SEED) '
    'with two fixed cases - (a) names replaced by fresh ones (all atoms for blocks <= 14/15 atoms, all heavy atoms up to 30/35 atoms, '
    'hydrogens + 3 heavy atoms above) in reversed order on sparse keys vs. hydrogens renamed in a stride permutation; (b) every third '
    'atom removed and one foreign atom attached.  "presentations": Hypothesis draws force field, kind (pure / removal of 1..40 % of '
    'the atoms / 1-3 extra atoms of a foreign element / both / extras of an element of the block, with or without removal), a block '
    'eligible for the kind, and two presentations of the residue: node order (permutation), sparse node keys, renamed subset (all, '
    'hydrogens, heavy atoms, a few, none) and style (fresh unique names, names handed round among the chosen atoms, name = element, '
    'attribute absent, empty string); extras are attached to any atom or to an earlier extra and may carry the name of a block atom; '
    'in 20 % a second residue (block <= 12 atoms, own presentation) is bonded to the first, distinguished by resid, chain or insertion '
    'code, atoms optionally interleaved.  Which renamings a block gets is bounded by its size (BOUND_*), see ASSUMPTIONS.  '
    'Non-trivial: the block has >= 4 atoms and the first presentation renames >= 1 heavy atom or changes the atom order; distinct '
    'by hash.  Classes: symmetric (non-trivial element-preserving automorphism, networkx VF2), symmetric-heavy (one that moves a heavy '
    'atom), removal+extras, two-residue, extras-same-element, extra-stands-in (brute force found a larger match than residue minus extras).')

ASSUMPTIONS = [
    'the element of an input atom is the element RepairGraph derives for the block atom: the first ASCII letter of its canonical name '
    '(add_element_attr; blocks carry no element attribute) - e.g. chlorine is "C"; an extra "foreign" atom has element "Xx" which no block atom can have',
    'every atom has element, resname (= block name), resid, chain, position; atomname is a str, "" or absent; node keys are ints (martinize2 after PDBInput/MakeBonds)',
    'no mutation / modification attributes (covered by C19); RepairGraph is called as run_molecule on a molecule whose force_field has the block',
    'atoms are only removed from connected blocks and at least one atom stays: a block atom can be rebuilt only next to a known neighbour '
    '(documented in repair_residue; "Could not reconstruct atom" is logged otherwise); extras of an element of the block likewise only on connected blocks',
    'size bounds, because the largest-common-subgraph search is exponential when names give no hint (measured): arbitrary renaming of all atoms, '
    'swapped or degenerate names only for blocks <= 14 (quick) / 15 (thorough) atoms; all heavy atoms renamed <= 30 / 35 atoms; larger blocks: '
    'hydrogens and/or <= 6 atoms renamed (fresh or absent names), any order; extras of a block element: any presentation <= 8 atoms, canonical '
    'names without removal <= 24 atoms; foreign extras: 3 up to 30 atoms, 2 up to 45, else 1; a PTM atom carrying a block atom name only on blocks <= 14/15 atoms',
    'metamorphic relation: (name, element, degree inside the residue) multisets are compared only when no extra atoms are attached - with extras two maximum '
    'matches may attach the unrecognised atom to differently named atoms (symmetry), both are valid, and so may the bond to a neighbouring residue; '
    'flagged / rebuilt counts and (name, element) always',
    'the input molecule object must stay unchanged (run_molecule documents working on a copy)',
    'any ERROR-level log record on these repairable inputs is a violation',
]

# the slowest case on the unchanged tree takes a few seconds; a repair that runs for minutes is given up as inconclusive
CASE_TIMEOUT = 240

PARTS = [
    Part('blocks', run, enumerate=_enumerate, case_timeout=CASE_TIMEOUT),
    Part('presentations', run, strategy=_strategy, examples={'quick': 1500, 'thorough': 60000}, case_timeout=CASE_TIMEOUT,
         floors={'symmetric': 0.5, 'symmetric-heavy': 0.2, 'removal+extras': 0.12, 'two-residue': 0.1, 'extras-same-element': 0.06,
                 'extra-stands-in': 0.008, 'reordered': 0.4, 'heavy-renamed': 0.3, 'atoms-rebuilt': 0.2, 'input-disconnected': 0.1}),
]

PARTS = PARTS + c04_isoshape.PARTS + c04_requested.PARTS
RULE = RULE + ' ' + c04_isoshape.RULE_TEXT + ' ' + c04_requested.RULE_TEXT

_preload_main = preload


def preload():   # noqa: F811
    _preload_main()
    c04_isoshape.preload()
    c04_requested.preload()
