"""
C18  Go-model sites and contacts mirror the backbone and the contact map.

Every case is ONE merged coarse-grained molecule (1-3 chains, 3-20 residues)
built from a plain description, a contact list in the format the CLI stores in
``system.go_params['go_map']`` (either appended in memory like
GenerateContactMap does, or written as a contact-map file in the server format
and read back by ``read_go_map`` like ``-go FILE`` does), and the seven keyword
arguments bin/martinize2 passes to ``GoPipeline.run_system``.

Oracle: written from the property statement.  Own residue graph + BFS, own
distance computation, own symmetric-contact detection; nothing of vermouth is
called in the oracle.  Two-directional for sites, virtual_sitesn interactions,
atom types, nonbond_params and exclusions.
"""
import ast
import math
from fractions import Fraction
import os
import tempfile

import numpy as np
from hypothesis import strategies as st

from pbt.core import Part, Outcome, Violation, HarnessError, REPO

import vermouth
from vermouth.rcsu.go_pipeline import GoPipeline
from vermouth.rcsu.contact_map import read_go_map

PROPERTY = 'C18'
LEVEL = 'exploration'
RULE = ('pipeline: one merged CG molecule of 1-3 chains / 3-20 residues (one backbone bead named by go_anchor_bead + 0-2 side '
        'beads, node keys with gaps, resid unique, _old_resid restarting per chain so chains overlap, backbone edges with rare '
        'breaks, 0-3 cross-link edges, pre-existing exclusions / virtual_sitesn); backbone positions free in a box or anchored '
        'to an earlier residue at short*(1+-1e-7), long*(1+-1e-7), exactly short/long, clearly below/inside/above; contact list '
        'without repeats drawn from anchored pairs, random pairs and near-in-sequence pairs, each listed in both or one '
        'direction, plus self contacts and entries naming an absent residue number / absent chain / the merged resid instead '
        'of the input resid, in drawn order; cut-offs, res_dist 0-5, go_eps, moltype, go_anchor_bead, go_atomname drawn; list '
        'given in memory or through a contact-map file (with decoy lines that are not OV/rCSU contacts) read by read_go_map; '
        'run through GoPipeline.run_system with the keyword arguments of bin/martinize2.  Non-trivial = at least 2 chains '
        'sharing an _old_resid value AND at least one accepted contact AND, for every filter (one-directional, absent '
        'residue/chain, graph distance, short cut-off, long cut-off), at least one contact rejected by that filter alone.  '
        'names: same cases with the molecule name replaced by a prefix of a regular bead type of the molecule.')
ASSUMPTIONS = [
    'GoPipeline always receives one merged molecule (several molecules per system are outside the stated domain)',
    'chain identifiers of the chains of one molecule are pairwise distinct and (chain, _old_resid) is unique per residue',
    'a residue has one backbone bead or none (cofactor / ligand); no contact names a residue without one (the code stops the run with a message then); the site name differs from the backbone bead name',
    'a pair whose backbone distance is within 1e-9 (relative) of a cut-off may be accepted or rejected',
    'the keyword arguments are the seven that bin/martinize2 passes (checked against its source in preload)',
    'site type name is "<moltype>_<resid>" (docstring of add_virtual_sites, doc/source/tutorials/go_models.rst)',
    'virtual_sitesn function type 1 or 2 both count as "constructed from that particle" (identical for one constructing atom)',
]

CLI_KWARGS = ('moltype', 'cutoff_short', 'cutoff_long', 'go_eps', 'res_dist', 'go_anchor_bead', 'go_atomname')
TIE = 1e-9
SIGMA_REL = 1e-9
FACTOR = 2.0 ** (1.0 / 6.0)

# residue templates: resname, backbone type, backbone charge, side bead types
TEMPLATES = [
    ('GLY', 'SP1', 0.0, []),
    ('ALA', 'SP2', 0.0, ['TC3']),
    ('ALA', 'SP2', 0.0, []),
    ('LYS', 'P2', 0.0, ['SC3', 'SQ4p']),
    ('LYS', 'Q5', 1.0, ['SC3', 'SQ4p']),
    ('CYS', 'P2', 0.0, ['TC6']),
    ('ASP', 'P2', 0.0, ['SQ5n']),
    ('ASP', 'Q5', -1.0, []),
    ('SER', 'P2', 0.0, ['TP1']),
    ('PHE', 'P2', 0.0, ['SC4', 'TC5']),
    ('VAL', 'SP2', 0.0, ['SC3']),
    ('CYS', 'P2', 0.0, ['TC6', 'C1']),
]
SC_MASS = {'T': 36.0, 'S': 54.0}
DIRECTIONS = ([(1, 0, 0), (-1, 0, 0), (0, 1, 0), (0, -1, 0), (0, 0, 1), (0, 0, -1)] * 8
              + [(a, b, c) for a in range(-2, 3) for b in range(-2, 3) for c in range(-2, 3) if (a, b, c) != (0, 0, 0)])
MOLTYPES = ['molecule', 'molecule', 'molecule_0', 'my_protein', 'prot-A', 'lysozyme', 'mol_1', 'X', 'Go1']
CHAINS = ['A', 'B', 'C', 'D', 'X', 'Z', 'a', '1']
ABSENT_CHAINS = ['Q', 'Y', 'b']


def preload():
    """Guard: the keyword arguments used here are the ones the CLI passes."""
    path = os.path.join(REPO, 'bin', 'martinize2')
    with open(path, encoding='utf-8') as fh:
        tree = ast.parse(fh.read())
    found = None
    for node in ast.walk(tree):
        if (isinstance(node, ast.Call) and isinstance(node.func, ast.Attribute)
                and node.func.attr == 'run_system'
                and isinstance(node.func.value, ast.Name) and node.func.value.id == 'GoPipeline'):
            found = tuple(kw.arg for kw in node.keywords)
    if found is None or sorted(found) != sorted(CLI_KWARGS):
        raise HarnessError('bin/martinize2 calls GoPipeline.run_system with %r, the check uses %r' % (found, CLI_KWARGS))


# ---------------------------------------------------------------------------
# generator

def _distance(p, q):
    return math.sqrt(math.fsum((a - b) * (a - b) for a, b in zip(p, q)))


def _tie(d, cut):
    return d == cut or abs(d - cut) <= TIE * max(abs(d), abs(cut))


def _exactly_on(p, q, cut):
    """True if the two points differ along one axis only and that difference is the cut-off exactly, as real numbers.  The
    floating-point subtraction is then exact as well and the norm of (d, 0, 0) is d, so the code under test sees the very
    same number: a strict comparison has to reject the pair, no tolerance applies."""
    diffs = [Fraction(a) - Fraction(b) for a, b in zip(p, q)]
    nonzero = [d for d in diffs if d != 0]
    return len(nonzero) == 1 and abs(nonzero[0]) == Fraction(cut)


def _residue_distances(n, res_of, edges):
    """Own residue graph (residues joined when any of their particles are
    joined by an edge) and breadth-first distances from every residue.
    Unreachable residues are absent from the inner dict."""
    adj = [set() for _ in range(n)]
    for a, b in edges:
        ra, rb = res_of[a], res_of[b]
        if ra != rb:
            adj[ra].add(rb)
            adj[rb].add(ra)
    out = []
    for src in range(n):
        dist = {src: 0}
        frontier = [src]
        while frontier:
            nxt = []
            for u in frontier:
                for v in sorted(adj[u]):
                    if v not in dist:
                        dist[v] = dist[u] + 1
                        nxt.append(v)
            frontier = nxt
        out.append(dist)
    return out


def _unit(vec):
    a, b, c = vec
    norm = math.sqrt(a * a + b * b + c * c)
    return (a / norm, b / norm, c / norm)


@st.composite
def _case(draw, tier, hazard=False):
    nch = draw(st.sampled_from([1, 2, 2, 2, 3, 3]))
    nres = draw(st.integers(max(3, nch), 20))
    # chain sizes (each >= 1)
    sizes = []
    left = nres
    for k in range(nch - 1):
        size = draw(st.integers(1, left - (nch - 1 - k)))
        sizes.append(size)
        left -= size
    sizes.append(left)
    chains = draw(st.lists(st.sampled_from(CHAINS), min_size=nch, max_size=nch, unique=True))
    # on_grid: cut-offs and free positions are multiples of 1/512, so that a bead can sit at a distance that equals a cut-off
    # exactly (in real numbers and in floating point alike): "strictly between" then decides, not a tolerance
    on_grid = draw(st.sampled_from([False, False, True]))
    if on_grid:
        short = draw(st.sampled_from([0.25, 0.5, 0.375, 0.125, 0.3125]))
        long_ = short + draw(st.sampled_from([0.5, 0.75, 1.0, 0.625]))
    else:
        short = draw(st.one_of(st.sampled_from([0.3, 0.3, 0.25, 0.4, 0.5, 0.3, 0.35, 0.45, 0.0, 0.1]), st.floats(0.05, 0.6)))
        long_ = draw(st.one_of(st.just(1.1), st.floats(0.2, 1.0).map(lambda x: short + x)))
        if not long_ > short:
            long_ = short + 0.5
    eps = draw(st.one_of(st.sampled_from([9.414, 12.0, 1.0]), st.floats(0.1, 50.0)))
    res_dist = draw(st.sampled_from([0, 1, 1, 2, 2, 3, 3, 3, 4, 5]))
    anchor = draw(st.sampled_from(['BB', 'BB', 'BB', 'CA', 'B1']))
    vsname = draw(st.sampled_from(['CA', 'CA', 'GO', 'VS']))
    if vsname == anchor:
        vsname = 'GO'
    moltype = draw(st.sampled_from(MOLTYPES))

    def fixed(strategy, size):
        return draw(st.lists(strategy, min_size=size, max_size=size))

    # residues
    shared_start = draw(st.sampled_from([1, 1, 1, 0, -3, 5, 100]))
    step = st.sampled_from([1] * 9 + [2, 4])
    resid_steps = fixed(step, nres)
    old_steps = fixed(step, nres)
    templates = fixed(st.sampled_from(TEMPLATES), nres)
    own_start = fixed(st.one_of(st.none(), st.none(), st.none(), st.integers(-5, 30)), nch)
    residues = []
    resid = draw(st.sampled_from([1, 1, 1, 0, 2, 10]))
    for ci, size in enumerate(sizes):
        old = shared_start if own_start[ci] is None else own_start[ci]
        for _ in range(size):
            ri = len(residues)
            residues.append({'resid': resid, 'old': old, 'chain': chains[ci], 'resname': templates[ri][0]})
            resid += resid_steps[ri]
            old += old_steps[ri]

    # atoms
    atoms = []
    bb_key = []
    last_key = []
    key = draw(st.sampled_from([0, 1, 1, 5]))
    keysteps = fixed(st.sampled_from([1] * 9 + [2, 3]), nres)
    L = 0.8 * long_
    if on_grid:
        free = [v / 512.0 for v in fixed(st.integers(-int(L * 512), int(L * 512)), 3 * nres)]
    else:
        free = fixed(st.floats(-L, L, allow_nan=False, allow_infinity=False), 3 * nres)
    cats = ['short-', 'short+', 'long-', 'long+', 'short=', 'long=', 'mid', 'mid', 'mid', 'mid', 'below', 'below',
            'below', 'above', 'above']
    # per residue: (anchored?, to previous?, target, category, fraction, direction)
    plan = fixed(st.tuples(st.sampled_from([True, True, True, False]), st.sampled_from([True, False, False]),
                           st.integers(0, 19), st.sampled_from(cats), st.floats(0.05, 0.9),
                           st.sampled_from(DIRECTIONS)), nres)
    anchored = []
    bbpos = []
    edges = []
    ligand = fixed(st.sampled_from([False] * 11 + [True]), nres)
    for ri in range(nres):
        is_anchored, to_prev, target, cat, frac, general = plan[ri]
        _, bbtype, bbcharge, sctypes = templates[ri]
        if ri > 0 and is_anchored:
            rj = ri - 1 if to_prev else target % ri
            if cat == 'short-':
                dist = short * (1 - 1e-7)
            elif cat == 'short+':
                dist = short * (1 + 1e-7)
            elif cat == 'long-':
                dist = long_ * (1 - 1e-7)
            elif cat == 'long+':
                dist = long_ * (1 + 1e-7)
            elif cat == 'short=':
                dist = short
            elif cat == 'long=':
                dist = long_
            elif cat == 'mid':
                dist = short + (long_ - short) * frac
            elif cat == 'below':
                dist = short * frac
            else:
                dist = long_ * (1 + frac)
            if on_grid and cat in ('short=', 'long=') and sorted(map(abs, general)) != [0, 0, 1]:
                general = (0, 0, 1)
            direction = _unit(general)
            pos = [bbpos[rj][k] + dist * direction[k] if direction[k] else bbpos[rj][k] for k in range(3)]
            anchored.append((rj, ri))
        else:
            pos = free[3 * ri:3 * ri + 3]
        bbpos.append(pos)
        # a residue without a backbone particle (cofactor, ion, ligand merged into the molecule): it gets no site and, in this
        # generator, no contact names it
        atoms.append([key, ri, 'L1' if ligand[ri] else anchor, bbtype, pos, 72.0, bbcharge])
        bb_key.append(key)
        prev = key
        for si, sctype in enumerate(sctypes):
            key += 1
            spos = [pos[0] + 0.1 * (si + 1), pos[1] + (0.05, -0.2)[si], pos[2]]
            atoms.append([key, ri, 'SC%d' % (si + 1), sctype, spos, SC_MASS.get(sctype[0], 72.0), 0.0])
            edges.append([prev, key])
            prev = key
        last_key.append(prev)
        key += keysteps[ri]
    # backbone edges (rare breaks), within chains only
    bonded = fixed(st.sampled_from([True] * 15 + [False]), nres)
    for ri in range(1, nres):
        if residues[ri]['chain'] == residues[ri - 1]['chain'] and bonded[ri]:
            edges.append([bb_key[ri - 1], bb_key[ri]])
    # cross links
    for a, b, side in draw(st.lists(st.tuples(st.integers(0, nres - 1), st.integers(0, nres - 1), st.booleans()),
                                    max_size=3)):
        if a != b:
            pair = [last_key[a], last_key[b]] if side else [bb_key[a], last_key[b]]
            if pair not in edges and pair[::-1] not in edges:
                edges.append(pair)
    # pre-existing interactions
    pre_excl = []
    pre_vs = []
    for ri in draw(st.lists(st.integers(0, nres - 1), max_size=3, unique=True)):
        if last_key[ri] != bb_key[ri]:
            pre_excl.append([bb_key[ri], last_key[ri]])
    if draw(st.sampled_from([True, False, False])):
        for ri in range(nres):
            if last_key[ri] != bb_key[ri]:
                pre_vs.append([last_key[ri], bb_key[ri]])
                break

    # contacts: the generator sorts all residue pairs by what should happen to
    # them and picks from every kind, next to anchored / random / near pairs
    lookup = {(r['chain'], r['old']): i for i, r in enumerate(residues)}
    res_of = {a[0]: a[1] for a in atoms}
    gdist = _residue_distances(nres, res_of, edges)
    kinds = {'ok': [], 'graph': [], 'short': [], 'long': []}
    for a in range(nres):
        for b in range(a + 1, nres):
            d = _distance(bbpos[a], bbpos[b])
            if _tie(d, short) or _tie(d, long_):
                continue
            near = gdist[a].get(b) is not None and gdist[a][b] <= res_dist
            inside = short < d < long_
            if inside:
                kinds['graph' if near else 'ok'].append((a, b))
            elif not near:
                kinds['short' if d < short else 'long'].append((a, b))
    pairs = []          # (a, b, forced direction mode or None)
    picks = fixed(st.tuples(st.integers(0, 400), st.sampled_from([True] * 9 + [False])), 7)
    for slot, (name, forced) in enumerate([('ok', None), ('ok', None), ('ok', 'one'), ('graph', 'both'),
                                           ('short', 'both'), ('long', 'both'), ('graph', None)]):
        index, wanted = picks[slot]
        if kinds[name] and wanted:
            a, b = kinds[name][index % len(kinds[name])]
            pairs.append((a, b, forced))
    keep = fixed(st.sampled_from([True] * 6 + [False]), len(anchored))
    for pair, flag in zip(anchored, keep):
        if flag:
            pairs.append((pair[0], pair[1], None))
    for a, b in draw(st.lists(st.tuples(st.integers(0, nres - 1), st.integers(0, nres - 1)), max_size=8)):
        if a != b:
            pairs.append((min(a, b), max(a, b), None))
    for a, k in draw(st.lists(st.tuples(st.integers(0, nres - 1), st.integers(1, 6)), max_size=5)):
        if a + k < nres:
            pairs.append((a, a + k, None))
    seen = set()
    entries = []

    def ident(ri):
        return (residues[ri]['old'], residues[ri]['chain'])

    def push(one, two):
        entry = [one[0], one[1], two[0], two[1]]
        if tuple(entry) not in seen:
            seen.add(tuple(entry))
            entries.append(entry)

    modes = fixed(st.sampled_from(['both'] * 7 + ['fwd', 'rev', 'rev']), len(pairs))
    onedir = draw(st.sampled_from(['fwd', 'rev']))
    done = set()
    for idx, (a, b, forced) in enumerate(pairs):
        if (a, b) in done:
            continue
        done.add((a, b))
        mode = modes[idx]
        if forced == 'both':
            mode = 'both'
        elif forced == 'one':
            mode = onedir
        if mode in ('both', 'fwd'):
            push(ident(a), ident(b))
        if mode in ('both', 'rev'):
            push(ident(b), ident(a))
    for a in draw(st.lists(st.integers(0, nres - 1), max_size=2, unique=True)):
        push(ident(a), ident(a))
    # entries that cannot be resolved
    olds = [r['old'] for r in residues]
    nfake = draw(st.sampled_from([0, 1, 1, 1, 1, 2, 2, 3]))
    for kind, a, b, number, chain, direction in fixed(st.tuples(
            st.sampled_from(['resid', 'number', 'chain', 'swap', 'both']), st.integers(0, nres - 1),
            st.integers(0, nres - 1), st.sampled_from([max(olds) + 1, min(olds) - 1, max(olds) + 7]),
            st.sampled_from(ABSENT_CHAINS), st.sampled_from(['both', 'both', 'fwd', 'rev'])), nfake):
        if kind == 'resid':
            fake = (residues[a]['resid'], residues[a]['chain'])
        elif kind == 'number':
            fake = (number, residues[a]['chain'])
        elif kind == 'chain':
            fake = (residues[a]['old'], chain)
        elif kind == 'swap':
            fake = (residues[a]['old'], residues[b]['chain'])
        else:
            fake = (max(olds) + 3, chain)
        if (fake[1], fake[0]) in lookup:
            fake = (number, residues[a]['chain'])
        other = fake if kind == 'both' else ident(b)
        if direction in ('both', 'fwd'):
            push(fake, other)
        if direction in ('both', 'rev'):
            push(other, fake)
    without_backbone = {ident(ri) for ri in range(nres) if ligand[ri]}
    entries = [e for e in entries if (e[0], e[1]) not in without_backbone and (e[2], e[3]) not in without_backbone]
    order = draw(st.sampled_from(['permuted', 'permuted', 'as-built', 'reversed', 'split']))
    if order == 'permuted':
        entries = list(draw(st.permutations(entries)))
    elif order == 'reversed':
        entries = entries[::-1]
    elif order == 'split':
        # first every pair one way round, then the remaining directions
        first = [e for e in entries if (e[0], e[1]) <= (e[2], e[3])]
        entries = first + [e for e in entries if (e[0], e[1]) > (e[2], e[3])]
    via_file = bool(entries) and draw(st.booleans())
    decoys = []
    if via_file:
        for a, b in draw(st.lists(st.tuples(st.integers(0, nres - 1), st.integers(0, nres - 1)), max_size=3)):
            decoys.append([ident(a)[0], ident(a)[1], ident(b)[0], ident(b)[1]])

    if hazard:
        types = sorted({a[3] for a in atoms})
        base = draw(st.sampled_from(types))
        moltype = base[:draw(st.integers(1, len(base)))]

    return {'moltype': moltype, 'anchor': anchor, 'vsname': vsname, 'short': short, 'long': long_, 'eps': eps,
            'res_dist': res_dist, 'via_file': via_file, 'residues': residues, 'atoms': atoms, 'edges': edges,
            'pre_excl': pre_excl, 'pre_vs': pre_vs, 'contacts': entries, 'decoys': decoys}


def _strategy(tier):
    return _case(tier)


def _strategy_names(tier):
    return _case(tier, hazard=True)


# ---------------------------------------------------------------------------
# building the real objects

def _write_map(case, path):
    resn = {(r['chain'], r['old']): (i + 1, r['resname']) for i, r in enumerate(case['residues'])}
    lines = ['Go contact map written by the C18 check\n', '\n',
             '      ID    I1  AA  C I(PDB)     I2  AA  C I(PDB)        DCA       CMs    rCSU   Count Model\n',
             '============================================================================================\n']
    count = 0
    out = []
    for idx, entry in enumerate(case['contacts']):
        # alternate between an OV contact and a pure rCSU contact, both count
        flags = '1 1 1 1' if idx % 2 == 0 else '0 1 1 1'
        out.append((entry, flags))
        if idx < len(case['decoys']):
            # neither OV nor rCSU: must be ignored by the reader
            out.append((case['decoys'][idx], '0 1 1 0' if idx % 2 == 0 else '0 1 0 0'))
    for entry, flags in out:
        count += 1
        ra, ca, rb, cb = entry
        ia, na = resn.get((ca, ra), (0, 'UNK'))
        ib, nb = resn.get((cb, rb), (0, 'UNK'))
        lines.append('R %6d %5d  %3s %1s %4d    %5d  %3s %1s %4d    %9.4f     %s %5d %7d    0\n' % (
            count, ia, na, ca, ra, ib, nb, cb, rb, 5.0, flags, 11, 100))
    with open(path, 'w', encoding='utf-8') as fh:
        fh.write(''.join(lines))


def _build(case):
    mol = vermouth.Molecule(nrexcl=1)
    residues = case['residues']
    for cg, (key, ri, name, atype, pos, mass, charge) in enumerate(case['atoms'], start=1):
        res = residues[ri]
        mol.add_node(key, atomname=name, atype=atype, resname=res['resname'], resid=res['resid'],
                     _old_resid=res['old'], chain=res['chain'], position=np.array(pos, dtype=float),
                     mass=mass, charge=charge, charge_group=cg)
    for a, b in case['edges']:
        mol.add_edge(a, b)
    for a, b in case['pre_excl']:
        mol.add_interaction('exclusions', (a, b), [])
    for atoms in case['pre_vs']:
        mol.add_interaction('virtual_sitesn', list(atoms), ['1'])
    system = vermouth.System()
    system.add_molecule(mol)
    contacts = [(e[0], e[1], e[2], e[3]) for e in case['contacts']]
    if case['via_file']:
        fd, path = tempfile.mkstemp(prefix='c18_', suffix='.map')
        os.close(fd)
        try:
            _write_map(case, path)
            read_go_map(system=system, file_path=path)
        finally:
            os.unlink(path)
        got = [tuple(c) for c in system.go_params['go_map'][0]]
        if len(system.go_params['go_map']) != 1 or got != contacts:
            raise Violation('read-go-map', 'contact-map file with entries %r was read as %r' % (contacts, system.go_params['go_map']))
    else:
        system.go_params['go_map'].append(contacts)
    return system, mol


# ---------------------------------------------------------------------------
# oracle

def _reference(case):
    """Expected contacts from the statement.  Returns (verdict per unordered
    residue pair, counts of rejection reasons)."""
    residues = case['residues']
    n = len(residues)
    res_of = {a[0]: a[1] for a in case['atoms']}
    gdist = _residue_distances(n, res_of, case['edges'])

    lookup = {}
    for i, r in enumerate(residues):
        if (r['chain'], r['old']) in lookup:
            raise HarnessError('generator produced an ambiguous (chain, _old_resid)')
        lookup[(r['chain'], r['old'])] = i
    bbpos = {}
    for key, ri, name, atype, pos, mass, charge in case['atoms']:
        if name == case['anchor']:
            if ri in bbpos:
                raise HarnessError('generator produced two backbone beads in a residue')
            bbpos[ri] = pos
    listed = set()
    tally = {'absent': 0, 'self': 0}
    raw = set()
    for ra, ca, rb, cb in case['contacts']:
        if (ra, ca, rb, cb) in raw:
            raise HarnessError('generator produced a repeated contact')
        raw.add((ra, ca, rb, cb))
        a = lookup.get((ca, ra))
        b = lookup.get((cb, rb))
        if a is None or b is None:
            tally['absent'] += 1
            continue
        if a == b:
            tally['self'] += 1
            continue
        listed.add((a, b))
    short, long_, res_dist = case['short'], case['long'], case['res_dist']
    verdict = {}
    for a, b in sorted(listed):
        pair = (min(a, b), max(a, b))
        if pair in verdict:
            continue
        graph = gdist[pair[0]].get(pair[1])
        d = _distance(bbpos[pair[0]], bbpos[pair[1]])
        fails = []
        tie = False
        if not ((a, b) in listed and (b, a) in listed):
            fails.append('one-directional')
        if graph is not None and graph <= res_dist:
            fails.append('graph')
        if _exactly_on(bbpos[pair[0]], bbpos[pair[1]], short):
            fails.append('short-exactly')
        elif _tie(d, short):
            tie = True
        elif not d > short:
            fails.append('short')
        if _exactly_on(bbpos[pair[0]], bbpos[pair[1]], long_):
            fails.append('long-exactly')
        elif _tie(d, long_):
            tie = True
        elif not d < long_:
            fails.append('long')
        if fails:
            state = 'no'
        elif tie:
            state = 'either'
        else:
            state = 'yes'
        verdict[pair] = {'state': state, 'fails': fails, 'tie': tie, 'd': d, 'graph': graph}
    return verdict, tally


def _same(a, b):
    return type(a) is type(b) and a == b or (isinstance(a, (int, float)) and isinstance(b, (int, float))
                                             and not isinstance(a, bool) and not isinstance(b, bool) and a == b)


def _run(case):
    system, mol = _build(case)
    before_nodes = list(mol.nodes)
    before_attrs = {k: dict(mol.nodes[k]) for k in before_nodes}
    n_excl = len(mol.interactions['exclusions'])
    n_vs = len(mol.interactions['virtual_sitesn'])
    before_excl = list(mol.interactions['exclusions'])
    before_vs = list(mol.interactions['virtual_sitesn'])
    before_other = {name: list(inters) for name, inters in mol.interactions.items()
                    if name not in ('exclusions', 'virtual_sitesn')}
    kwargs = dict(moltype=case['moltype'], cutoff_short=case['short'], cutoff_long=case['long'],
                  go_eps=case['eps'], res_dist=case['res_dist'], go_anchor_bead=case['anchor'],
                  go_atomname=case['vsname'])
    try:
        GoPipeline.run_system(system, **kwargs)
    except SystemExit as exc:
        raise Violation('sys-exit', 'GoPipeline.run_system exited (%r) on a molecule where every residue has a backbone bead' % (exc.code,))
    if len(system.molecules) != 1 or system.molecules[0] is not mol:
        raise Violation('molecule-replaced', 'the system no longer holds exactly the merged molecule')

    residues = case['residues']
    moltype = case['moltype']
    anchor = case['anchor']

    # ---- sites
    after_nodes = list(mol.nodes)
    if after_nodes[:len(before_nodes)] != before_nodes:
        raise Violation('site-not-appended', 'pre-existing nodes are no longer the first nodes in node order: %r -> %r' % (before_nodes, after_nodes))
    for k in before_nodes:
        now = mol.nodes[k]
        old = before_attrs[k]
        for attr in ('atomname', 'atype', 'resname', 'resid', '_old_resid', 'chain', 'mass', 'charge'):
            if now.get(attr) != old.get(attr):
                raise Violation('old-node-changed', 'attribute %s of pre-existing node %r changed %r -> %r' % (attr, k, old.get(attr), now.get(attr)))
        if not np.array_equal(now.get('position'), old.get('position')):
            raise Violation('old-node-changed', 'position of pre-existing node %r changed' % (k,))
    new_nodes = after_nodes[len(before_nodes):]
    bbs = [a[0] for a in case['atoms'] if a[2] == anchor]
    res_of = {a[0]: a[1] for a in case['atoms']}
    if len(new_nodes) != len(bbs):
        raise Violation('site-count', '%d nodes were added for %d backbone beads' % (len(new_nodes), len(bbs)))
    top = max(before_nodes)
    for k in new_nodes:
        try:
            ok = k > top
        except TypeError:
            ok = False
        if not ok:
            raise Violation('site-not-appended', 'new node key %r is not greater than all pre-existing keys (max %r)' % (k, top))
    if mol.interactions['virtual_sitesn'][:n_vs] != before_vs:
        raise Violation('old-interaction-changed', 'pre-existing virtual_sitesn interactions changed')
    new_vs = mol.interactions['virtual_sitesn'][n_vs:]
    site_of = {}
    bb_of = {}
    for inter in new_vs:
        atoms = list(inter.atoms)
        if len(atoms) != 2 or atoms[0] not in new_nodes or atoms[1] not in bbs:
            raise Violation('site-vs-interaction', 'virtual_sitesn %r is not (new site, one backbone bead)' % (inter,))
        if atoms[0] in bb_of:
            raise Violation('site-vs-interaction', 'site %r has more than one virtual_sitesn interaction' % (atoms[0],))
        if atoms[1] in site_of:
            raise Violation('site-count', 'backbone bead %r has more than one site' % (atoms[1],))
        params = list(inter.parameters)
        if len(params) != 1 or str(params[0]) not in ('1', '2'):
            raise Violation('site-vs-interaction', 'virtual_sitesn %r does not place the site on its constructing particle' % (inter,))
        bb_of[atoms[0]] = atoms[1]
        site_of[atoms[1]] = atoms[0]
    for k in new_nodes:
        if k not in bb_of:
            raise Violation('site-vs-interaction', 'new node %r has no virtual_sitesn interaction' % (k,))
    for bb in bbs:
        if bb not in site_of:
            raise Violation('site-count', 'backbone bead %r has no site' % (bb,))
    atype_res = {}
    for site, bb in bb_of.items():
        sat = mol.nodes[site]
        bat = before_attrs[bb]
        for attr in ('resid', '_old_resid', 'resname', 'chain'):
            if attr not in sat or not _same(sat[attr], bat[attr]):
                raise Violation('site-attr:%s' % attr, 'site %r of backbone bead %r has %s=%r, bead has %r' % (site, bb, attr, sat.get(attr), bat[attr]))
        pos = sat.get('position')
        if pos is None or np.shape(pos) != (3,) or not np.array_equal(np.asarray(pos, dtype=float), bat['position']):
            raise Violation('site-position', 'site %r is at %r, its backbone bead at %r' % (site, pos, bat['position']))
        if 'mass' not in sat or isinstance(sat['mass'], bool) or sat['mass'] != 0:
            raise Violation('site-mass', 'site %r has mass %r' % (site, sat.get('mass')))
        if 'charge' not in sat or isinstance(sat['charge'], bool) or sat['charge'] != 0:
            raise Violation('site-charge', 'site %r has charge %r' % (site, sat.get('charge')))
        want = '%s_%s' % (moltype, bat['resid'])
        if sat.get('atype') != want:
            raise Violation('site-atype', 'site %r has type %r, expected %r' % (site, sat.get('atype'), want))
        if sat['atype'] in atype_res:
            raise Violation('site-atype-duplicate', 'type %r is used by two sites' % (sat['atype'],))
        atype_res[sat['atype']] = res_of[bb]
        if sat.get('atomname') != case['vsname']:
            raise Violation('site-atomname', 'site %r is named %r, requested %r' % (site, sat.get('atomname'), case['vsname']))
    # registered atom types
    registered = {}
    for at in system.gmx_topology_params['atomtypes']:
        if at.molecule is not mol or at.node not in bb_of:
            raise Violation('atomtype-registry', 'registered atom type %r does not refer to a Go site of the molecule' % (at.node,))
        if at.node in registered:
            raise Violation('atomtype-registry', 'site %r registered twice' % (at.node,))
        if at.sigma != 0 or at.epsilon != 0:
            raise Violation('atomtype-registry', 'atom type of site %r registered with sigma=%r epsilon=%r' % (at.node, at.sigma, at.epsilon))
        registered[at.node] = at
    for site in bb_of:
        if site not in registered:
            raise Violation('atomtype-registry', 'no atom type registered for site %r' % (site,))
    extra_keys = set(system.gmx_topology_params) - {'atomtypes', 'nonbond_params'}
    if any(system.gmx_topology_params[k] for k in extra_keys):
        raise Violation('topology-params-extra', 'unexpected topology parameter sections %r' % (sorted(extra_keys),))

    # ---- contacts
    verdict, tally = _reference(case)
    regular = {a[3] for a in case['atoms']}
    got = {}
    for nb in system.gmx_topology_params['nonbond_params']:
        atoms = tuple(nb.atoms)
        if len(atoms) != 2:
            raise Violation('contact-atoms', 'nonbond_params entry %r does not name two types' % (atoms,))
        for name in atoms:
            if name not in atype_res:
                if name in regular:
                    raise Violation('contact-names-regular-beadtype', 'nonbond_params entry %r names the regular bead type %r instead of a Go site type (molecule name %r)' % (atoms, name, moltype))
                raise Violation('contact-unknown-type', 'nonbond_params entry %r names unknown type %r' % (atoms, name))
        ra, rb = atype_res[atoms[0]], atype_res[atoms[1]]
        pair = (min(ra, rb), max(ra, rb))
        if pair in got:
            raise Violation('contact-duplicate', 'residue pair %r has more than one nonbond_params entry' % (_pair_text(case, pair),))
        got[pair] = nb
    for pair, nb in got.items():
        info = verdict.get(pair)
        if info is None:
            if pair[0] == pair[1]:
                raise Violation('contact-extra:self', 'Go potential of residue %s with itself' % (_pair_text(case, pair),))
            raise Violation('contact-extra:unlisted', 'Go potential for pair %s that the contact list does not name' % (_pair_text(case, pair),))
        if info['state'] == 'no':
            raise Violation('contact-extra:%s' % info['fails'][0],
                            'Go potential for pair %s although it fails %r (d=%r short=%r long=%r graph distance=%r res_dist=%r)' % (
                                _pair_text(case, pair), info['fails'], info['d'], case['short'], case['long'], info['graph'], case['res_dist']))
        d = info['d']
        want = d / FACTOR
        if not abs(float(nb.sigma) - want) <= SIGMA_REL * want:
            raise Violation('contact-sigma', 'pair %s at distance %r: sigma=%r, expected %r' % (_pair_text(case, pair), d, nb.sigma, want))
        if isinstance(nb.epsilon, bool) or nb.epsilon != case['eps']:
            raise Violation('contact-epsilon', 'pair %s: epsilon=%r, requested %r' % (_pair_text(case, pair), nb.epsilon, case['eps']))
    for pair, info in verdict.items():
        if info['state'] == 'yes' and pair not in got:
            raise Violation('contact-missing', 'no Go potential for pair %s (listed both ways, d=%r in (%r, %r), graph distance %r > %r)' % (
                _pair_text(case, pair), info['d'], case['short'], case['long'], info['graph'], case['res_dist']))
    # exclusions
    if mol.interactions['exclusions'][:n_excl] != before_excl:
        raise Violation('old-interaction-changed', 'pre-existing exclusions changed')
    excl = set()
    for inter in mol.interactions['exclusions'][n_excl:]:
        atoms = tuple(inter.atoms)
        if len(atoms) != 2 or atoms[0] not in site_of or atoms[1] not in site_of or atoms[0] == atoms[1]:
            raise Violation('exclusion-atoms', 'new exclusion %r is not between two different backbone beads' % (atoms,))
        ra, rb = res_of[atoms[0]], res_of[atoms[1]]
        pair = (min(ra, rb), max(ra, rb))
        if pair in excl:
            raise Violation('exclusion-duplicate', 'backbone beads of pair %s excluded more than once' % (_pair_text(case, pair),))
        excl.add(pair)
    for pair in got:
        if pair not in excl:
            raise Violation('exclusion-missing', 'pair %s has a Go potential but its backbone beads are not excluded' % (_pair_text(case, pair),))
    for pair in excl:
        if pair not in got:
            raise Violation('exclusion-extra', 'backbone beads of pair %s are excluded without a Go potential' % (_pair_text(case, pair),))

    for name, inters in mol.interactions.items():
        if name not in ('exclusions', 'virtual_sitesn') and list(inters) != before_other.get(name, []):
            raise Violation('old-interaction-changed', 'interactions %r changed' % (name,))

    # ---- classes
    classes = []
    sole = set()
    for info in verdict.values():
        if info['state'] == 'yes':
            sole.add('accepted')
        elif info['state'] == 'either':
            classes.append('tie') if 'tie' not in classes else None
        elif len(info['fails']) == 1 and not info['tie']:
            sole.add(info['fails'][0])
    if tally['absent']:
        sole.add('absent')
    if tally['self']:
        classes.append('self-contact')
    for name in ('accepted', 'one-directional', 'absent', 'graph', 'short', 'long'):
        if name in sole:
            classes.append('only-' + name if name not in ('accepted', 'absent') else name)
    olds = {}
    for r in residues:
        olds.setdefault(r['chain'], set()).add(r['old'])
    chains = sorted(olds)
    overlap = any(olds[a] & olds[b] for i, a in enumerate(chains) for b in chains[i + 1:])
    if overlap:
        classes.append('chains-overlap')
    if len(chains) > 1:
        classes.append('multi-chain')
    if case['via_file']:
        classes.append('via-file')
    if any(info['graph'] is not None and info['graph'] == case['res_dist'] + 1 and info['state'] == 'yes' for info in verdict.values()):
        classes.append('accepted-at-min-separation')
    if any(info['graph'] is not None and info['graph'] == case['res_dist'] and info['fails'] == ['graph'] for info in verdict.values()):
        classes.append('rejected-at-res-dist')
    if any(res_of[a] != res_of[b] and not _sequential(case, res_of[a], res_of[b]) for a, b in case['edges']):
        classes.append('cross-link')
    if not case['contacts']:
        classes.append('empty-list')
    if len(bbs) < len(residues):
        classes.append('residue-without-backbone-particle')

    def near(info):
        return any(abs(info['d'] - cut) <= 1e-6 * cut for cut in (case['short'], case['long']))
    if any(info['state'] == 'yes' and near(info) for info in verdict.values()):
        classes.append('near-cutoff-accepted')
    if any(info['state'] == 'no' and info['fails'] in (['short'], ['long']) and near(info) for info in verdict.values()):
        classes.append('near-cutoff-rejected')
    if any(info['fails'] in (['short-exactly'], ['long-exactly']) for info in verdict.values()):
        classes.append('exactly-on-cutoff-rejected')
    all_filters = {'accepted', 'one-directional', 'absent', 'graph', 'short', 'long'} <= sole
    if all_filters:
        classes.append('all-filters')
    return Outcome(classes, overlap and all_filters)


def _sequential(case, ra, rb):
    return abs(ra - rb) == 1 and case['residues'][ra]['chain'] == case['residues'][rb]['chain']


def _pair_text(case, pair):
    res = case['residues']
    return '/'.join('%s:%s(resid %s)' % (res[i]['chain'], res[i]['old'], res[i]['resid']) for i in pair)


# ---------------------------------------------------------------------------
# known finding matcher

def moltype_prefix_of_beadtype(params, part_name, case, violation):
    """Molecule name is a prefix of a regular bead type of the molecule."""
    if violation.bucket != 'contact-names-regular-beadtype':
        return False
    return any(a[3].startswith(case['moltype']) for a in case['atoms'])


MATCHERS = {'moltype_prefix_of_beadtype': moltype_prefix_of_beadtype}


PARTS = [
    Part('pipeline', _run, strategy=_strategy,
         examples={'quick': 2000, 'thorough': 50000},
         floors={'accepted': 0.5, 'absent': 0.3, 'only-one-directional': 0.35, 'only-graph': 0.4, 'only-short': 0.3,
                 'only-long': 0.4, 'all-filters': 0.1, 'chains-overlap': 0.4, 'cross-link': 0.25,
                 'rejected-at-res-dist': 0.2, 'accepted-at-min-separation': 0.12, 'self-contact': 0.2, 'tie': 0.1,
                 'via-file': 0.15, 'near-cutoff-accepted': 0.08, 'near-cutoff-rejected': 0.15}),
    Part('names', _run, strategy=_strategy_names,
         examples={'quick': 160, 'thorough': 2000}),
]
