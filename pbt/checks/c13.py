"""
C13  Force-field, topology and mapping files load to exactly what they declare.

ff-model     an abstract .ff file (sections in any order/multiplicity) is serialised by the harness with random legal
             layout and loaded with read_ff; the result is compared with the expectation computed from the abstract model.
ff-faults    one of the listed faults is injected into a valid generated file; loading must raise.
ff-snippets  literal examples of the documented grammar (enumerated) must load.
"""
import json

from hypothesis import strategies as st

from pbt.core import Part, Outcome, Violation
from pbt import c13_ffmodel as M
from pbt import c13_itp, c13_map, c13_mapping

from vermouth.forcefield import ForceField
from vermouth.ffinput import read_ff
from vermouth.molecule import (Choice, NotDefinedOrNot, ParamDistance, ParamAngle, ParamDihedral,
                               ParamDihedralPhase, LinkParameterEffector)

PROPERTY = 'C13'
LEVEL = 'exploration'
RULE = ('ff-model: abstract .ff files with 0-3 blocks, 0-4 links, 0-2 modifications, macros, variables and citations sections in '
        'arbitrary order, sub-sections in arbitrary order and repeated (#meta lines, per-line metas, versions, !removal sections, '
        'patterns, features, non-edges, molmeta, edges, order given by prefix / attribute / both), serialised with random legal '
        'layout and loaded by read_ff; compared with the model; non-trivial = at least 3 top-level sections of at least 2 kinds '
        'with a link that is not the last top-level section, or a macro defined in one section and used in a later one. '
        'ff-faults: each listed fault injected at a generated position of a valid file (a duplicated block atom is the same line again, the same name under another residue number, or under another residue number, atom type and charge group); non-trivial = the faulty line is not in '
        'the first top-level section. ff-snippets: literal documented examples. '
        + ' '.join([c13_itp.RULE_TEXT, c13_map.RULE_TEXT, c13_mapping.RULE_TEXT]))
ASSUMPTIONS = [
    'block / modification names are unique within a file (a later definition of the same name replaces the earlier one by design)',
    'every reference to one link atom carries the same (or no) attributes, so the documented attribute-conflict error cannot trigger',
    'the SETTLE section is excluded from generated files (known finding F13)',
    'any exception raised by the loader counts as "rejected with an error"',
    '.itp: atom ids are 1..n in file order (Gromacs requirement); one [ atoms ] section per moleculetype; no line continuation',
    '.map: origin and target force fields are disjoint sets; molecule names are unique within a file; unknown sections are tolerated by design (the shipped data relies on it)',
    '.mapping: per direction all fetched blocks are declared before the first extra node; every fetched block has a single residue; an omitted identifier is only used when unambiguous',
]

EFFECTORS = {'dist': ParamDistance, 'angle': ParamAngle, 'dihedral': ParamDihedral, 'dihphase': ParamDihedralPhase}


# ---------------------------------------------------------------------------
# comparison helpers

def norm_value(val):
    """Normalise a loaded attribute value to the expectation's representation."""
    if isinstance(val, Choice):
        return ('choice', list(val.value))
    if isinstance(val, NotDefinedOrNot):
        return ('not', val.value)
    if isinstance(val, dict):
        return {k: norm_value(v) for k, v in val.items()}
    return val


def norm_attrs(attrs):
    return {k: norm_value(v) for k, v in attrs.items()}


def norm_expected(val):
    if isinstance(val, dict):
        return {k: norm_expected(v) for k, v in val.items()}
    if isinstance(val, list) and len(val) == 2 and val[0] in ('choice', 'not'):
        return tuple(val)
    return val


def norm_param(p):
    if isinstance(p, LinkParameterEffector):
        for name, cls in EFFECTORS.items():
            if type(p) is cls:
                return ('effector', name, list(p.keys), p.format)
        return ('effector', type(p).__name__, list(p.keys), p.format)
    return p


def norm_interactions(inter):
    out = {}
    for itype, lst in inter.items():
        if lst:
            out[itype] = [(tuple(i.atoms), [norm_param(p) for p in i.parameters], dict(i.meta)) for i in lst]
    return out


def norm_removed(removed):
    out = {}
    for itype, lst in removed.items():
        if lst:
            out[itype] = [(tuple(i.atoms), [norm_param(p) for p in i.parameters], dict(i.meta),
                           [norm_attrs(a) for a in i.atom_attrs]) for i in lst]
    return out


def edges_of(graph):
    return set(frozenset(e) for e in graph.edges)


def expect_params(params):
    return [tuple(p) if isinstance(p, (list, tuple)) else p for p in params]


def cmp(what, got, exp):
    if got != exp:
        raise Violation(what.split(':')[0], '%s: loaded %r, declared %r' % (what, got, exp))


def compare_block(block, exp):
    cmp('block-nrexcl: %s' % exp['name'], block.nrexcl, exp['nrexcl'])
    got_nodes = [(k, norm_attrs(block.nodes[k])) for k in block.nodes]
    exp_nodes = [(k, norm_expected(a)) for k, a in exp['nodes']]
    cmp('block-atoms: %s' % exp['name'], got_nodes, exp_nodes)
    exp_inter = {t: [(a, expect_params(p), m) for a, p, m in l] for t, l in exp['inter'].items() if l}
    cmp('block-interactions: %s' % exp['name'], norm_interactions(block.interactions), exp_inter)
    cmp('block-edges: %s' % exp['name'], edges_of(block), exp['edges'])


def compare_linklike(link, exp, label):
    got_nodes = [(k, norm_attrs(link.nodes[k])) for k in link.nodes]
    exp_nodes = [(k, norm_expected(a)) for k, a in exp['nodes']]
    cmp('%s-atoms: %s' % (exp['kind'], label), got_nodes, exp_nodes)
    exp_inter = {t: [(a, expect_params(p), m) for a, p, m in l] for t, l in exp['inter'].items() if l}
    cmp('%s-interactions: %s' % (exp['kind'], label), norm_interactions(link.interactions), exp_inter)
    exp_removed = {t: [(a, expect_params(p), m, [norm_expected(x) for x in aa]) for a, p, m, aa in l]
                   for t, l in exp['removed'].items() if l}
    cmp('%s-removals: %s' % (exp['kind'], label), norm_removed(link.removed_interactions), exp_removed)
    cmp('%s-edges: %s' % (exp['kind'], label), edges_of(link), exp['edges'])
    if exp['kind'] == 'link':
        got_patterns = [[[a[0], norm_attrs(a[1])] for a in pat] for pat in link.patterns]
        exp_patterns = [[[k, norm_expected(a)] for k, a in pat] for pat in exp['patterns']]
        cmp('link-patterns: %s' % label, got_patterns, exp_patterns)
        cmp('link-features: %s' % label, set(link.features), exp['features'])
        got_ne = [[a, norm_attrs(b)] for a, b in link.non_edges]
        exp_ne = [[a, norm_expected(b)] for a, b in exp['non_edges']]
        cmp('link-non-edges: %s' % label, got_ne, exp_ne)
        cmp('link-molmeta: %s' % label, dict(link.molecule_meta), exp['molmeta'])


def load(text, name='toy'):
    ff = ForceField(name=name)
    read_ff(text.split('\n'), ff)
    return ff


# ---------------------------------------------------------------------------
# part ff-model

def classify(case):
    kinds = [s['kind'] for s in case['sections']]
    classes = set()
    if 'link' in kinds and kinds.index('link') != len(kinds) - 1 - kinds[::-1].index('link') or \
            ('link' in kinds and kinds[-1] != 'link'):
        pass
    link_not_last = any(k == 'link' for k in kinds[:-1])
    if link_not_last:
        classes.add('link-not-last')
    if any(k == 'link' and kinds[i + 1] != 'link' for i, k in enumerate(kinds[:-1])):
        classes.add('link-followed-by-other-section')
    macro_used = any(a['atype'].startswith('$') for s in case['sections'] if s['kind'] == 'block' for a in s['atoms'])
    if macro_used:
        classes.add('macro-used-across-sections')
    for s in case['sections']:
        for sub in s.get('subs', []):
            if sub['sec'].startswith('!'):
                classes.add('removal-section')
            if sub['sec'] in ('patterns', 'non-edges', 'features', 'molmeta'):
                classes.add(sub['sec'])
            for line in sub.get('lines', []) if isinstance(sub.get('lines'), list) else []:
                if isinstance(line, dict) and 'meta_line' in line:
                    classes.add('#meta')
                if isinstance(line, dict) and any('(' in p for p in line.get('params', [])):
                    classes.add('effector')
                if isinstance(line, dict) and any(s_ in ('attr', 'both') for s_ in line.get('style', [])):
                    classes.add('order-by-attribute')
    if len(set(kinds)) >= 2:
        classes.add('mixed-kinds')
    nontrivial = (len(kinds) >= 3 and len(set(kinds)) >= 2 and link_not_last) or macro_used
    return classes, nontrivial


def run_model(case):
    text = M.serialise(case)
    exp = M.expected(case)
    try:
        ff = load(text)
    except Exception as exc:  # a well-formed file must load
        raise Violation('wellformed-rejected', 'well-formed file rejected: %r (cause %r)\n%s' % (exc, exc.__cause__, text)) from None
    cmp('block-list', list(ff.blocks), [b['name'] for b in exp['blocks']])
    for b in exp['blocks']:
        compare_block(ff.blocks[b['name']], b)
    if len(ff.links) != len(exp['links']):
        raise Violation('link-count', '%d links declared, %d loaded\n%s' % (len(exp['links']), len(ff.links), text))
    for i, (link, e) in enumerate(zip(ff.links, exp['links'])):
        compare_linklike(link, e, 'link #%d' % i)
    cmp('modification-list', list(ff.modifications), [m['name'] for m in exp['modifications']])
    for m in exp['modifications']:
        mod = ff.modifications[m['name']]
        cmp('modification-name', mod.name, m['name'])
        compare_linklike(mod, m, m['name'])
    cmp('variables', dict(ff.variables), exp['variables'])
    classes, nontrivial = classify(case)
    return Outcome(sorted(classes), nontrivial)


# ---------------------------------------------------------------------------
# part ff-faults

FAULTS = ['unknown-section', 'unknown-subsection', 'undefined-block-atom', 'duplicate-block-atom', 'unbalanced-open',
          'unbalanced-close', 'order-contradiction', 'too-few-atoms-delim', 'too-many-atoms-delim', 'too-few-tokens',
          'index-out-of-range']


def inject(case, fault, pos):
    """Returns (text, description) or None if the fault is not applicable to this file."""
    text = M.serialise(case)
    lines = text.split('\n')
    # locate structure: for each line, the current top-level kind and sub-section
    ctx = []
    top = sub = None
    for ln in lines:
        data = ln.split(';')[0].strip()
        if data.startswith('['):
            name = data.strip('[ ]').lower()
            if name in ('moleculetype', 'link', 'modification', 'macros', 'variables', 'citations'):
                top, sub = name, None
            else:
                sub = name
            ctx.append((top, sub, 'header'))
        elif data:
            ctx.append((top, sub, 'data'))
        else:
            ctx.append((top, sub, 'blank'))

    def pick(indices):
        return indices[pos % len(indices)] if indices else None

    if fault in ('unknown-section', 'unknown-subsection'):
        spots = [i for i in range(len(lines) + 1)]
        i = pick(spots)
        new = ['[ frobnicate ]', 'BB SC1 1 2'] if fault == 'unknown-section' else ['[ bonds2 ]', 'BB SC1 1 2']
        if fault == 'unknown-subsection':
            spots = [i for i, c in enumerate(ctx) if c[0] in ('moleculetype', 'link', 'modification') and c[2] != 'header' and c[1]]
            i = pick(spots)
            if i is None:
                return None
        return '\n'.join(lines[:i] + new + lines[i:]), (fault, i)
    fixed = ('bonds', 'angles', 'dihedrals', 'impropers', 'constraints', 'pairs', 'position_restraints', 'virtual_sites2')
    natoms = {'bonds': 2, 'angles': 3, 'dihedrals': 4, 'impropers': 4, 'constraints': 2, 'pairs': 2,
              'position_restraints': 1, 'virtual_sites2': 3}
    block_inter = [i for i, c in enumerate(ctx) if c[0] == 'moleculetype' and c[1] in fixed and c[2] == 'data'
                   and not lines[i].strip().startswith('#meta')]
    any_inter = [i for i, c in enumerate(ctx) if c[0] in ('moleculetype', 'link', 'modification') and c[1] and c[1].lstrip('!') in fixed
                 and c[2] == 'data' and not lines[i].strip().startswith('#meta')]
    if fault == 'undefined-block-atom':
        i = pick(block_inter)
        if i is None:
            return None
        toks = lines[i].split(';')[0].split()
        toks[0] = 'ZZZ9'
        lines[i] = ' '.join(toks)
        return '\n'.join(lines), (fault, i)
    if fault == 'index-out-of-range':
        i = pick(block_inter)
        if i is None:
            return None
        toks = lines[i].split(';')[0].split()
        toks[0] = '77'
        lines[i] = ' '.join(toks)
        return '\n'.join(lines), (fault, i)
    if fault == 'duplicate-block-atom':
        spots = [i for i, c in enumerate(ctx) if c[0] == 'moleculetype' and c[1] == 'atoms' and c[2] == 'data']
        i = pick(spots)
        if i is None:
            return None
        j = i
        while j + 1 < len(ctx) and ctx[j + 1][1] == 'atoms' and ctx[j + 1][0] == 'moleculetype' and ctx[j + 1][2] != 'header':
            j += 1
        copy_ = lines[i].split(';')[0]
        toks = copy_.split()
        how = (pos // 7) % 3
        if how and len(toks) >= 6 and toks[2].lstrip('-').isdigit():
            # the name is what has to be unique in a block: the same name in another residue (1), also with another atom
            # type and charge group (2), is the same fault
            toks[2] = str(int(toks[2]) + 1)
            if how == 2 and toks[5].isdigit():
                toks[1] = toks[1] + 'x'
                toks[5] = str(int(toks[5]) + 1)
            copy_ = ' '.join(toks)
        lines.insert(j + 1, copy_)
        return '\n'.join(lines), (fault + ':' + ['same-line', 'other-resid', 'other-resid-type-charge-group'][how], i)
    if fault in ('unbalanced-open', 'unbalanced-close'):
        spots = [i for i, c in enumerate(ctx) if c[2] == 'data' and '{' in lines[i].split(';')[0] and c[0] in ('moleculetype', 'link', 'modification')
                 and c[1] is not None]
        i = pick(spots)
        if i is None:
            return None
        data = lines[i].split(';')[0]
        if fault == 'unbalanced-open':
            k = data.rfind('}')
            data = data[:k] + data[k + 1:]
        else:
            k = data.find('{')
            data = data[:k] + data[k + 1:]
        lines[i] = data
        return '\n'.join(lines), (fault, i)
    if fault == 'order-contradiction':
        spots = [i for i, c in enumerate(ctx) if c[0] in ('link', 'modification') and c[1] and c[1].lstrip('!') in fixed and c[2] == 'data'
                 and not lines[i].strip().startswith('#meta')]
        i = pick(spots)
        if i is None:
            return None
        data = lines[i].split(';')[0]
        toks = data.split()
        first = toks[0]
        base = first.split('{')[0].lstrip('+-<>*')
        rest = data.strip()[len(first.split('{')[0]):]
        if rest.lstrip().startswith('{'):
            # drop the existing attribute token of the first atom
            depth = 0
            r = rest.lstrip()
            for k, ch in enumerate(r):
                if ch == '{':
                    depth += 1
                elif ch == '}':
                    depth -= 1
                    if depth == 0:
                        rest = r[k + 1:]
                        break
        # every kind of contradiction between a prefix and an explicit order, including an explicit order of 0
        pairs = [('+', '2'), ('+', '0'), ('--', '0'), ('-', '1'), ('>', '0'), ('*', '0'), ('>', '">>"'), ('+', '">"'),
                 ('++', '1'), ('<', '">"'), ('-', '-2'), ('**', '"*"')]
        prefix, order = pairs[(pos // 7) % len(pairs)]
        lines[i] = '%s%s {"order": %s} %s' % (prefix, base, order, rest)
        return '\n'.join(lines), (fault + ':' + prefix + '/' + order, i)
    if fault in ('too-few-atoms-delim', 'too-many-atoms-delim', 'too-few-tokens'):
        spots = [i for i in any_inter if '{' not in lines[i].split(';')[0] and '(' not in lines[i]]
        i = pick(spots)
        if i is None:
            return None
        sec = ctx[i][1].lstrip('!')
        n = natoms[sec]
        toks = [t for t in lines[i].split(';')[0].split() if t != '--']
        atoms, params = toks[:n], toks[n:]
        if fault == 'too-few-atoms-delim':
            if n < 2:
                lines[i] = '-- ' + ' '.join(params or ['1'])
            else:
                lines[i] = ' '.join(atoms[:-1] + ['--'] + (params or ['1']))
        elif fault == 'too-many-atoms-delim':
            lines[i] = ' '.join(atoms + [atoms[0], '--'] + (params or ['1']))
        else:
            if n < 2:
                return None
            lines[i] = ' '.join(atoms[:-1])
        return '\n'.join(lines), (fault, i)
    raise AssertionError(fault)


def run_fault(case):
    res = inject(case['file'], case['fault'], case['pos'])
    if res is None:
        return Outcome(['not-applicable'], False)
    text, (fault, lineno) = res
    try:
        ff = load(text)
    except Exception:  # pylint: disable=broad-except
        first_top = None
        count_before = sum(1 for ln in text.split('\n')[:lineno] if ln.split(';')[0].strip().strip('[ ]').lower()
                           in ('moleculetype', 'link', 'modification', 'macros', 'variables', 'citations'))
        return Outcome([fault.split(':')[0]] + ([fault] if ':' in fault else []), count_before >= 2)
    raise Violation('fault-accepted:' + fault.split(':')[0], 'file with injected fault %r near line %d was loaded without error:\n%s' % (fault, lineno + 1, text))


def strategy_fault(tier):
    return st.fixed_dictionaries({'file': M.file_strategy(tier), 'fault': st.sampled_from(FAULTS), 'pos': st.integers(0, 200)})


# ---------------------------------------------------------------------------
# part ff-snippets: literal examples of the documented grammar

SNIPPETS = [
    ('macro-doc-example', "[ macros ]\nprot_default_bb_type P2\n[ moleculetype ]\nGLY 1\n[ atoms ]\n1 $prot_default_bb_type 1 GLY BB 1\n"),
    ('variables-doc-example', "[ variables ]\nelastic_network_bond_type 1\n"),
    ('citations-doc-example', "[ citations ]\nMartini3\n[ moleculetype ]\nALA 3\n[ atoms ]\n1 P5 1 ALA BB 1 0 47\n[ citation ]\nmol_specific_citation\n"),
    ('block-doc-example', "[ moleculetype ]\nGLY 1\n[ atoms ]\n;id type resnr residu atom cgnr   charge mass\n1   P5   1     GLY    BB     1      0    47\n"),
    ('edges-doc-example', "[ moleculetype ]\nLYS 1\n[ atoms ]\n1 P5 1 LYS BB 1\n2 C3 1 LYS SC1 2\n[ edges ]\nBB SC1\n"),
    ('versions-doc-example', "[ moleculetype ]\nX 1\n[ atoms ]\n1 P5 1 X BB 1\n2 C1 1 X SC1 2\n3 C1 1 X SC2 3\n4 C1 1 X SC3 4\n"
                             "[ dihedrals ]\nBB SC1 SC2 SC3 9  180  5  1 {\"version\": 1}\nBB SC1 SC2 SC3 9  180  1  2 {\"version\": 2}\n"
                             "BB SC1 SC2 SC3 9    0  2  3 {\"version\": 3}\n"),
    ('link-doc-example', "[ link ]\nresname \"ALA\"\ncgsecstruc \"C\"\n[ bonds ]\nBB +BB  1 0.47 5000\n"),
    ('link-atoms-replace', "[ link ]\n[ atoms ]\nBB {\"replace\": {\"charge\": -1}}\n"),
    ('settle-documented-section', "[ moleculetype ]\nW 1\n[ atoms ]\n1 P4 1 W OW 1\n[ SETTLE ]\nOW 1 0.1 0.16\n"),
    ('removal-dihedrals', "[ link ]\n[ !dihedrals ]\nBB +BB ++BB +++BB 1 2 3\n"),
]


def _enum_snippets(tier, shard, nshards):
    for i, (name, text) in enumerate(SNIPPETS):
        if i % nshards == shard:
            yield {'name': name, 'text': text}


def run_snippet(case):
    try:
        ff = load(case['text'])
    except Exception as exc:  # pylint: disable=broad-except
        raise Violation('snippet-rejected:' + case['name'], 'documented example %r rejected: %r / %r' % (case['name'], exc, exc.__cause__)) from None
    if case['name'] == 'removal-dihedrals':
        link = ff.links[0]
        if '!dihedrals' in link.interactions or not link.removed_interactions.get('dihedrals'):
            raise Violation('removal-dihedrals', '[ !dihedrals ] loaded as %r / removed %r' % (dict(link.interactions), dict(link.removed_interactions)))
    if case['name'] == 'macro-doc-example':
        if ff.blocks['GLY'].nodes['BB']['atype'] != 'P2':
            raise Violation('macro', 'macro not substituted')
    return Outcome([case['name']], True)


def match_snippet(spec, part, case, violation):
    return part == 'ff-snippets' and case.get('name') == spec.get('name')


MATCHERS = {'snippet': match_snippet}
for _mod in (c13_itp, c13_map, c13_mapping):
    MATCHERS.update(getattr(_mod, 'MATCHERS', {}))

PARTS = [
    Part('ff-model', run_model, strategy=M.file_strategy, examples={'quick': 1600, 'thorough': 60000},
         floors={'link-followed-by-other-section': 0.1, 'macro-used-across-sections': 0.002, 'removal-section': 0.02,
                 '#meta': 0.08, 'effector': 0.08, 'order-by-attribute': 0.08, 'patterns': 0.015, 'non-edges': 0.015}),
    Part('ff-faults', run_fault, strategy=strategy_fault, examples={'quick': 1200, 'thorough': 40000}),
    Part('ff-snippets', run_snippet, enumerate=_enum_snippets),
] + c13_itp.PARTS + c13_map.PARTS + c13_mapping.PARTS
