"""
C19  Mutation and modification requests hit exactly the residues they name.

spec-roundtrip  components (chain, resname, resid) -> documented grammar -> parse_residue_spec -> same components.
annotate        generated systems (branched residue graphs, non-monotone resids, insertion codes, several chains and
                molecules, protein and non-protein names) + lists of request strings -> AnnotateMutMod.run_system with a toy
                force field; per-atom 'mutation' / 'modification' lists, NameError for unknown targets and the warnings for
                unmatched requests are compared with an own matcher written from the statement.
repair          peptides built from the charmm blocks, requests on existing residues, AnnotateMutMod + RepairGraph; every
                residue must end up with exactly the atoms (and internal bonds) of the requested block patched with the
                requested modifications, under the requested residue name; residues no request names (also namesakes of a
                mutation target, in the same molecule, another molecule or a later system of the same force field) keep all
                their atoms, those beyond their block flagged PTM_atom.
"""
import re

from hypothesis import strategies as st

from pbt.core import Part, Outcome, Violation
from pbt.util import capture_logs

from vermouth.molecule import Molecule, Block, Modification
from vermouth.system import System
from vermouth.forcefield import ForceField, get_native_force_field
from vermouth.processors.annotate_mut_mod import AnnotateMutMod, parse_residue_spec
from vermouth.processors.repair_graph import RepairGraph

PROPERTY = 'C19'
LEVEL = 'exploration'
RULE = ('spec-roundtrip: chain (absent / one character), residue name (absent / letters and digits, ~30 % ending in digits / '
        'nter / cter), residue number (absent / integer, optional leading zeros) written as [<chain>-][<resname>][[#]<resid>] '
        'with # whenever the name ends in a digit (and optionally when it does not); non-trivial = name ends in a digit or is '
        'a terminus keyword and at least one more part is given. '
        'annotate: 1-4 molecules of 1-7 residues (1-3 atoms each) whose residue graph is a chain or a random tree plus optional '
        'extra edge, residue numbers increasing / decreasing / arbitrary, insertion codes, per-residue chain overrides, protein and '
        'non-protein (digit-suffixed) names; 0-4 mutation and 0-4 modification requests taken from existing residues with any '
        'subset of parts, perturbed in one part, nter/cter with optional chain / number, or matching nothing; known and unknown '
        'targets. non-trivial = at least 2 requests, one matching nothing in the whole system, and a branched residue graph or a '
        'digit-suffixed residue name. '
        'repair: peptides of 2-4 charmm residues (hydrogens optionally stripped), 1-2 mutations and 0-3 modifications '
        '(termini, ASP/GLU protonation, occasionally one that does not fit, occasionally two different mutations of one '
        'residue), in ~4 of 7 cases with a mutation a residue that no request names, carries atoms its block does not describe '
        '(phosphate on SER / THR, OXT) and has the name the first mutation asks for - in the same molecule, in a second peptide '
        'of the same system, or in a system repaired afterwards with the same force field object; such residues must keep '
        'every atom, the surplus ones unmarked, bonded and flagged PTM_atom; '
        'non-trivial = a mutation to a different residue that removes atoms, combined with a modification or a second request.')
ASSUMPTIONS = [
    'a residue is the set of atoms of one molecule sharing chain, resid, resname and insertion code (the library-wide definition); two residues are neighbours iff a bond joins atoms of both',
    'protein residue = residue whose name is one of the 20 standard amino acid names (the generator uses only those and clearly non-protein names)',
    '"reported" = a log record of level >= WARNING on logger vermouth whose text contains the request\'s residue part (as given, or re-formatted by the grammar) delimited by characters that cannot belong to a specification',
    'a residue name ending in a digit without residue number is written with a trailing # (accepted by the parser and produced by its own formatter); the bare form is inherently ambiguous (PO4 = PO + 4) and not generated',
    'an unknown target on a request that matches nothing may either raise NameError or be reported as unmatched (statement is silent on the order)',
    'the modification target "none" is the documented way of requesting no modification and is always known',
    'repair: expected atoms / bonds of a residue are those of the charmm block named by the request plus the PTM atoms / bonds of the requested modifications (force field data files are taken as the specification)',
    'repair: "and no other residue" extends to the repair step: a residue no request names loses no atom; atoms its block does not describe stay, carry no request and get PTM_atom = True, atoms the block describes do not (docstring of repair_graph). Request attributes that repair copies from a force field block onto DESCRIBED atoms of such a residue are not judged (nothing consumes them after repair)',
]

PROT = ['ALA', 'GLY', 'LYS', 'PHE', 'SER', 'CYS', 'ASP', 'HIS', 'TRP', 'VAL']
NONPROT = ['PO4', 'LIG2', 'NA1', 'DP6', 'POPC', 'HEM', 'W', 'C12']
ALLNAMES = PROT + NONPROT
RESIDS = [1, 2, 3, 4, 5, 10, 11, 12, 21, 100]
CHAINS = ['A', 'B', 'C', '']
MUT_KNOWN = ['ALA', 'GLY', 'LYS', 'PO4']
MUT_UNKNOWN = ['XXX', 'ALA0', 'gly']
MOD_KNOWN = ['N-ter', 'C-ter', 'NH2-ter', 'ASP0']
MOD_UNKNOWN = ['FOO', 'n-ter', 'GLY']

_TOY = None
_CHARMM = None


def toy_ff():
    global _TOY
    if _TOY is None:
        ff = ForceField(name='toy')
        for name in MUT_KNOWN:
            ff.blocks[name] = Block(force_field=ff, name=name)
        for name in MOD_KNOWN:
            ff.modifications[name] = Modification(force_field=ff, name=name)
        _TOY = ff
    return _TOY


def preload():
    global _CHARMM
    toy_ff()
    if _CHARMM is None:
        _CHARMM = get_native_force_field('charmm')


def charmm():
    if _CHARMM is None:
        preload()
    return _CHARMM


# ---------------------------------------------------------------------------
# the grammar (own formatter) and own matcher

def format_spec(chain, resname, resid, force_hash=False, zeros=0):
    """[<chain>-][<resname>][[#]<resid>]; '#' is required when the name ends in a digit."""
    out = ''
    if chain is not None:
        out += chain + '-'
    if resname:
        out += resname
    ends_digit = bool(resname) and resname[-1].isdigit()
    if resid is not None:
        if ends_digit or force_hash:
            out += '#'
        out += '0' * zeros + str(resid)
    elif ends_digit:
        out += '#'
    return out


def expected_components(chain, resname, resid):
    out = {}
    if chain is not None:
        out['chain'] = chain
    if resname:
        out['resname'] = resname
    if resid is not None:
        out['resid'] = resid
    return out


class Res:
    """A residue of the own residue graph."""
    __slots__ = ('mol', 'key', 'chain', 'resid', 'resname', 'icode', 'atoms', 'nbrs')

    def __init__(self, mol, key):
        self.mol = mol
        self.key = key
        self.chain, self.resid, self.resname, self.icode = key
        self.atoms = []
        self.nbrs = set()


def own_residues(atoms, edges):
    """atoms: {node: attrs}; edges: iterable of pairs. Returns {key: Res} in order of first appearance."""
    residues = {}
    where = {}
    for node, attrs in atoms.items():
        key = (attrs.get('chain'), attrs.get('resid'), attrs.get('resname'), attrs.get('insertion_code'))
        if key not in residues:
            residues[key] = Res(None, key)
        residues[key].atoms.append(node)
        where[node] = key
    for a, b in edges:
        ka, kb = where[a], where[b]
        if ka != kb:
            residues[ka].nbrs.add(kb)
            residues[kb].nbrs.add(ka)
    return residues


def own_match(spec, res, residues, protein_names, strict_terminal_resid=True):
    """The statement: all given parts equal; nter / cter = protein residue with exactly one neighbour whose number is
    higher / lower."""
    chain, resname, resid = spec['chain'], spec['resname'], spec['resid']
    if chain is not None and res.chain != chain:
        return False
    if resname in ('nter', 'cter'):
        if res.resname not in protein_names:
            return False
        if len(res.nbrs) != 1:
            return False
        other = residues[next(iter(res.nbrs))]
        if resname == 'nter' and not other.resid > res.resid:
            return False
        if resname == 'cter' and not other.resid < res.resid:
            return False
        if resid is not None and strict_terminal_resid and res.resid != resid:
            return False
        return True
    if resname and res.resname != resname:
        return False
    if resid is not None and res.resid != resid:
        return False
    return True


_SPEC_CHARS = 'A-Za-z0-9#-'


def renderings(spec):
    chain, resname, resid = spec['chain'], spec['resname'], spec['resid']
    bases = [(chain + '-' if chain is not None else '') + (resname or '')]
    if chain == '':
        bases.append(resname or '')  # an explicitly empty chain need not be echoed
    out = {spec['text']}
    for base in bases:
        if resid is None:
            out.add(base)
            out.add(base + '#')
        else:
            out.add(base + '#' + str(resid))
            if not (resname and resname[-1].isdigit()):
                out.add(base + str(resid))
    out.discard('')
    return out


def names_spec(message, spec):
    if not spec['resname'] and spec['resid'] is None and not spec['chain'] and 'specified by ""' in message:
        # a request without any part (or with only an explicitly empty chain) has no name to echo
        return True
    for text in renderings(spec):
        if re.search('(?<![%s])%s(?![%s])' % (_SPEC_CHARS, re.escape(text), _SPEC_CHARS), message):
            return True
    return False


# ---------------------------------------------------------------------------
# part A: spec round trip

def _strategy_roundtrip(tier):
    letters = 'ABCDEFGHIJKLMNOPQRSTUVWXYZ'
    plain = st.text(alphabet=letters + 'abcxyz', min_size=1, max_size=4)
    digit_end = st.tuples(st.text(alphabet=letters + '0123456789', min_size=0, max_size=3),
                          st.sampled_from(list(letters)),
                          st.text(alphabet='0123456789', min_size=1, max_size=2)).map(''.join)
    resname = st.one_of(st.none(), plain, plain, plain, digit_end, digit_end, st.sampled_from(['nter', 'cter']),
                        st.sampled_from(ALLNAMES))
    return st.fixed_dictionaries({
        'chain': st.one_of(st.none(), st.none(), st.sampled_from(list(letters + 'abz0123456789'))),
        'resname': resname,
        'resid': st.one_of(st.none(), st.integers(0, 99999), st.integers(0, 120), st.integers(0, 120)),
        'force_hash': st.sampled_from([False, False, False, True]),
        'zeros': st.sampled_from([0, 0, 0, 0, 1, 2]),
    })


def _run_roundtrip(case):
    chain, resname, resid = case['chain'], case['resname'], case['resid']
    text = format_spec(chain, resname, resid, case['force_hash'], case['zeros'])
    expected = expected_components(chain, resname, resid)
    got = parse_residue_spec(text)
    classes = []
    ends_digit = bool(resname) and resname[-1].isdigit()
    if got != expected:
        bucket = 'parse-hash-name' if ends_digit else 'parse-roundtrip'
        raise Violation(bucket, 'parse_residue_spec(%r) = %r, components were %r' % (text, got, expected))
    if 'resid' in got and type(got['resid']) is not int:  # pylint: disable=unidiomatic-typecheck
        raise Violation('parse-resid-type', 'resid of %r parsed as %r' % (text, got['resid']))
    # the processor constructor is how the CLI hands the strings over
    proc = AnnotateMutMod(modifications=[(text, 'M')], mutations=[(text, 'B')])
    if proc.modifications != [(expected, 'M')] or proc.mutations != [(expected, 'B')]:
        raise Violation('constructor-parse', 'AnnotateMutMod stored %r / %r for %r' % (proc.modifications, proc.mutations, text))
    if ends_digit:
        classes.append('name-ends-in-digit')
        if resid is not None:
            classes.append('hash-required')
        else:
            classes.append('digit-name-without-resid')
    if resname in ('nter', 'cter'):
        classes.append('terminus-keyword')
    if chain is not None:
        classes.append('chain')
    if resid is not None:
        classes.append('resid')
    if not resname:
        classes.append('no-resname')
    if not expected:
        classes.append('empty')
    if case['force_hash'] and resid is not None and not ends_digit:
        classes.append('optional-hash')
    nparts = len(expected)
    return Outcome(classes, (ends_digit or resname in ('nter', 'cter')) and nparts >= 2)


# ---------------------------------------------------------------------------
# part B: annotate

def layout(md):
    """Atoms, bonds and the residue-wise atom lists a molecule description stands for (no library code involved)."""
    atoms = {}
    edges = []
    per_res = []
    key = md['key0']
    nres = len(md['residues'])
    prev_resid = None
    for ridx, rd in enumerate(md['residues']):
        if md['resid_mode'] == 'seq':
            resid = md['resid0'] + ridx
        elif md['resid_mode'] == 'rev':
            resid = md['resid0'] + nres - ridx
        else:
            resid = rd['resid']
        icode = rd['icode']
        if rd['same_as_prev'] and prev_resid is not None:
            resid = prev_resid
            icode = icode or 'A'
        prev_resid = resid
        chain = md['chain'] if rd['chain'] is None else rd['chain']
        nodes = []
        for a in range(rd['natoms']):
            atoms[key] = {'atomname': 'X%d' % a, 'resname': rd['resname'], 'resid': resid, 'chain': chain,
                          'insertion_code': icode}
            nodes.append(key)
            key += md['keystep']
        for a, b in zip(nodes[:-1], nodes[1:]):
            edges.append((a, b))
        if ridx:
            parent = ridx - 1 if not rd['branch'] else rd['parent'] % ridx
            pnodes = per_res[parent]
            edges.append((pnodes[rd['attach'] % len(pnodes)], nodes[0]))
        per_res.append(nodes)
    for i, j in md['extra_edges']:
        i %= nres
        j %= nres
        if i != j:
            edges.append((per_res[i][-1], per_res[j][-1]))
    return atoms, edges, per_res


def build_molecule(md, force_field):
    """Returns (Molecule, atoms {node: attrs}, edges, per-residue-index atom lists)."""
    atoms, edges, per_res = layout(md)
    mol = Molecule(force_field=force_field)
    order = list(atoms)
    if md['reverse_nodes']:
        order = order[::-1]
    for node in order:
        mol.add_node(node, **atoms[node])
    mol.add_edges_from(edges)
    return mol, atoms, edges, per_res


def snapshot(mol):
    nodes = {n: {k: v for k, v in mol.nodes[n].items() if k not in ('mutation', 'modification')} for n in mol.nodes}
    return nodes, sorted(tuple(sorted(e)) for e in mol.edges)


def run_annotate(system, modifications, mutations, warm_system=None):
    """Returns (NameError or None, messages of the records of level >= WARNING)."""
    processor = AnnotateMutMod(modifications=[(s['text'], s['target']) for s in modifications],
                               mutations=[(s['text'], s['target']) for s in mutations])
    if warm_system is not None:
        # the processor object has served another system before; what it reports for this one must not depend on that
        with capture_logs():
            try:
                processor.run_system(warm_system)
            except NameError:
                pass
    with capture_logs() as logs:
        try:
            processor.run_system(system)
            exc = None
        except NameError as err:
            exc = err
    return exc, logs.messages()


def evaluate_annotation(case, mol_data, system, exc, messages, strict):
    """Compare the observed result with the statement.  Returns (stage, bucket, message) or None; stage 0 = error
    behaviour, 1 = annotations, 2 = reporting."""
    prot = set(PROT)
    requests = [('mutation', s) for s in case['mutations']] + [('modification', s) for s in case['modifications']]
    known = {'mutation': set(case['known_blocks']), 'modification': set(case['known_mods']) | {'none'}}
    all_res = []
    for midx, (atoms, edges) in enumerate(mol_data):
        residues = own_residues(atoms, edges)
        for res in residues.values():
            res.mol = midx
        all_res.append(residues)
    # which residues does each request match
    matched = []
    for key, spec in requests:
        hits = []
        for midx, residues in enumerate(all_res):
            for res in residues.values():
                if own_match(spec, res, residues, prot, strict_terminal_resid=strict):
                    hits.append(res)
        matched.append(hits)
    must_raise = [spec for (key, spec), hits in zip(requests, matched) if hits and spec['target'] not in known[key]]
    may_raise = [spec for (key, spec), hits in zip(requests, matched) if not hits and spec['target'] not in known[key]]
    if exc is not None:
        if must_raise:
            if not any(spec['target'] in str(exc) for spec in must_raise):
                return 0, 'nameerror-names-other', 'NameError %r does not name any of the unknown targets %r' % (
                    str(exc), [s['target'] for s in must_raise])
            return None
        if may_raise:
            return None
        return 0, 'nameerror-unexpected', 'NameError %r although every target of a matching request is known' % str(exc)
    if must_raise:
        spec = must_raise[0]
        return 0, 'unknown-target-accepted', 'request %s:%s matches a residue and the target is unknown, but no error was raised' % (
            spec['text'], spec['target'])
    # annotations: nothing missing, nothing extra, on all atoms
    for midx, mol in enumerate(system.molecules):
        residues = all_res[midx]
        for res in residues.values():
            expect = {'mutation': [], 'modification': []}
            for (key, spec), hits in zip(requests, matched):
                if any(h is res for h in hits):
                    expect[key].append(spec['target'])
            for pos, node in enumerate(res.atoms):
                for key in ('mutation', 'modification'):
                    got = mol.nodes[node].get(key)
                    got = [] if got is None else list(got)
                    if got != expect[key]:
                        if sorted(got) == sorted(expect[key]):
                            bucket = 'annotation-order'
                        elif pos and list(mol.nodes[res.atoms[0]].get(key) or []) == expect[key]:
                            bucket = 'annotation-not-on-all-atoms'
                        elif len(got) > len(expect[key]):
                            bucket = 'annotation-extra'
                        else:
                            bucket = 'annotation-missing'
                        return 1, bucket, ('molecule %d residue %s-%s%s%s atom %r: %s is %r, the requests %r name it %r' % (
                            midx, res.chain, res.resname, res.resid, res.icode, node, key, got,
                            ['%s:%s' % (s['text'], s['target']) for k, s in requests if k == key], expect[key]))
    # reporting: every unmatched request is named by a warning, and nothing else is
    unmatched = [spec for (key, spec), hits in zip(requests, matched) if not hits]
    matched_specs = [spec for (key, spec), hits in zip(requests, matched) if hits]
    for message in messages:
        if any(names_spec(message, spec) for spec in unmatched):
            continue
        culprit = [spec for spec in matched_specs if names_spec(message, spec)]
        if culprit:
            return 2, 'matched-spec-reported', 'warning %r although request %r matches %d residue(s)' % (
                message, culprit[0]['text'], len(matched[[s for _, s in requests].index(culprit[0])]))
        return 2, 'spurious-warning', 'warning %r names none of the unmatched requests %r' % (
            message, [s['text'] for s in unmatched])
    for spec in unmatched:
        if not any(names_spec(message, spec) for message in messages):
            return 2, 'unmatched-not-reported', ('request %s:%s matches no residue in the whole system but no warning names it '
                                              '(requests %r, warnings %r)' % (
                                                  spec['text'], spec['target'],
                                                  ['%s:%s' % (s['text'], s['target']) for _, s in requests], messages))
    return None


def _run_annotate(case):
    ff = toy_ff()
    case = dict(case, known_blocks=MUT_KNOWN, known_mods=MOD_KNOWN)
    system = System(force_field=ff)
    mol_data = []
    layouts = []
    mols = []
    for md in case['mols']:
        mol, atoms, edges, per_res = build_molecule(md, ff)
        mols.append(mol)
        mol_data.append((atoms, edges))
        layouts.append(per_res)
    system.molecules = mols
    before = [snapshot(mol) for mol in mols]
    warm_system = None
    if len(mols) % 2 == 0:
        # the molecules in reverse order, without the last one: requests may match there that match nothing here, and the reverse
        warm_system = System(force_field=ff)
        warm_system.molecules = [build_molecule(md, ff)[0] for md in reversed(case['mols'][:-1])]
    exc, messages = run_annotate(system, case['modifications'], case['mutations'], warm_system)
    if len(system.molecules) != len(mols):
        raise Violation('molecules-changed', 'number of molecules changed from %d to %d' % (len(mols), len(system.molecules)))
    after = [snapshot(mol) for mol in system.molecules]
    if after != before:
        raise Violation('other-attributes-touched', 'atoms, bonds or attributes other than mutation / modification changed')

    problem = evaluate_annotation(case, mol_data, system, exc, messages, strict=True)
    if problem is not None:
        lenient = evaluate_annotation(case, mol_data, system, exc, messages, strict=False)
        if lenient is None or lenient[0] > problem[0]:
            spec = [s for s in case['mutations'] + case['modifications']
                    if s['resname'] in ('nter', 'cter') and s['resid'] is not None]
            raise Violation('terminal-resid-ignored',
                            'request(s) %r give a residue number together with nter/cter; the result is only explained if '
                            'that number is ignored (%s)' % ([s['text'] for s in spec], problem[2]))
        raise Violation(problem[1], problem[2])

    # ---- classes
    classes = []
    prot = set(PROT)
    all_specs = case['mutations'] + case['modifications']
    branched = False
    digit_name = any(s['resname'] and s['resname'][-1].isdigit() for s in all_specs)
    nter_not_lowest = False
    seen_ids = {}
    dup_across = False
    any_unmatched = False
    any_terminal_hit = False
    for midx, (atoms, edges) in enumerate(mol_data):
        residues = own_residues(atoms, edges)
        leaves = [r for r in residues.values() if len(r.nbrs) == 1]
        if len(leaves) >= 3:
            branched = True
        if any(r.resname[-1].isdigit() for r in residues.values()):
            digit_name = True
        protres = [r for r in residues.values() if r.resname in prot]
        if protres:
            low = min(r.resid for r in protres)
            for r in leaves:
                if r.resname in prot and residues[next(iter(r.nbrs))].resid > r.resid and r.resid != low:
                    nter_not_lowest = True
            for r in protres:
                if r.resid == low and not (len(r.nbrs) == 1 and residues[next(iter(r.nbrs))].resid > r.resid):
                    nter_not_lowest = True
        for r in residues.values():
            ident = (r.chain, r.resid)
            if ident in seen_ids and seen_ids[ident] != midx:
                dup_across = True
            seen_ids.setdefault(ident, midx)
    for spec in all_specs:
        hit = False
        for atoms, edges in mol_data:
            residues = own_residues(atoms, edges)
            if any(own_match(spec, r, residues, prot) for r in residues.values()):
                hit = True
        if not hit:
            any_unmatched = True
        elif spec['resname'] in ('nter', 'cter'):
            any_terminal_hit = True
    if branched:
        classes.append('branched')
    if digit_name:
        classes.append('digit-name')
    if nter_not_lowest:
        classes.append('terminus-differs-from-lowest-resid-rule')
    if dup_across:
        classes.append('same-chain-resid-in-two-molecules')
    if any(rd['icode'] or rd['same_as_prev'] for md in case['mols'] for rd in md['residues']):
        classes.append('insertion-code')
    if any(md['resid_mode'] != 'seq' for md in case['mols']):
        classes.append('non-monotone-resids')
    if len(case['mols']) > 1:
        classes.append('multi-molecule')
    if any_unmatched:
        classes.append('unmatched-request')
    if any_terminal_hit:
        classes.append('terminus-request-hit')
    if any(s['resname'] in ('nter', 'cter') and s['resid'] is not None for s in all_specs):
        classes.append('terminus-with-resid')
    if any(not s['resname'] for s in all_specs):
        classes.append('request-without-resname')
    if exc is not None:
        classes.append('nameerror')
    if not all_specs:
        classes.append('no-requests')
    if any(s['target'] == 'none' for s in all_specs):
        classes.append('target-none')
    nontrivial = len(all_specs) >= 2 and any_unmatched and (branched or digit_name) and exc is None
    return Outcome(classes, nontrivial)


@st.composite
def _annotate_case(draw):
    residue = st.fixed_dictionaries({
        'resname': st.one_of(st.sampled_from(PROT), st.sampled_from(PROT), st.sampled_from(PROT), st.sampled_from(NONPROT)),
        'resid': st.sampled_from(RESIDS),
        'icode': st.sampled_from(['', '', '', '', '', 'A', 'B']),
        'same_as_prev': st.sampled_from([False] * 9 + [True]),
        'chain': st.sampled_from([None] * 8 + ['A', 'B', '']),
        'natoms': st.integers(1, 3),
        'branch': st.sampled_from([False, False, True]),
        'parent': st.integers(0, 5),
        'attach': st.integers(0, 2),
    })
    molecule = st.fixed_dictionaries({
        'chain': st.sampled_from(CHAINS),
        'residues': st.lists(residue, min_size=1, max_size=7),
        'resid_mode': st.sampled_from(['seq', 'seq', 'rev', 'random', 'random']),
        'resid0': st.sampled_from([1, 1, 2, 9, 99]),
        'extra_edges': st.lists(st.tuples(st.integers(0, 6), st.integers(0, 6)).map(list), max_size=1),
        'key0': st.sampled_from([0, 0, 1, 7]),
        'keystep': st.sampled_from([1, 1, 2]),
        'reverse_nodes': st.sampled_from([False, False, True]),
    })
    mols = draw(st.lists(molecule, min_size=1, max_size=4))
    # the residues as they will be built (for drawing requests that refer to them)
    existing = []
    for md in mols:
        atoms, _, per_res = layout(md)
        for nodes in per_res:
            a = atoms[nodes[0]]
            existing.append((a['chain'], a['resname'], a['resid']))

    def one_spec(kind):
        mode = draw(st.sampled_from(['existing'] * 9 + ['perturbed'] * 4 + ['terminal'] * 4 + ['nowhere'] * 3 + ['empty']))
        chain = resname = resid = None
        if mode in ('existing', 'perturbed'):
            c, n, r = draw(st.sampled_from(existing))
            parts = draw(st.sampled_from([(1, 1, 1), (0, 1, 1), (0, 1, 0), (1, 1, 0), (0, 0, 1), (1, 0, 1), (1, 0, 0),
                                          (0, 1, 1), (1, 1, 1), (0, 1, 1), (0, 1, 0), (1, 1, 0), (1, 1, 1), (0, 1, 1),
                                          (0, 1, 1), (1, 1, 1), (0, 1, 0), (1, 1, 0), (0, 1, 1), (0, 1, 0)]))
            chain = c if parts[0] else None
            resname = n if parts[1] else None
            resid = r if parts[2] else None
            if mode == 'perturbed':
                which = draw(st.sampled_from([i for i in range(3) if parts[i]]))
                if which == 0:
                    chain = draw(st.sampled_from([x for x in CHAINS + ['Q'] if x != c]))
                elif which == 1:
                    resname = draw(st.sampled_from([x for x in ALLNAMES + ['PO', 'LIG', 'ALA1'] if x != n]))
                else:
                    resid = draw(st.sampled_from([x for x in RESIDS + [r * 10, r * 10 + 1, 0] if x != r]))
        elif mode == 'terminal':
            resname = draw(st.sampled_from(['nter', 'cter']))
            extra = draw(st.sampled_from(['', '', '', 'chain', 'chain', 'resid', 'both']))
            c, n, r = draw(st.sampled_from(existing))
            if extra in ('chain', 'both'):
                chain = draw(st.sampled_from([c, c, 'A', 'B']))
            if extra in ('resid', 'both'):
                resid = draw(st.sampled_from([r, r, 1, 2]))
        elif mode == 'nowhere':
            chain, resname, resid = draw(st.sampled_from([(None, 'XYZ', 99), ('Q', 'ALA', 1), (None, 'ALA', 999), (None, 'XYZ', None),
                                                           ('Z', None, None), (None, 'PO9', 4), ('Q', 'nter', None),
                                                           (None, None, 777), ('A', 'QQ4', None)]))
        force_hash = draw(st.sampled_from([False, False, False, False, True]))
        if kind == 'mutation':
            target = draw(st.sampled_from(MUT_KNOWN * 6 + MUT_UNKNOWN))
        else:
            target = draw(st.sampled_from(MOD_KNOWN * 5 + ['none', 'none'] + MOD_UNKNOWN))
        return {'chain': chain, 'resname': resname, 'resid': resid, 'target': target,
                'text': format_spec(chain, resname, resid, force_hash)}

    shape = draw(st.sampled_from([(1, 0), (0, 1), (1, 1), (2, 1), (1, 2), (2, 2), (0, 3), (3, 0), (3, 1), (1, 3), (0, 2), (2, 0),
                                  (4, 2), (2, 4), (4, 4), (0, 4), (4, 0), (3, 3), (0, 0)] + [(1, 1), (2, 1), (1, 2), (0, 3), (0, 2)] * 3))
    mutations = [one_spec('mutation') for _ in range(shape[0])]
    modifications = [one_spec('modification') for _ in range(shape[1])]
    return {'mols': mols, 'mutations': mutations, 'modifications': modifications}


def _strategy_annotate(tier):
    return _annotate_case()


# ---------------------------------------------------------------------------
# part C: repair on charmm blocks

AMINO = ['ALA', 'GLY', 'SER', 'VAL', 'PRO', 'ASP', 'LYS', 'PHE', 'THR', 'CYS', 'LEU', 'ASN', 'GLU']
SIDE_MODS = {'ASP': ['ASP-HD1', 'ASP-HD2'], 'GLU': ['GLU-HE1', 'GLU-HE2']}
TER_MODS = {'nter': ['N-ter', 'NH2-ter', 'none'], 'cter': ['C-ter', 'COOH-ter', 'none', 'none']}
PHOS_ANCHOR = {'SER': 'OG', 'THR': 'OG1'}


def block_names_edges(ff, resname):
    block = ff.blocks[resname]
    names = [block.nodes[n]['atomname'] for n in block.nodes]
    edges = {frozenset((block.nodes[a]['atomname'], block.nodes[b]['atomname'])) for a, b in block.edges}
    return names, edges


def patch_reference(ff, resname, mods):
    """Own construction of the expected residue: block atoms + PTM atoms of each modification in turn.
    Returns (names list, edges set) or None if a modification does not fit (an anchor atom is absent)."""
    names, edges = block_names_edges(ff, resname)
    names = list(names)
    edges = set(edges)
    for mod_name in mods:
        if mod_name == 'none':
            continue
        mod = ff.modifications[mod_name]
        anchors = [mod.nodes[n]['atomname'] for n in mod.nodes if not mod.nodes[n].get('PTM_atom')]
        new = [mod.nodes[n]['atomname'] for n in mod.nodes if mod.nodes[n].get('PTM_atom')]
        if any(a not in names for a in anchors):
            return None
        for a, b in mod.edges:
            na, nb = mod.nodes[a]['atomname'], mod.nodes[b]['atomname']
            if na in anchors and nb in anchors and frozenset((na, nb)) not in edges:
                return None
        names.extend(new)
        for a, b in mod.edges:
            na, nb = mod.nodes[a]['atomname'], mod.nodes[b]['atomname']
            if na in new or nb in new:
                edges.add(frozenset((na, nb)))
    return names, edges


def scrub_blocks(ff):
    """The repair step writes 'mutation' / 'modification' into the shared force field blocks (harmless, nothing reads
    them there); remove them so that a case never depends on the cases run before it."""
    dirty = False
    for name in AMINO:
        block = ff.blocks[name]
        for node in block.nodes:
            for key in ('mutation', 'modification'):
                if key in block.nodes[node]:
                    del block.nodes[node][key]
                    dirty = True
    return dirty


def build_peptide(case, ff):
    mol = Molecule(force_field=ff)
    atoms = {}
    edges = []
    key = 0
    prev_c = None
    linked = []
    for rd in case['residues']:
        names, bedges = block_names_edges(ff, rd['resname'])
        local = {}
        for name in names:
            if rd['strip_h'] and name.startswith('H'):
                continue
            if name in rd.get('drop', []):
                continue
            if rd.get('surplus') == 'phos' and name == 'HG1':
                continue  # the hydroxyl hydrogen the phosphate replaces
            atoms[key] = {'atomname': name, 'resname': rd['resname'], 'resid': rd['resid'], 'chain': case['chain'],
                          'element': name[0], 'insertion_code': ''}
            local[name] = key
            key += 1
        for edge in sorted(bedges, key=sorted):
            a, b = sorted(edge)
            if a in local and b in local:
                edges.append((local[a], local[b]))
        if rd.get('surplus') == 'phos':
            # a phosphorylated SER / THR as it comes from a structure file: atoms no block describes, under the plain name
            anchor = local[PHOS_ANCHOR[rd['resname']]]
            for name, partner in (('P', None), ('O1P', 'P'), ('O2P', 'P'), ('O3P', 'P')):
                atoms[key] = {'atomname': name, 'resname': rd['resname'], 'resid': rd['resid'], 'chain': case['chain'],
                              'element': name[0], 'insertion_code': ''}
                edges.append((anchor if partner is None else local[partner], key))
                local[name] = key
                key += 1
        if rd.get('oxt'):
            # the second carboxylate oxygen every C-terminal residue of a PDB file carries
            atoms[key] = {'atomname': 'OXT', 'resname': rd['resname'], 'resid': rd['resid'], 'chain': case['chain'],
                          'element': 'O', 'insertion_code': ''}
            edges.append((local['C'], key))
            key += 1
        if prev_c is not None:
            edges.append((prev_c, local['N']))
            linked.append((prev_c, local['N']))
        prev_c = local['C']
    for node, attrs in atoms.items():
        mol.add_node(node, **attrs)
    mol.add_edges_from(edges)
    return mol, atoms, edges, linked


def check_unnamed_residues(ff, atoms, edges, residues, named, out, where, requests):
    """Residues that no request names ("and no other residue"): repair may complete them from their own block, but every
    input atom stays, and the atoms the block does not describe (a phosphate, the second carboxylate oxygen) are kept,
    unmarked, bonded as before and flagged PTM_atom (docstring of repair_graph); described atoms are not flagged.
    Returns the keys of the unnamed residues that carry such surplus atoms."""
    with_surplus = []
    asked = ['%s:%s' % (s['text'], s['target']) for _, s in requests]
    for key_, res in residues.items():
        if key_ in named:
            continue
        described = set(block_names_edges(ff, res.resname)[0])
        surplus = [n for n in res.atoms if atoms[n]['atomname'] not in described]
        label = '%s%d of %s' % (res.resname, res.resid, where)
        lost = sorted(atoms[n]['atomname'] for n in res.atoms if n not in out.nodes)
        if lost:
            raise Violation('unnamed-residue-lost-atoms', 'residue %s is named by none of the requests %r but lost its atoms %r '
                            '(surplus atoms of the input: %r)' % (label, asked, lost, sorted(atoms[n]['atomname'] for n in surplus)))
        for node in surplus:
            attrs = out.nodes[node]
            name = atoms[node]['atomname']
            for field in ('atomname', 'resname', 'resid', 'chain'):
                if attrs.get(field) != atoms[node][field]:
                    raise Violation('unnamed-residue-surplus-atom-changed', 'atom %s of residue %s (named by none of %r): %s was %r, '
                                    'is %r' % (name, label, asked, field, atoms[node][field], attrs.get(field)))
            if attrs.get('mutation') or attrs.get('modification'):
                raise Violation('unnamed-residue-marked', 'atom %s of residue %s (named by none of %r) carries mutation %r / '
                                'modification %r after repair' % (name, label, asked, attrs.get('mutation'), attrs.get('modification')))
            if attrs.get('PTM_atom') is not True:
                raise Violation('surplus-atom-not-flagged', 'atom %s of residue %s is described by no block but PTM_atom is %r' % (
                    name, label, attrs.get('PTM_atom')))
            for a, b in edges:
                if node in (a, b) and not out.has_edge(a, b):
                    raise Violation('unnamed-residue-bond-lost', 'bond %s-%s of residue %s (named by none of %r) lost' % (
                        atoms[a]['atomname'], atoms[b]['atomname'], label, asked))
        inside = set(surplus)
        for node in res.atoms:
            if node not in inside and out.nodes[node].get('PTM_atom'):
                raise Violation('described-atom-flagged', 'atom %s of residue %s is an atom of its block but flagged PTM_atom' % (
                    atoms[node]['atomname'], label))
        if surplus:
            with_surplus.append(key_)
    return with_surplus


def _run_repair(case):
    ff = charmm()
    scrub_blocks(ff)
    mol, atoms, edges, linked = build_peptide(case, ff)
    system = System(force_field=ff)
    system.molecules = [mol]
    residues = own_residues(atoms, edges)
    prot = set(AMINO)
    requests = [('mutation', s) for s in case['mutations']] + [('modification', s) for s in case['modifications']]
    # a second peptide no mutation names: another molecule of the same system, or a system of its own that is repaired
    # afterwards with the same force field object and no request at all
    extra = case.get('extra')
    mol2 = atoms2 = edges2 = residues2 = None
    expect2 = {}
    if extra:
        mol2, atoms2, edges2, _ = build_peptide(extra, ff)
        residues2 = own_residues(atoms2, edges2)
        for key_, res in residues2.items():
            muts = mods = []
            if extra['where'] == 'other-molecule':
                muts = [s['target'] for k, s in requests if k == 'mutation' and own_match(s, res, residues2, prot)]
                mods = [s['target'] for k, s in requests if k == 'modification' and own_match(s, res, residues2, prot)]
            expect2[key_] = (res, muts, mods)
        if extra['where'] == 'other-molecule':
            system.molecules = [mol, mol2]
    expect = {}
    for key_, res in residues.items():
        muts = [s['target'] for k, s in requests if k == 'mutation' and own_match(s, res, residues, prot)]
        mods = [s['target'] for k, s in requests if k == 'modification' and own_match(s, res, residues, prot)]
        expect[(res.chain, res.resid)] = (res, muts, mods)
    conflict = any(len(set(muts)) > 1 for _, muts, _ in expect.values())
    unfit = False
    reference = {}
    for ident, (res, muts, mods) in expect.items():
        final = muts[0] if muts else res.resname
        ref = patch_reference(ff, final, mods)
        if ref is None:
            unfit = True
        reference[ident] = (final, ref)
    for res, muts, mods in expect2.values():
        if len(set(muts)) > 1:
            conflict = True
        if (muts or mods) and patch_reference(ff, muts[0] if muts else res.resname, mods) is None:
            unfit = True
    nmol = len(system.molecules)
    out2 = None
    with capture_logs():
        AnnotateMutMod(modifications=[(s['text'], s['target']) for s in case['modifications']],
                       mutations=[(s['text'], s['target']) for s in case['mutations']]).run_system(system)
        # annotation as in part B (all atoms, in order)
        for themol, table in ((mol, expect), (mol2, expect2 if nmol == 2 else {})):
            for res, muts, mods in table.values():
                for node in res.atoms:
                    got = (list(themol.nodes[node].get('mutation') or []), list(themol.nodes[node].get('modification') or []))
                    if got != (muts, mods):
                        raise Violation('annotation-real-data', 'residue %s%d atom %s: annotated %r, requests name %r' % (
                            res.resname, res.resid, themol.nodes[node]['atomname'], got, (muts, mods)))
        try:
            RepairGraph(include_graph=False).run_system(system)
            error = None
        except ValueError as err:
            error = err
        if error is None and extra and extra['where'] == 'later-system':
            later = System(force_field=ff)
            later.molecules = [mol2]
            RepairGraph(include_graph=False).run_system(later)
            if len(later.molecules) != 1:
                raise Violation('repair-molecule-count', '%d molecules after repair of the later system' % len(later.molecules))
            out2 = later.molecules[0]
    classes = []
    if conflict or unfit:
        if error is None:
            raise Violation('repair-accepts-impossible-request', 'two different mutations of one residue: %s, modification that '
                            'does not fit: %s, but RepairGraph succeeded' % (conflict, unfit))
        classes.append('conflicting-mutations' if conflict else 'modification-does-not-fit')
        return Outcome(classes, False)
    if error is not None:
        raise Violation('repair-rejects-valid-request', 'RepairGraph raised ValueError(%s) for requests %r' % (
            error, ['%s:%s' % (s['text'], s['target']) for _, s in requests]))
    if len(system.molecules) != nmol:
        raise Violation('repair-molecule-count', '%d molecules after repair, %d before' % (len(system.molecules), nmol))
    out = system.molecules[0]
    if nmol == 2:
        out2 = system.molecules[1]
    # ---- residues no request names, and the surplus atoms they carry
    named = {key_ for key_, res in residues.items() if expect[(res.chain, res.resid)][1] or expect[(res.chain, res.resid)][2]}
    bystanders = {'same-molecule': check_unnamed_residues(ff, atoms, edges, residues, named, out, 'the molecule', requests)}
    if extra:
        named2 = {key_ for key_, (res, muts, mods) in expect2.items() if muts or mods}
        place = 'another molecule of the system' if nmol == 2 else 'a system repaired afterwards with the same force field'
        bystanders[extra['where']] = check_unnamed_residues(ff, atoms2, edges2, residues2, named2, out2, place, requests)
    got_res = {}
    for node in out.nodes:
        attrs = out.nodes[node]
        got_res.setdefault((attrs.get('chain'), attrs.get('resid')), []).append(node)
    if set(got_res) != set(reference):
        raise Violation('repair-residue-set', 'residues after repair %r, before %r' % (sorted(got_res), sorted(reference)))
    # atoms that bond to a neighbouring residue belong to every amino acid block: they are never surplus
    for a, b in linked:
        for node in (a, b):
            name = atoms[node]['atomname']
            if node not in out.nodes or out.nodes[node].get('atomname') != name:
                now = out.nodes[node].get('atomname') if node in out.nodes else 'removed'
                raise Violation('repair-backbone-lost', 'backbone atom %s of residue %s%d, bonded to the neighbouring residue, is %s '
                                'after repair (requests %r)' % (name, atoms[node]['resname'], atoms[node]['resid'], now,
                                                                ['%s:%s' % (s['text'], s['target']) for _, s in requests]))
        if not out.has_edge(a, b):
            raise Violation('repair-backbone-lost', 'peptide bond %s%d-%s%d lost' % (
                atoms[a]['resname'], atoms[a]['resid'], atoms[b]['resname'], atoms[b]['resid']))
    removed_any = False
    changed = False
    for ident, (final, (names, refedges)) in reference.items():
        res, muts, mods = expect[ident]
        nodes = got_res[ident]
        if not muts and not mods:
            # an unmarked residue keeps what it has beyond its block (left to the PTM machinery)
            extras = [atoms[n]['atomname'] for n in res.atoms if atoms[n]['atomname'] not in names]
            names = list(names) + extras
            refedges = set(refedges) | {frozenset((atoms[a]['atomname'], atoms[b]['atomname'])) for a, b in edges
                                         if a in res.atoms and b in res.atoms
                                         and (atoms[a]['atomname'] in extras or atoms[b]['atomname'] in extras)}
        got_names = sorted(out.nodes[n].get('atomname') for n in nodes)
        resnames = {out.nodes[n].get('resname') for n in nodes}
        label = '%s%d (requested %s%s)' % (res.resname, res.resid, final, ''.join('+' + m for m in mods))
        if got_names != sorted(names):
            surplus = sorted(set(got_names) - set(names))
            missing = sorted(set(names) - set(got_names))
            if surplus and muts:
                bucket = 'repair-surplus-atoms'
            elif missing:
                bucket = 'repair-missing-atoms'
            else:
                bucket = 'repair-atoms'
            raise Violation(bucket, 'residue %s has atoms %r, expected %r (surplus %r, missing %r)' % (
                label, got_names, sorted(names), surplus, missing))
        if resnames != {final}:
            raise Violation('repair-resname', 'residue %s carries residue names %r' % (label, sorted(map(str, resnames))))
        inside = set(nodes)
        got_edges = {frozenset((out.nodes[a]['atomname'], out.nodes[b]['atomname']))
                     for a, b in out.edges(nodes) if a in inside and b in inside}
        if got_edges != refedges:
            raise Violation('repair-bonds', 'residue %s: bonds beyond the reference %r, reference bonds absent %r' % (
                label, sorted(map(sorted, got_edges - refedges)), sorted(map(sorted, refedges - got_edges))))
        if muts and final != res.resname:
            changed = True
            present_before = {atoms[n]['atomname'] for n in res.atoms}
            if present_before - set(names):
                removed_any = True
    if changed:
        classes.append('mutation-to-other-residue')
    if removed_any:
        classes.append('old-atoms-removed')
    if any(mods for _, _, mods in expect.values()):
        classes.append('modification-applied')
    if any(muts and mods for _, muts, mods in expect.values()):
        classes.append('mutation-and-modification-on-one-residue')
    if any(rd['strip_h'] for rd in case['residues']):
        classes.append('hydrogens-stripped')
    if any(not rd['strip_h'] for rd in case['residues']):
        classes.append('with-hydrogens')
    if not any(muts or mods for _, muts, mods in expect.values()):
        classes.append('nothing-hit')
    if scrub_blocks(ff):
        classes.append('observation:force-field-block-annotated-in-place')
    if any(mods and set(mods) == {'none'} and not muts and {atoms[n]['atomname'] for n in res.atoms} - set(block_names_edges(ff, res.resname)[0])
           for res, muts, mods in expect.values()):
        classes.append('only-none-requested-on-residue-with-surplus-atoms')
    # a residue no request names, with surplus atoms, under the name some mutation asks for, repaired after that mutation
    # (whose residue gets no modification of its own)
    order = list(residues)
    plain = [(order.index(key_), muts[0]) for key_, res in residues.items()
             for _, muts, mods in [expect[(res.chain, res.resid)]] if muts and not [m for m in mods if m != 'none']]
    for place, keys in bystanders.items():
        if keys:
            classes.append('unnamed-residue-with-surplus-atoms')
        for key_ in keys:
            position = order.index(key_) if place == 'same-molecule' else len(order)
            if any(target == key_[2] and pos < position for pos, target in plain):
                classes.append('unnamed-namesake-of-mutation-target-with-surplus-atoms')
                classes.append('unnamed-namesake:' + place)
                where_atoms, where_res = (atoms, residues) if place == 'same-molecule' else (atoms2, residues2)
                if any(where_atoms[n]['atomname'] == 'P' for n in where_res[key_].atoms):
                    classes.append('unnamed-namesake:phosphorylated')
    if extra:
        classes.append('second-peptide:' + extra['where'])
    classes = sorted(set(classes), key=classes.index)
    if any(rd.get('oxt') for rd in case['residues']):
        classes.append('input-has-OXT')
        last = expect[(case['chain'], case['residues'][-1]['resid'])]
        if last[1]:
            classes.append('C-terminal-residue-with-OXT-mutated')
    nontrivial = removed_any and (any(mods for _, _, mods in expect.values()) or len(requests) >= 2)
    return Outcome(classes, nontrivial)


@st.composite
def _repair_case(draw):
    nres = draw(st.integers(2, 4))
    resid0 = draw(st.sampled_from([1, 1, 5, 42]))
    step = draw(st.sampled_from([1, 1, 1, -1]))
    names = [draw(st.sampled_from(AMINO)) for _ in range(nres)]
    residues = [{'resname': names[i], 'resid': resid0 + (i if step > 0 else nres - i), 'strip_h': draw(st.booleans())}
                 for i in range(nres)]
    chain = draw(st.sampled_from(['A', 'B']))
    final = {r['resid']: r['resname'] for r in residues}

    def spec_for(r, target):
        form = draw(st.sampled_from(['full', 'name-resid', 'name-resid', 'resid-chain']))
        c = chain if form in ('full', 'resid-chain') else None
        n = r['resname'] if form != 'resid-chain' else None
        return {'chain': c, 'resname': n, 'resid': r['resid'], 'target': target, 'text': format_spec(c, n, r['resid'])}

    mutations = []
    nmut = draw(st.sampled_from([1, 1, 1, 2, 0]))
    picked = draw(st.permutations(range(nres)))[:nmut]
    # a residue that NO request names, carries atoms its block does not describe (phosphate, second carboxylate oxygen) and
    # has the name the first mutation asks for: in the same molecule, in another molecule of the system, or in a system
    # of its own repaired afterwards with the same force field object
    bystander = draw(st.sampled_from(['', '', '', 'same', 'same', 'other-molecule', 'later-system'])) if nmut else ''
    forced = None
    protect_last = False
    if bystander == 'same':
        cands = [j for j in range(nres) if j not in picked]
        if cands:
            j = draw(st.sampled_from([j for j in cands if j > picked[0]] or cands))
            if j == nres - 1 and draw(st.booleans()):
                forced = draw(st.sampled_from(AMINO))
                protect_last = True
            else:
                forced = draw(st.sampled_from(['SER', 'THR']))
                residues[j]['surplus'] = 'phos'
            residues[j]['resname'] = forced
            final[residues[j]['resid']] = forced
    elif bystander and draw(st.booleans()):
        forced = draw(st.sampled_from(['SER', 'THR']))  # so that the second peptide can carry a phosphate
    for pos, i in enumerate(picked):
        target = forced if forced and pos == 0 else draw(st.sampled_from(AMINO))
        mutations.append(spec_for(residues[i], target))
        final[residues[i]['resid']] = target
        # the largest-common-subgraph search of the repair step is exponential in the number of atoms to drop; mutated
        # residues come without hydrogens (as from a crystal structure)
        residues[i]['strip_h'] = True
    special = draw(st.sampled_from(['', '', '', '', '', '', 'conflict', 'unfit']))
    if special == 'conflict' and mutations:
        r = residues[picked[0]]
        other = draw(st.sampled_from([x for x in AMINO if x != mutations[0]['target']]))
        mutations.append(spec_for(r, other))
    modifications = []
    nmod = draw(st.integers(0, 3))
    used = set()
    if protect_last:
        used.add('cter')
    for _ in range(nmod):
        kind = draw(st.sampled_from(['nter', 'cter', 'side', 'side']))
        if kind in ('nter', 'cter'):
            if kind in used:
                continue
            used.add(kind)
            c = draw(st.sampled_from([None, None, chain]))
            modifications.append({'chain': c, 'resname': kind, 'resid': None, 'target': draw(st.sampled_from(TER_MODS[kind])),
                                  'text': format_spec(c, kind, None)})
        else:
            cands = [r for r in residues if final[r['resid']] in SIDE_MODS and ('side', r['resid']) not in used]
            if not cands:
                continue
            r = draw(st.sampled_from(cands))
            used.add(('side', r['resid']))
            modifications.append(spec_for(r, draw(st.sampled_from(SIDE_MODS[final[r['resid']]]))))
    if special == 'unfit':
        cands = [r for r in residues if final[r['resid']] not in ('ASP',)]
        if cands:
            r = draw(st.sampled_from(cands))
            modifications.append(spec_for(r, 'ASP-HD2'))
    residues[-1]['oxt'] = True if protect_last else draw(st.sampled_from([False, True, True]))
    if residues[-1]['oxt'] and 'cter' not in used and draw(st.sampled_from([False, False, True])):
        # the placeholder 'none' as the only request on a residue that carries a surplus atom, addressed like a side chain
        modifications.append(spec_for(residues[-1], 'none'))
    if not mutations and not modifications:
        i = draw(st.integers(0, nres - 1))
        mutations.append(spec_for(residues[i], draw(st.sampled_from(AMINO))))
        residues[i]['strip_h'] = True
    case = {'residues': residues, 'chain': chain, 'mutations': mutations, 'modifications': modifications}
    if bystander in ('other-molecule', 'later-system'):
        target = mutations[0]['target']
        n2 = draw(st.integers(2, 3))
        second = [{'resname': draw(st.sampled_from(AMINO)), 'resid': 201 + i, 'strip_h': draw(st.booleans())} for i in range(n2)]
        if target in PHOS_ANCHOR and draw(st.booleans()):
            k = draw(st.integers(0, n2 - 1))
            second[k]['resname'] = target
            second[k]['surplus'] = 'phos'
            second[-1]['oxt'] = draw(st.booleans())
        else:
            second[-1]['resname'] = target
            second[-1]['oxt'] = True
        # chain C and residue numbers from 201: no request with a chain or a number can name these residues
        case['extra'] = {'where': bystander, 'chain': 'C', 'residues': second}
    return case


def _strategy_repair(tier):
    return _repair_case()


# ---------------------------------------------------------------------------
# known findings: matched by bucket

def match_bucket(params, part_name, case, violation):
    if params.get('part') and params['part'] != part_name:
        return False
    return violation.bucket in params.get('buckets', [])


MATCHERS = {'bucket': match_bucket}

PARTS = [
    Part('spec-roundtrip', _run_roundtrip, strategy=_strategy_roundtrip, examples={'quick': 4000, 'thorough': 100000},
         floors={'hash-required': 0.1, 'digit-name-without-resid': 0.03, 'terminus-keyword': 0.05, 'chain': 0.2, 'no-resname': 0.05}),
    # the floors of the other two parts hold on the unchanged tree too, where the cases that run into the known
    # findings are dropped from the statistics
    Part('annotate', _run_annotate, strategy=_strategy_annotate, examples={'quick': 4000, 'thorough': 100000},
         floors={'branched': 0.04, 'digit-name': 0.1, 'multi-molecule': 0.08, 'terminus-request-hit': 0.02,
                 'unmatched-request': 0.04, 'same-chain-resid-in-two-molecules': 0.03, 'insertion-code': 0.1,
                 'terminus-differs-from-lowest-resid-rule': 0.12, 'nameerror': 0.03},
         shrink_budget={'quick': 150, 'thorough': 1500}),
    Part('repair', _run_repair, strategy=_strategy_repair, examples={'quick': 80, 'thorough': 2000},
         floors={'mutation-to-other-residue': 0.15, 'modification-applied': 0.1, 'old-atoms-removed': 0.1,
                 'unnamed-namesake-of-mutation-target-with-surplus-atoms': 0.04},
         shrink_budget={'quick': 60, 'thorough': 300}),
]
