"""
C10  Guessed bonds obey the stated criteria and never split or lose residues.

Generated systems of atoms (residues known / unknown to a toy force field /
with duplicated atom names, residue identities re-used across input
molecules, elements with and without a radius, pre-existing bonds, geometry
constructed on the distance thresholds) are run through MakeBonds and compared
with an O(n^2) reference written from the statement, with an independently
transcribed radius table.
"""
import math

import numpy as np
from hypothesis import strategies as st

from pbt.core import Part, Outcome, Violation
from pbt.util import capture_logs

from vermouth.molecule import Molecule, Block
from vermouth.system import System
from vermouth.forcefield import ForceField
from vermouth.processors.make_bonds import MakeBonds

PROPERTY = 'C10'
LEVEL = 'exploration'
RULE = ('systems of 1-3 input molecules, 1-5 residues of 1-6 atoms; residue names known to a toy force field (block with bonds and '
        'non-bonds), unknown, or known with duplicated atom names; the same (chain, resname, resid) re-used across input molecules; '
        'elements from the whole radius table plus elements without radius; pre-existing edges; each atom placed either freely on a '
        'grid or at threshold x (1 +- 1e-6 | 0.7 | 1.4) from an earlier atom; fudge in {0.5,0.8,1.0,1.2,1.5,2.0}; name / distance modes '
        'on/off; non-trivial = at least one pair within 1e-5 relative of its threshold and at least two different rules each being the '
        'only reason some close pair is not bonded; distinct by hash')
ASSUMPTIONS = [
    'radii: Bondi 1964 table for the 20 elements the documentation lists (H and D 0.120 nm); every other element has no radius',
    'only element "H" counts as hydrogen for the H-H and cross-residue rules, as stated',
    'pairs within 1e-9 relative of the threshold may go either way',
    'every atom with a radius has a position; atoms carry a unique tag attribute because MakeBonds renumbers node keys',
]

# A. Bondi, J. Phys. Chem. 68 (1964) 441, table of van der Waals radii, in nm (transcribed independently of make_bonds.py)
BONDI = {'H': 0.120, 'D': 0.120, 'He': 0.140, 'C': 0.170, 'N': 0.155, 'O': 0.152, 'F': 0.147, 'Ne': 0.154, 'Si': 0.210,
         'P': 0.180, 'S': 0.180, 'Cl': 0.175, 'Ar': 0.188, 'As': 0.185, 'Se': 0.190, 'Br': 0.185, 'Kr': 0.202,
         'Te': 0.206, 'I': 0.198, 'Xe': 0.216}
NO_RADIUS = ['Zn', 'Fe', 'X', 'Na']
BLOCK_NAMES = ['ALA', 'LIG']
ATOM_NAMES = ['A', 'B', 'C', 'D', 'E', 'H1', 'H2']


def build_ff(case):
    ff = ForceField(name='c10toy')
    blocks = {}
    for b in case['blocks']:
        block = Block(force_field=ff)
        block.name = b['name']
        names = []
        # node keys of a block are the atom names (as the .ff reader makes them) or something else (blocks built in code,
        # read from itp-like sources): the atom name is an attribute either way
        numbered = b.get('keys') == 'numbers'
        key_of = {}
        for nm in b['atoms']:
            if nm not in names:
                names.append(nm)
                if numbered:
                    key_of[nm] = 10 + 3 * len(names)
                    block.add_node(key_of[nm], atomname=nm, resname=b['name'])
                else:
                    key_of[nm] = nm
                    block.add_atom({'atomname': nm, 'resname': b['name']})
        edges = set()
        for i, j in b['edges']:
            a, c = names[i % len(names)], names[j % len(names)]
            if a != c:
                block.add_edge(key_of[a], key_of[c])
                edges.add(frozenset((a, c)))
        ff.blocks[b['name']] = block
        blocks[b['name']] = (names, edges)
    return ff, blocks


def place(case):
    """Resolve positions: returns flat atom list with absolute positions (floats, nm)."""
    atoms = []
    for mi, mol in enumerate(case['mols']):
        for ri, res in enumerate(mol['residues']):
            for ai, at in enumerate(res['atoms']):
                atoms.append({'mol': mi, 'res': (mi, res['chain'], res['resid'], res['resname'], res['icode']),
                              'name': at['name'], 'element': at['element'], 'spec': at['pos'],
                              'tag': len(atoms)})
    fudge = case['fudge']
    for idx, atom in enumerate(atoms):
        spec = atom['spec']
        if 'abs' in spec or idx == 0:
            grid = spec.get('abs', [0, 0, 0])
            atom['pos'] = [g / 1000.0 for g in grid]
            continue
        # mostly one of the three preceding atoms (usually the same residue), sometimes any earlier atom
        ref = atoms[idx - 1 - (spec['rel'] % min(idx, 3))] if spec['rel'] < 40 else atoms[spec['rel'] % idx]
        r1, r2 = BONDI.get(atom['element']), BONDI.get(ref['element'])
        if r1 is None or r2 is None:
            thr = 0.15 * fudge
        else:
            thr = 0.5 * (r1 + r2) * fudge
        d = thr * (1.0 + spec['eps'])
        pos = list(ref['pos'])
        pos[spec['axis']] += spec['sign'] * d
        atom['pos'] = pos
    return atoms


def build_system(case, atoms, ff):
    system = System(force_field=ff)
    by_mol = {}
    for a in atoms:
        by_mol.setdefault(a['mol'], []).append(a)
    pre = set()
    for mi, mol in enumerate(case['mols']):
        m = Molecule(force_field=ff)
        mine = by_mol.get(mi, [])
        for k, a in enumerate(mine):
            attrs = {'atomname': a['name'], 'resname': a['res'][3], 'resid': a['res'][2], 'chain': a['res'][1],
                     'tag': a['tag'], 'position': np.array(a['pos'], dtype=float)}
            if a['res'][4]:
                attrs['insertion_code'] = a['res'][4]
            if a['element'] is not None:
                attrs['element'] = a['element']
            if mol.get('stale') is not None:
                # what an earlier MakeBonds run (in another system) leaves on its output atoms
                attrs['mol_idx'] = mol['stale']
                attrs['_res_serial'] = mol['stale']
            m.add_node(k * mol['keystep'] + mol['key0'], **attrs)
        keys = list(m.nodes)
        for i, j in mol['pre_edges']:
            if len(keys) >= 2:
                ka, kb = keys[i % len(keys)], keys[j % len(keys)]
                if ka != kb:
                    m.add_edge(ka, kb, marker='pre')
                    pre.add(frozenset((m.nodes[ka]['tag'], m.nodes[kb]['tag'])))
        system.molecules.append(m)
    return system, pre


def dist(a, b):
    return math.sqrt(sum((a['pos'][k] - b['pos'][k]) ** 2 for k in range(3)))


def reference(case, atoms, blocks, pre):
    fudge = case['fudge']
    residues = {}
    for a in atoms:
        residues.setdefault(a['res'], []).append(a)
    name_edges = set()
    non_edges = set()
    name_resolved = {}
    if case['allow_name']:
        for key, members in residues.items():
            resname = key[3]
            names = [m['name'] for m in members]
            if resname in blocks and len(set(names)) == len(names):
                bnames, bedges = blocks[resname]
                present = {m['name']: m['tag'] for m in members if m['name'] in bnames}
                for n1 in present:
                    for n2 in present:
                        if n1 < n2:
                            pair = frozenset((present[n1], present[n2]))
                            if frozenset((n1, n2)) in bedges:
                                name_edges.add(pair)
                            else:
                                non_edges.add(pair)
                name_resolved[key] = 'resolved'
            elif resname in blocks:
                name_resolved[key] = 'duplicate-names'
            else:
                name_resolved[key] = 'unknown-residue'
    must = set(pre) | set(name_edges)
    may = set()
    reasons = {}
    near = False
    if case['allow_dist']:
        for i in range(len(atoms)):
            for j in range(i + 1, len(atoms)):
                a, b = atoms[i], atoms[j]
                pair = frozenset((a['tag'], b['tag']))
                r1, r2 = BONDI.get(a['element']), BONDI.get(b['element'])
                d = dist(a, b)
                if r1 is None or r2 is None:
                    if d <= 0.2 * fudge:
                        reasons[pair] = ('no-radius',)
                    continue
                thr = fudge * 0.5 * (r1 + r2)
                if abs(d - thr) <= 1e-5 * thr:
                    near = True
                if d > thr * (1 + 1e-9):
                    continue
                tie = abs(d - thr) <= 1e-9 * thr
                failed = []
                if pair in non_edges:
                    failed.append('block-non-edge')
                if a['element'] == 'H' and b['element'] == 'H':
                    failed.append('H-H')
                elif a['res'] != b['res'] and (a['element'] == 'H' or b['element'] == 'H'):
                    failed.append('H-other-residue')
                if failed:
                    reasons[pair] = tuple(failed)
                    continue
                if tie:
                    may.add(pair)
                else:
                    must.add(pair)
                    reasons[pair] = ('bond',)
    return must, may, reasons, near, residues, name_resolved, name_edges


def run(case):
    ff, blocks = build_ff(case)
    atoms = place(case)
    system, pre = build_system(case, atoms, ff)
    must, may, reasons, near, residues, name_resolved, name_edges = reference(case, atoms, blocks, pre)
    by_tag = {a['tag']: a for a in atoms}
    processor = MakeBonds(allow_name=case['allow_name'], allow_dist=case['allow_dist'], fudge=case['fudge'])
    used_before = len(atoms) % 2 == 1
    with capture_logs():
        if used_before:
            # the processor object has handled another system already (the same atoms, listed molecule by molecule in reverse)
            other, _ = build_system(dict(case, mols=list(reversed(case['mols']))), place(dict(case, mols=list(reversed(case['mols'])))), ff)
            processor.run_system(other)
        processor.run_system(system)
    # --- atoms preserved exactly once, molecules partition them
    seen = {}
    got_edges = {}
    for mi, mol in enumerate(system.molecules):
        for key in mol.nodes:
            node = mol.nodes[key]
            tag = node.get('tag')
            if tag in seen:
                raise Violation('atom-duplicated', 'atom %r appears in molecules %d and %d' % (tag, seen[tag], mi))
            seen[tag] = mi
            ref = by_tag.get(tag)
            if ref is None:
                raise Violation('atom-invented', 'unknown atom %r in output' % (tag,))
            if (node.get('atomname'), node.get('resname'), node.get('resid'), node.get('chain'), node.get('element')) != \
                    (ref['name'], ref['res'][3], ref['res'][2], ref['res'][1], ref['element']):
                raise Violation('atom-attributes', 'attributes of atom %r changed' % (tag,))
        for a, b, data in mol.edges(data=True):
            pair = frozenset((mol.nodes[a]['tag'], mol.nodes[b]['tag']))
            got_edges[pair] = data
    if set(seen) != set(by_tag):
        raise Violation('atom-lost', 'atoms %r missing from the output' % sorted(set(by_tag) - set(seen)))
    # --- residues intact, not fused, molecules connected on the residue level
    for key, members in residues.items():
        mols = set(seen[m['tag']] for m in members)
        if len(mols) != 1:
            raise Violation('residue-split', 'residue %r is spread over molecules %r' % (key, sorted(mols)))
    for mi, mol in enumerate(system.molecules):
        res_of = {}
        for key in mol.nodes:
            res_of[key] = by_tag[mol.nodes[key]['tag']]['res']
        rnodes = set(res_of.values())
        adj = {r: set() for r in rnodes}
        for a, b in mol.edges:
            if res_of[a] != res_of[b]:
                adj[res_of[a]].add(res_of[b])
                adj[res_of[b]].add(res_of[a])
        start = next(iter(rnodes))
        stack, reach = [start], {start}
        while stack:
            u = stack.pop()
            for v in adj[u]:
                if v not in reach:
                    reach.add(v)
                    stack.append(v)
        if reach != rnodes:
            raise Violation('molecule-disconnected', 'molecule %d contains residues not connected to each other: %r' % (mi, sorted(rnodes - reach)))
    # --- edges
    got = set(got_edges)
    missing = must - got
    extra = got - must - may
    if missing:
        pair = sorted(missing, key=sorted)[0]
        a, b = sorted(pair)
        kind = 'pre-existing' if pair in pre else ('name-based' if pair in name_edges else 'distance')
        raise Violation('missing-bond:' + kind, 'no bond between %s and %s (d=%.9f, fudge=%r) although %s' % (
            _fmt(by_tag[a]), _fmt(by_tag[b]), dist(by_tag[a], by_tag[b]), case['fudge'], kind + ' bond expected'))
    if extra:
        pair = sorted(extra, key=sorted)[0]
        a, b = sorted(pair)
        why = reasons.get(pair, ('too-far-or-no-criterion',))
        raise Violation('extra-bond:' + why[0], 'bond between %s and %s (d=%.9f, fudge=%r) violates %r' % (
            _fmt(by_tag[a]), _fmt(by_tag[b]), dist(by_tag[a], by_tag[b]), case['fudge'], why))
    for pair, data in got_edges.items():
        if pair in pre:
            if data.get('marker') != 'pre':
                raise Violation('pre-edge-attrs', 'attributes of a pre-existing bond changed')
            continue
        a, b = sorted(pair)
        d = dist(by_tag[a], by_tag[b])
        if 'distance' not in data or abs(data['distance'] - d) > 1e-9 * max(1.0, d):
            raise Violation('edge-distance', 'bond %r carries distance %r, actual %r' % (sorted(pair), data.get('distance'), d))
    # --- classification
    classes = set()
    deciders = set()
    for pair, why in reasons.items():
        if why != ('bond',) and len(why) == 1:
            deciders.add(why[0])
    for d in deciders:
        classes.add('rejected-by-' + d)
    if near:
        classes.add('near-threshold')
    if may:
        classes.add('tie')
    for v in set(name_resolved.values()):
        classes.add('residue-' + v)
    ids = {}
    for key in residues:
        ids.setdefault(key[1:], set()).add(key[0])
    if any(len(v) > 1 for v in ids.values()):
        classes.add('residue-identity-shared-across-molecules')
    stale = [m.get('stale') for m in case['mols']]
    if any(len(v) > 1 for v in ids.values()) and len([v for v in stale if v is not None]) >= 2 and \
            len(set(v for v in stale if v is not None)) < len([v for v in stale if v is not None]):
        classes.add('shared-identity-and-equal-stale-mol_idx')
    if used_before:
        classes.add('processor-object-used-before')
    if case['fudge'] < 1:
        classes.add('fudge<1')
    if any(a['element'] == 'Se' for a in atoms):
        classes.add('selenium')
    if len(system.molecules) > 1:
        classes.add('several-output-molecules')
    if pre:
        classes.add('pre-existing-bonds')
    if any(r == ('bond',) for r in reasons.values()):
        classes.add('distance-bond')
    return Outcome(sorted(classes), near and len(deciders) >= 2)


def _fmt(a):
    return '%s(%s,%s%s,mol%d)' % (a['name'], a['element'], a['res'][3], a['res'][2], a['mol'])


def strategy(tier):
    max_res = 4 if tier == 'quick' else 6
    elements = st.one_of(st.sampled_from(['C', 'C', 'N', 'O', 'H', 'H', 'H', 'S']), st.sampled_from(['C', 'H', 'H', 'O']), st.sampled_from(sorted(BONDI)),
                         st.sampled_from(NO_RADIUS), st.none())
    pos = st.one_of(
        st.fixed_dictionaries({'abs': st.lists(st.integers(-800, 800), min_size=3, max_size=3)}),
        st.fixed_dictionaries({'rel': st.integers(0, 50), 'axis': st.integers(0, 2), 'sign': st.sampled_from([1, -1]),
                               'eps': st.sampled_from([-1e-6, 1e-6, -1e-6, 1e-6, -0.3, 0.4, 0.0, -0.02, 0.02])}),
        st.fixed_dictionaries({'rel': st.integers(0, 50), 'axis': st.integers(0, 2), 'sign': st.sampled_from([1, -1]),
                               'eps': st.sampled_from([-1e-6, 1e-6, -0.3, 0.4])}),
    )
    atom = st.fixed_dictionaries({'name': st.sampled_from(ATOM_NAMES), 'element': elements, 'pos': pos})
    residue = st.fixed_dictionaries({
        'chain': st.sampled_from(['A', 'A', 'B']), 'resid': st.integers(1, 3),
        'resname': st.sampled_from(['ALA', 'ALA', 'LIG', 'UNK']), 'icode': st.sampled_from(['', '', 'A']),
        'atoms': st.one_of(st.lists(atom, min_size=1, max_size=6, unique_by=lambda a: a['name']),
                           st.lists(atom, min_size=1, max_size=6, unique_by=lambda a: a['name']),
                           st.lists(atom, min_size=2, max_size=6)),
    })
    mol = st.fixed_dictionaries({
        'residues': st.lists(residue, min_size=1, max_size=max_res),
        'pre_edges': st.lists(st.tuples(st.integers(0, 30), st.integers(0, 30)).map(list), max_size=3),
        'key0': st.sampled_from([0, 0, 5]), 'keystep': st.sampled_from([1, 1, 3]),
        'stale': st.sampled_from([None, None, None, 0, 0, 1, 7]),
    })
    block = st.fixed_dictionaries({
        'atoms': st.lists(st.sampled_from(ATOM_NAMES), min_size=2, max_size=6, unique=True),
        'edges': st.lists(st.tuples(st.integers(0, 5), st.integers(0, 5)).map(list), min_size=1, max_size=4),
        'keys': st.sampled_from(['names', 'names', 'numbers']),
    })
    return st.fixed_dictionaries({
        'blocks': st.tuples(block, block).map(lambda t: [dict(t[0], name='ALA'), dict(t[1], name='LIG')]),
        'mols': st.lists(mol, min_size=1, max_size=3),
        'fudge': st.sampled_from([0.5, 0.8, 1.0, 1.2, 1.2, 1.5, 2.0]),
        'allow_name': st.sampled_from([True, True, True, False]),
        'allow_dist': st.sampled_from([True, True, True, False]),
    })


PARTS = [
    Part('bonds', run, strategy=strategy, examples={'quick': 3200, 'thorough': 80000},
         floors={'near-threshold': 0.15, 'rejected-by-H-H': 0.02, 'rejected-by-H-other-residue': 0.03,
                 'rejected-by-block-non-edge': 0.02, 'rejected-by-no-radius': 0.1, 'residue-resolved': 0.3,
                 'residue-unknown-residue': 0.1, 'residue-duplicate-names': 0.05,
                 'residue-identity-shared-across-molecules': 0.04, 'fudge<1': 0.15, 'several-output-molecules': 0.1}),
]
