"""
C01  Resolution transformation conserves atoms, residues and connectivity.

Part `toy`: a pair of in-memory force fields aa -> cg (2-5 residue types, one
Mapping per type, optionally a two-residue mapping built with MappingBuilder
and a second mapping for one residue type), a residue tree of 1-8 residues with
shuffled sparse node keys and arbitrary residue numbers, run through
do_mapping / DoMapping and compared bead by bead with the prediction of the
independent reference pbt/c01_ref_mapping.py (no Mapping.map, no VF2/ISMAGS,
no merge_molecule): bead list in input order, attributes, consecutive resid,
charge groups, `_old_` attributes, `graph`, `mapping_weights`, intra-placement
edges and interactions, inter-placement edges, and the warnings in both
directions.

Part `shipped`: random residue sequences instantiated from the charmm blocks,
mapped to martini3001 with the complete shipped mapping collection and the
arguments bin/martinize2 passes.  The reference descriptions are derived from
the data of the shipped Mapping objects (fragment, weight table, target block),
then the same full comparison is applied (it implies the generic predicates:
weights equal the mapping table under the found placement, edges <=> bonded
constituents, heavy atoms contribute or are warned about, resids consecutive,
beads of one placement contiguous and in block order).
"""
import os

from hypothesis import strategies as st

from pbt.core import Part, Outcome, Violation
from pbt.util import capture_logs
from pbt import c01_ref_mapping as ref

import vermouth
from vermouth.forcefield import ForceField
from vermouth.molecule import Molecule, Block
from vermouth.system import System
from vermouth.map_parser import Mapping, MappingBuilder
from vermouth.processors.do_mapping import do_mapping, DoMapping

PROPERTY = 'C01'
LEVEL = 'exploration'
RULE = ('toy: 2-5 residue types (aa block: 1-7 uniquely named atoms, random tree + optional ring bond, elements C/N/O/S/P/H; '
        'cg block: 1-4 beads + optional bead nobody maps to, bonds/angles on the beads, charge groups, optional resid/resname), '
        'one Mapping per type (one-to-one, many-to-one, atom shared by two beads, zero weight, non-unit weights, unmapped H, '
        'unmapped heavy atom, no mapping at all; built directly or through MappingBuilder; optional weight normalisation), '
        'in 30% a two-residue mapping (MappingBuilder, block_from = two bonded residues, block_to = two cg residues or one), '
        'in 30% a second mapping for one type (same atoms = overlap, only its zero-weight atoms, a subtree taken from the first = one residue split over two placements, or any subset); molecule = '
        'residue tree of 1-8 residues (linear 60% / branched) + 0-2 cross links, residue numbers consecutive / with gaps / '
        'permuted / descending / equal for neighbours, node keys sequential / strided / residues reversed / fully shuffled with '
        'gaps, node insertion order natural / by key / reversed, in 25% of the molecules 1 residue in 6 misses an atom and 1 in 6 '
        'has a missing or extra intra-residue bond; attribute_keep/must/stash drawn (stash contains resid in >= 50%); called as do_mapping, '
        'DoMapping.run_molecule or DoMapping.run_system.  non-trivial = >= 2 placements and at least one of {branch point in the '
        'residue graph, bond between placements that are not neighbours in the output order, atom shared between beads, zero '
        'weight, bead built from no atom, placement order differs from residue order}; distinct by hash.  '
        'shipped: 1-12 residues from 20 amino acids instantiated from the charmm blocks, joined C-N (chain breaks 1 in 9), optional '
        'SG-SG cross link, in 20% one atom of one residue removed, residue numbers with gaps / descending / non-monotone, keys as '
        'in toy; mapped to martini3001 with all shipped mappings and the attribute arguments of bin/martinize2; same '
        'non-triviality rule.')
ASSUMPTIONS = [
    'a mapping fits where its mapped fragment is found as an induced subgraph with equal atom names / residue names / element (when the block states one) and where bonds stay inside / cross residues as in the mapping (doc: workflow 3); residue identity in the input = the resid attribute',
    'placements with the same lowest atom key (only possible when they overlap) may come in either order',
    'input atoms always carry resid, resname, atomname and element; H atoms that no mapping covers produce no warning (debug message only)',
    'a zero-weight atom is a constituent: it is in `graph`, counts as covered and can carry an inter-placement edge',
    'target blocks have residue indices and charge groups that do not decrease along the node order (what ffinput / MappingBuilder produce); resid and charge group of a placement follow the last bead placed before (Molecule.merge_molecule docstring, repo test test_no_residue_crossing)',
    'when placements overlap (inconsistent-data warning raised, output declared wrong by the message) additional edges inside one placement are tolerated if the constituents of the two beads are bonded; edges between placements still have to follow the statement exactly',
    'an attribute that is only in attribute_stash and that the target block does not provide may or may not also be copied without prefix (undocumented); the `_old_` copy is required',
    'when the constituents of a bead disagree on an attribute in keep/must/stash any of their values is accepted and an inconsistent-data warning is required (doc: workflow 3, third bullet)',
    'cases with more than %d placements (disconnected fragments fit on every combination of residues) are skipped' % 24,
    'reference atoms ([reference atoms] of .mapping files) are generated since finding F27 was fixed in /repo; VERIF_C01_REFERENCES=0 switches them off',
    'the parts toy and shipped generate no modification mappings (shipped hands the shipped ones over, but no input atom carries modifications); the part modification-mappings does',
    'resid is never in attribute_keep (the CLI passes it in attribute_stash)',
]

MAX_PLACEMENTS = 24
# Reference atoms of mappings ([reference atoms] in .mapping files, unused by
# the shipped data and not named in the property statement) are generated only
# on request: with them do_mapping copies *all* requested attributes of the
# reference atom, including the input resid, over the new particle (see
# notes/C01.md, side finding).  VERIF_C01_REFERENCES=1 switches them on; the
# matcher below lets a known_findings entry exclude exactly these cases.
WITH_REFERENCES = os.environ.get('VERIF_C01_REFERENCES', '1') == '1'
ELEMENTS = ['C', 'C', 'C', 'C', 'N', 'O', 'S', 'P', 'H', 'H', 'H', 'H']
WEIGHTS = [2, 3, 0.5, 0.25, 1.5]


# ---------------------------------------------------------------------------
# generator (few primitive draws, decoded deterministically)

def _ints(low, high, size):
    return st.lists(st.integers(low, high), min_size=size, max_size=size)


def _type_sizes(base):
    n = 1 + base[0] % 7
    one_to_one = base[1] % 7 == 0
    if one_to_one:
        n = min(n, 4)
    nb = n if one_to_one else 1 + base[2] % 4
    return n, nb, one_to_one


def _decode_type(tidx, base, A, B):
    """base: 16 ints; A: 3 per atom (parent, element, mapping code); B: 3 per
    bead (edge, charge group step, type/charge)."""
    n, nb, one_to_one = _type_sizes(base)
    T = {0: base[0], 1: base[1], 9: base[3], 10: base[4], 11: base[5], 19: base[6], 48: base[7], 29: base[8],
         30: base[9], 31: base[10], 36: base[11], 37: base[12], 38: base[13], 39: base[14], 47: base[15]}
    for i in range(n):
        if i:
            T[1 + i] = A[3 * i]       # parent of atom i
        T[12 + i] = A[3 * i + 1]
        T[40 + i] = A[3 * i + 2]
    for b in range(nb):
        T[21 + b] = B[3 * b]
        T[25 + b] = B[3 * b + 1]
        T[32 + b] = B[3 * b + 2]
    edges = [[T[1 + i] % i, i] for i in range(1, n)]
    if T[9] % 4 == 0 and n >= 3:
        a, b = T[10] % n, T[11] % n
        if a != b and [min(a, b), max(a, b)] not in [sorted(e) for e in edges]:
            edges.append([min(a, b), max(a, b)])
    atoms = [{'name': 'A%d' % i, 'element': ELEMENTS[T[12 + i] % 12]} for i in range(n)]
    beads = []
    cg_value = 1 + T[25] % 2
    has_cg = T[29] % 4 != 0
    has_resid = T[30] % 6 != 0
    resname_mode = T[31] % 4
    for b in range(nb):
        if b:
            cg_value += T[25 + b] % 2
        bead = {'name': 'B%d' % b, 'atype': 'P%d' % (T[32 + b] % 5), 'charge': (T[32 + b] % 5 - 2) * 0.5,
                'cg': cg_value if has_cg else None, 'resid': 1 if has_resid else None,
                'resname': ['R%d' % tidx, 'R%d' % tidx, 'X%d' % tidx, None][resname_mode]}
        if T[32 + b] % 3 == 0:
            bead['mass'] = 72.0
        beads.append(bead)
    bead_edges = []
    for b in range(1, nb):
        v = T[21 + b]
        if v % 6 != 0:
            bead_edges.append([(v // 6) % b, b])
    interactions = {}
    for k, (i, j) in enumerate(bead_edges):
        meta = {'ifdef': 'FLEX'} if (T[21 + j] // 36) % 4 == 0 else {}
        interactions.setdefault('bonds', []).append([[i, j], ['1', '0.%d' % (30 + k + tidx), '1250'], meta])
    if nb >= 3 and T[48] % 2 == 0:
        interactions.setdefault('angles', []).append([[0, 1, 2], ['2', '%d' % (100 + tidx), '25'], {}])
    if interactions.get('bonds') and (T[48] // 2) % 3 == 0:
        # several terms on the same atoms without a distinguishing version (as multi-term dihedrals in all-atom force
        # fields): every term of the block must be copied into every placement
        atoms0 = interactions['bonds'][0][0]
        interactions['bonds'].append([list(atoms0), ['6', '0.%d' % (40 + tidx), '300'], {}])
        if (T[48] // 6) % 2 == 0:
            interactions['bonds'].append([list(atoms0), ['1', '0.%d' % (30 + tidx), '1250'], {'comment': 'again'}])
    # the mapping table
    flags = T[38]
    shared_ok = flags % 2 == 0
    zero_ok = (flags // 2) % 3 == 0
    unh_ok = (flags // 6) % 2 == 0
    unheavy_ok = (flags // 12) % 5 == 0
    weights_ok = (flags // 48) % 3 == 0
    table = []
    for i in range(n):
        code = T[40 + i]
        sel = code % 12
        bead = (code // 12) % nb
        if one_to_one:
            entry = [[i, 1]]
        elif atoms[i]['element'] == 'H' and unh_ok and sel < 6:
            entry = []
        elif unheavy_ok and sel == 6:
            entry = []
        elif shared_ok and nb >= 2 and sel in (7, 8):
            second = (bead + 1 + (code // 48) % (nb - 1)) % nb
            w = [1, 1] if sel == 7 else [WEIGHTS[(code // 144) % 5], 1]
            entry = [[bead, w[0]], [second, w[1]]]
        elif zero_ok and sel in (9, 11):
            entry = [[bead, 0]]
        elif weights_ok and sel == 10:
            entry = [[bead, WEIGHTS[(code // 144) % 5]]]
        else:
            entry = [[bead, 1]]
        table.append(entry)
    if not any(table):
        table[0] = [[0, 1]]
    # a bead nobody maps to, inserted anywhere in the block
    if T[36] % 5 == 1:
        pos = T[37] % (nb + 1)
        dummy = {'name': 'D', 'atype': 'D', 'charge': 0.0,
                 'cg': (beads[pos - 1]['cg'] if pos else beads[0]['cg']) if has_cg else None,
                 'resid': 1 if has_resid else None, 'resname': beads[0]['resname']}
        beads.insert(pos, dummy)
        shift = lambda b: b + 1 if b >= pos else b
        bead_edges = [[shift(i), shift(j)] for i, j in bead_edges]
        for items in interactions.values():
            for item in items:
                item[0] = [shift(a) for a in item[0]]
        table = [[[shift(b), w] for b, w in entry] for entry in table]
        if T[37] % 2 == 0 and len(beads) >= 2:
            other = 0 if pos else 1
            bead_edges.append(sorted([pos, other]))
    references = []
    if WITH_REFERENCES and T[39] % 2 == 0:
        for b in range(len(beads)):
            mapped_here = [i for i, entry in enumerate(table) if any(bead == b for bead, _ in entry)]
            if mapped_here and (T[39] // 2 + b) % 2 == 0:
                references.append([b, mapped_here[(T[39] // 4) % len(mapped_here)]])
    return {'name': 'R%d' % tidx, 'atoms': atoms, 'edges': edges, 'block_element': T[19] % 2 == 0,
            'beads': beads, 'bead_edges': bead_edges, 'interactions': interactions,
            'map': table, 'has_mapping': T[47] % 16 != 7, 'builder': T[39] % 3 == 0, 'references': references}


def _decode_multi(types, M):
    t1, t2 = M[0] % len(types), M[1] % len(types)
    ty1, ty2 = types[t1], types[t2]
    n1, n2 = len(ty1['atoms']), len(ty2['atoms'])
    a1, a2 = M[2] % n1, M[3] % n2
    to_both = M[4] % 3 != 2
    nb1, nb2 = len(ty1['beads']), len(ty2['beads'])
    real1 = [b for b in range(nb1) if ty1['beads'][b]['name'] != 'D']
    real2 = [b for b in range(nb2) if ty2['beads'][b]['name'] != 'D']
    bead_link = None
    if to_both and M[7] % 3 != 0:
        bead_link = [real1[M[5] % len(real1)], real2[M[6] % len(real2)]]
    table = []
    for r, (ty, n) in enumerate(((ty1, n1), (ty2, n2))):
        for i in range(n):
            code = M[8 + 7 * r + i]
            entry = [list(x) for x in ty['map'][i]]
            forced = (r == 0 and i == a1) or (r == 1 and i == a2)
            if not entry and forced:
                entry = [[(real1 if r == 0 else real2)[0], 1]]
            if r == 1:
                if to_both:
                    entry = [[b + nb1, w] for b, w in entry]
                else:
                    entry = [[real1[(b + code) % len(real1)], w] for b, w in entry]
                    entry = [x for k, x in enumerate(entry) if x[0] not in [y[0] for y in entry[:k]]]
            if to_both and entry and code % 7 == 0:
                # this atom crosses to a bead of the other residue
                target = real2[code // 7 % len(real2)] + nb1 if r == 0 else real1[code // 7 % len(real1)]
                entry = [[target, entry[0][1]]]
            table.append(entry)
    return {'types': [t1, t2], 'link': [a1, a2], 'to_both': to_both, 'bead_link': bead_link, 'map': table,
            'drop_single': M[30] % 2 != 0}


def _decode_extra(types, X):
    """A second mapping for one residue type.  mode overlap: it covers the
    atoms the first mapping covers; mode split: a subtree of the residue is
    taken away from the first mapping and given to the second (no overlap, two
    placements per residue); mode mask: any subset."""
    t = X[0] % len(types)
    if X[1] % 3 == 0:
        with_zero = [k for k, cand in enumerate(types) if any(e and all(w == 0 for _, w in e) for e in cand['map'])]
        if with_zero:
            t = with_zero[X[0] % len(with_zero)]
    ty = types[t]
    n = len(ty['atoms'])
    mapped = [i for i in range(n) if ty['map'][i]]
    mode = X[1] % 4
    zero_only = [i for i in mapped if all(w == 0 for _, w in ty['map'][i])]
    if X[1] % 3 == 0 and zero_only:
        # overlaps the first mapping only on atoms that have weight zero there
        subset = zero_only
    elif mode == 0:
        subset = mapped
    elif mode in (1, 2) and n >= 2:
        root = 1 + X[2] % (n - 1)
        subset = [root]
        for parent, child in ty['edges'][:n - 1]:    # tree edges, children in ascending order
            if parent in subset:
                subset.append(child)
        rest = [i for i in mapped if i not in subset]
        if rest:
            for i in subset:
                ty['map'][i] = []
        # else: the first mapping would be left without atoms; stays an overlap
    else:
        mask = X[2] % (2 ** n - 1) + 1
        subset = [i for i in range(n) if mask >> i & 1]
    nbe = 1 + X[3] % 2
    return {'type': t, 'atoms': subset, 'beads': nbe, 'edge': nbe == 2 and X[4] % 2 == 0,
            'map': [X[5 + k] % nbe for k in range(len(subset))]}


def _decode_molecule(types, multi, head, RT, order_tape, C):
    n_res = len(RT)
    residues = []
    defects = head[14] % 4 == 1
    for ridx, R in enumerate(RT):
        parent = None
        if ridx:
            parent = ridx - 1 if R[2] % 10 < 6 else (R[2] // 10) % ridx
        if multi is not None and R[1] % 10 < 7:
            # partner of the parent in the two-residue mapping, else its first residue
            first, second = multi['types']
            tidx = second if parent is not None and residues[parent]['type'] == first and R[1] % 10 < 6 else first
        else:
            tidx = R[0] % len(types)
        n = len(types[tidx]['atoms'])
        missing = []
        if defects and R[6] % 6 == 0 and n >= 2:
            missing = [R[7] % n]
        residues.append({'type': tidx, 'missing': missing, 'parent': parent})
    scheme = head[11] % 5
    ranks = sorted(range(n_res), key=lambda i: (RT[i][5], i))
    perm = {i: rank for rank, i in enumerate(ranks)}
    for ridx, res in enumerate(residues):
        res['resid'] = [ridx + 1, 4 + 3 * ridx, 5 + 2 * perm[ridx], 100 - 7 * ridx, 1 + ridx // 2][scheme]
    chain_mode = head[12] % 3
    atoms = []   # canonical order: residue by residue
    index = {}
    for ridx, (res, R) in enumerate(zip(residues, RT)):
        ty = types[res['type']]
        chain = ['A', None, ['A', 'A', 'B', None][R[10] % 4]][chain_mode]
        tag = ['x', 'y', None][R[11] % 3]
        for aidx, atom in enumerate(ty['atoms']):
            if aidx in res['missing']:
                continue
            node = {'res': ridx, 'atom': aidx, 'resname': ty['name'], 'atomname': atom['name'],
                    'element': atom['element'], 'resid': res['resid']}
            if chain is not None:
                node['chain'] = chain
            if tag is not None:
                node['tag'] = tag
            index[(ridx, aidx)] = len(atoms)
            atoms.append(node)
    bonds = set()

    def present(ridx, aidx):
        n = len(types[residues[ridx]['type']]['atoms'])
        for k in range(n):
            cand = (aidx + k) % n
            if (ridx, cand) in index:
                return cand
        raise AssertionError('empty residue')

    def bond(x, y):
        if x != y:
            bonds.add((min(x, y), max(x, y)))

    for ridx, (res, R) in enumerate(zip(residues, RT)):
        ty = types[res['type']]
        intra = [e for e in ty['edges'] if (ridx, e[0]) in index and (ridx, e[1]) in index]
        if defects and R[8] % 12 == 0 and intra:
            intra.pop(R[9] % len(intra))
        elif defects and R[8] % 12 == 1:
            present_atoms = [a for a in range(len(ty['atoms'])) if (ridx, a) in index]
            free = [[a, b] for a in present_atoms for b in present_atoms
                    if a < b and [a, b] not in [sorted(e) for e in ty['edges']]]
            if free:
                intra.append(free[R[9] % len(free)])
        for a, b in intra:
            bond(index[(ridx, a)], index[(ridx, b)])
        if res['parent'] is not None:
            pidx = res['parent']
            ptype, ctype = residues[pidx]['type'], res['type']
            pa = R[3] % len(types[ptype]['atoms'])
            ca = R[4] % len(ty['atoms'])
            if multi is not None and R[5] % 4 != 0:
                if [ptype, ctype] == multi['types']:
                    pa, ca = multi['link']
                elif [ctype, ptype] == multi['types'] and R[5] % 2 == 0:
                    ca, pa = multi['link']
            bond(index[(pidx, present(pidx, pa))], index[(ridx, present(ridx, ca))])
    if n_res >= 2:
        for k in range(C[0] % 3 if C[0] % 2 == 0 else 0):  # C = [1]*9 -> none
            r1, r2 = C[1 + 4 * k] % n_res, C[2 + 4 * k] % n_res
            if r1 != r2:
                a1 = present(r1, C[3 + 4 * k] % len(types[residues[r1]['type']]['atoms']))
                a2 = present(r2, C[4 + 4 * k] % len(types[residues[r2]['type']]['atoms']))
                bond(index[(r1, a1)], index[(r2, a2)])
    # node keys
    key_scheme = head[8] % 5
    n_atoms = len(atoms)
    if key_scheme == 0:
        keys = list(range(n_atoms))
    elif key_scheme == 1:
        keys = [7 + 3 * i for i in range(n_atoms)]
    elif key_scheme == 2:
        keys = []
        nxt = 0
        by_res = {}
        for i, atom in enumerate(atoms):
            by_res.setdefault(atom['res'], []).append(i)
        keys = [None] * n_atoms
        for ridx in sorted(by_res, reverse=True):
            for i in by_res[ridx]:
                keys[i] = nxt
                nxt += 1
    else:
        order = sorted(range(n_atoms), key=lambda i: (order_tape[i], i))
        keys = [None] * n_atoms
        for rank, i in enumerate(order):
            keys[i] = 2 * rank + order_tape[i] % 2
    for atom, key in zip(atoms, keys):
        atom['key'] = key
    insertion = head[10] % 3
    bond_list = sorted([atoms[a]['key'], atoms[b]['key']] for a, b in bonds)
    if insertion == 1:
        atoms = sorted(atoms, key=lambda a: a['key'])
    elif insertion == 2:
        atoms = atoms[::-1]
        bond_list = bond_list[::-1]
    return atoms, bond_list


@st.composite
def _toy_case(draw):
    head = draw(_ints(0, 9999, 16))
    n_types = 2 + head[0] % 4
    n_res = 1 + head[1] % 8
    res_tape = draw(_ints(0, 9999, 12 * n_res))
    types = []
    for t in range(n_types):
        base = draw(_ints(0, 9999, 16))
        n, nb, _ = _type_sizes(base)
        types.append(_decode_type(t, base, draw(_ints(0, 9999, 3 * n)), draw(_ints(0, 9999, 3 * nb))))
    extra = _decode_extra(types, draw(_ints(0, 9999, 12))) if head[3] % 10 < 3 else None
    multi = _decode_multi(types, draw(_ints(0, 9999, 40))) if head[2] % 10 < 3 else None
    RT = [res_tape[12 * r:12 * r + 12] for r in range(n_res)]
    cross = draw(_ints(0, 9999, 9)) if n_res >= 2 and head[15] % 2 == 0 else [1] * 9
    # only the fully shuffled key schemes consume an ordering tape
    order_tape = draw(_ints(0, 999999, 7 * n_res)) if head[8] % 5 >= 3 else []
    atoms, bonds = _decode_molecule(types, multi, head, RT, order_tape, cross)
    keep = [[], ['chain'], ['chain', 'tag'], ['chain', 'resname'], ['tag']][head[5] % 5]
    must = [[], ['resname'], ['resname'], ['resname', 'chain'], ['tag']][head[6] % 5]
    stash = [['resid'], ['resid'], ['resid'], ['resid', 'chain'], ['resid', 'resname'], [], ['tag'], []][head[7] % 8]
    return {'types': types, 'multi': multi, 'extra': extra, 'atoms': atoms, 'bonds': bonds,
            'options': {'keep': keep, 'must': must, 'stash': stash},
            'nrexcl': 1 + head[9] % 3, 'normalize': head[13] % 4 == 0,
            'via': ['function', 'function', 'molecule', 'system'][head[4] % 4]}


def _strategy_toy(tier):
    return _toy_case()


# ---------------------------------------------------------------------------
# real objects from the case description

def _aa_block(ff, ty):
    block = Block(force_field=ff)
    block.name = ty['name']
    for atom in ty['atoms']:
        attrs = {'atomname': atom['name'], 'resname': ty['name'], 'resid': 1, 'atype': 'aa_' + atom['element'],
                 'charge': 0.0, 'charge_group': 1, 'mass': 12.0}
        if ty['block_element']:
            attrs['element'] = atom['element']
        block.add_node(atom['name'], **attrs)
    for a, b in ty['edges']:
        block.add_edge(ty['atoms'][a]['name'], ty['atoms'][b]['name'])
    return block


def _bead_attrs(bead):
    attrs = {'atomname': bead['name'], 'atype': bead['atype'], 'charge': bead['charge']}
    for name, key in (('cg', 'charge_group'), ('resid', 'resid'), ('resname', 'resname'), ('mass', 'mass')):
        if bead.get(name) is not None:
            attrs[key] = bead[name]
    return attrs


def _cg_block(ff, name, beads, bead_edges, interactions, nrexcl):
    block = Block(force_field=ff, nrexcl=nrexcl)
    block.name = name
    for bead in beads:
        block.add_node(bead['name'], **_bead_attrs(bead))
    for a, b in bead_edges:
        block.add_edge(beads[a]['name'], beads[b]['name'])
    for itype, items in interactions.items():
        for inter_atoms, params, meta in items:
            block.add_interaction(itype, [beads[a]['name'] for a in inter_atoms], list(params), meta=dict(meta))
    return block


def _match_attrs(ty, atom):
    attrs = {'atomname': atom['name'], 'resname': ty['name']}
    if ty['block_element']:
        attrs['element'] = atom['element']
    return attrs


def _live_references(ty):
    """Reference atoms that are (still) mapped: a later generation step may take atoms away from this mapping, and a
    reference to an atom that is not part of the mapping is not a valid mapping file."""
    return [(bead, atom) for bead, atom in ty.get('references', []) if ty['map'][atom]]


def _spec_beads(beads, resid_offset=0, cg_offset=0):
    return [{'attrs': {k: v for k, v in _bead_attrs(bead).items() if k not in ('resid', 'charge_group')},
             'resid': (bead['resid'] or 1) + resid_offset, 'cg': (bead['cg'] or 1) + cg_offset} for bead in beads]


def _normalizable(table):
    sums = {}
    for entry in table:
        for bead, weight in entry:
            sums[bead] = sums.get(bead, 0) + weight
    return all(s > 0 for s in sums.values())


def build(case):
    """Force fields, real Mapping objects, the input molecule, and the
    reference descriptions of the same mappings."""
    ff_aa = ForceField(name='c01_aa')
    ff_cg = ForceField(name='c01_cg')
    nrexcl = case['nrexcl']
    types = case['types']
    multi = case['multi']
    dropped = set(multi['types']) if multi is not None and multi['drop_single'] else set()
    mappings = {}
    specs = []
    aa_blocks, cg_blocks = [], []
    for ty in types:
        aa = _aa_block(ff_aa, ty)
        cg = _cg_block(ff_cg, ty['name'], ty['beads'], ty['bead_edges'], ty['interactions'], nrexcl)
        ff_aa.blocks[ty['name']] = aa
        ff_cg.blocks[ty['name']] = cg
        aa_blocks.append(aa)
        cg_blocks.append(cg)
    for tidx, ty in enumerate(types):
        if not ty['has_mapping'] or tidx in dropped:
            continue
        normalize = case['normalize'] and not ty['builder'] and _normalizable(ty['map'])
        if ty['builder']:
            builder = MappingBuilder()
            builder.from_ff(ff_aa.name)
            builder.to_ff(ff_cg.name)
            builder.add_block_from(aa_blocks[tidx])
            builder.add_name(ty['name'])
            builder.add_block_to(cg_blocks[tidx])
            for atom, entry in zip(ty['atoms'], ty['map']):
                for bead, weight in entry:
                    builder.add_mapping({'atomname': atom['name']}, {'atomname': ty['beads'][bead]['name']}, weight)
            for bead, atom in _live_references(ty):
                builder.add_reference({'atomname': ty['beads'][bead]['name']}, {'atomname': ty['atoms'][atom]['name']})
            mapping = builder.get_mapping('block')
        else:
            table = {atom['name']: {ty['beads'][bead]['name']: weight for bead, weight in entry}
                     for atom, entry in zip(ty['atoms'], ty['map']) if entry}
            references = {ty['beads'][bead]['name']: ty['atoms'][atom]['name'] for bead, atom in _live_references(ty)}
            mapping = Mapping(aa_blocks[tidx], cg_blocks[tidx], mapping=table, references=references,
                              ff_from=ff_aa, ff_to=ff_cg, names=(ty['name'],), extra=(),
                              normalize_weights=normalize)
        mappings[ty['name']] = mapping
        specs.append(ref.MappingSpec(
            ty['name'],
            [(i, _match_attrs(ty, atom), 1) for i, atom in enumerate(ty['atoms'])],
            [tuple(e) for e in ty['edges']],
            {i: [tuple(x) for x in entry] for i, entry in enumerate(ty['map'])},
            _spec_beads(ty['beads']), ty['bead_edges'],
            {k: [(tuple(a), p, m) for a, p, m in v] for k, v in ty['interactions'].items()},
            normalize=normalize, references={bead: atom for bead, atom in _live_references(ty)}))
    if multi is not None:
        t1, t2 = multi['types']
        ty1, ty2 = types[t1], types[t2]
        n1 = len(ty1['atoms'])
        nb1 = len(ty1['beads'])
        builder = MappingBuilder()
        builder.from_ff(ff_aa.name)
        builder.to_ff(ff_cg.name)
        builder.add_block_from(aa_blocks[t1])
        builder.add_name(ty1['name'])
        builder.add_block_from(aa_blocks[t2])
        builder.add_name(ty2['name'])
        builder.add_edge_from({'resid': 1, 'atomname': ty1['atoms'][multi['link'][0]]['name']},
                              {'resid': 2, 'atomname': ty2['atoms'][multi['link'][1]]['name']}, {})
        builder.add_block_to(cg_blocks[t1])
        beads = [dict(b) for b in ty1['beads']]
        spec_beads = _spec_beads(ty1['beads'])
        bead_edges = [list(e) for e in ty1['bead_edges']]
        interactions = {k: [(tuple(a), p, m) for a, p, m in v] for k, v in ty1['interactions'].items()}
        bead_res = [1] * nb1
        if multi['to_both']:
            builder.add_block_to(cg_blocks[t2])
            # "residue index of the new atoms are offset to follow the last atom"
            spec_beads += _spec_beads(ty2['beads'], resid_offset=spec_beads[-1]['resid'], cg_offset=spec_beads[-1]['cg'])
            bead_res += [2] * len(ty2['beads'])
            beads += [dict(b) for b in ty2['beads']]
            bead_edges += [[a + nb1, b + nb1] for a, b in ty2['bead_edges']]
            for k, v in ty2['interactions'].items():
                interactions.setdefault(k, []).extend((tuple(x + nb1 for x in a), p, m) for a, p, m in v)
            if multi['bead_link'] is not None:
                b1, b2 = multi['bead_link']
                builder.add_edge_to({'resid': spec_beads[b1]['resid'], 'atomname': beads[b1]['name']},
                                    {'resid': spec_beads[b2 + nb1]['resid'], 'atomname': beads[b2 + nb1]['name']}, {})
                bead_edges.append([b1, b2 + nb1])
        flat_atoms = [(1, i, ty1['atoms'][i]) for i in range(n1)] + [(2, i, a) for i, a in enumerate(ty2['atoms'])]
        for (res, i, atom), entry in zip(flat_atoms, multi['map']):
            for bead, weight in entry:
                builder.add_mapping({'resid': res, 'atomname': atom['name']},
                                    {'resid': spec_beads[bead]['resid'], 'atomname': beads[bead]['name']}, weight)
        mappings['multi'] = builder.get_mapping('block')
        from_nodes = [((res, i), _match_attrs(ty1 if res == 1 else ty2, atom), res) for res, i, atom in flat_atoms]
        from_edges = ([((1, a), (1, b)) for a, b in ty1['edges']] + [((2, a), (2, b)) for a, b in ty2['edges']]
                      + [((1, multi['link'][0]), (2, multi['link'][1]))])
        specs.append(ref.MappingSpec(
            'multi', from_nodes, from_edges,
            {(res, i): [tuple(x) for x in entry] for (res, i, _), entry in zip(flat_atoms, multi['map'])},
            spec_beads, bead_edges, interactions))
    extra = case['extra']
    if extra is not None:
        ty = types[extra['type']]
        beads = [{'name': 'E%d' % b, 'atype': 'E', 'charge': 0.0, 'cg': 1, 'resid': 1, 'resname': ty['name']}
                 for b in range(extra['beads'])]
        bead_edges = [[0, 1]] if extra['edge'] else []
        block = _cg_block(ff_cg, ty['name'] + 'x', beads, bead_edges, {}, nrexcl)
        table = {ty['atoms'][a]['name']: {beads[b]['name']: 1} for a, b in zip(extra['atoms'], extra['map'])}
        mappings[ty['name'] + 'x'] = Mapping(aa_blocks[extra['type']], block, mapping=table, references={},
                                             ff_from=ff_aa, ff_to=ff_cg, names=(ty['name'],), extra=())
        specs.append(ref.MappingSpec(
            ty['name'] + 'x',
            [(i, _match_attrs(ty, atom), 1) for i, atom in enumerate(ty['atoms'])],
            [tuple(e) for e in ty['edges']],
            {a: [(b, 1)] for a, b in zip(extra['atoms'], extra['map'])},
            _spec_beads(beads), bead_edges, {}))
    mol = Molecule(force_field=ff_aa)
    atoms = {}
    for atom in case['atoms']:
        attrs = {k: v for k, v in atom.items() if k not in ('res', 'atom', 'key')}
        mol.add_node(atom['key'], **attrs)
        atoms[atom['key']] = dict(attrs)
    bonds = set()
    for a, b in case['bonds']:
        mol.add_edge(a, b)
        bonds.add(frozenset((a, b)))
    return ff_aa, ff_cg, {ff_aa.name: {ff_cg.name: mappings}}, mol, atoms, bonds, specs


# ---------------------------------------------------------------------------
# comparison

def _close(got, want):
    try:
        return abs(float(got) - float(want)) <= 1e-12 * max(1.0, abs(float(want)))
    except (TypeError, ValueError):
        return False


def _signature(node):
    weights = node.get('mapping_weights') or {}
    try:
        items = sorted((k, float(w)) for k, w in weights.items())
    except (TypeError, ValueError):
        items = None
    return (node.get('atomname'), items)


def _resolve_order(groups, out_nodes):
    """Fix the order inside groups of placements with the same lowest key by
    looking at what the output has at that position (depth-first over the
    members whose predicted bead names and weights are found there)."""
    def fits(cand, offset):
        sig = cand.signature()
        actual = [_signature(node) for node in out_nodes[offset:offset + len(sig)]]
        return len(actual) == len(sig) and all(
            a[0] == s[0] and a[1] is not None and len(a[1]) == len(s[1])
            and all(x[0] == y[0] and _close(x[1], y[1]) for x, y in zip(a[1], s[1]))
            for a, s in zip(actual, sig))

    def search(remaining, offset):
        if not remaining:
            return []
        tried = []
        for k, cand in enumerate(remaining):
            sig = cand.signature()
            if sig in tried or not fits(cand, offset):
                continue
            tried.append(sig)
            rest = search(remaining[:k] + remaining[k + 1:], offset + len(sig))
            if rest is not None:
                return [cand] + rest
        return None

    ordered = []
    offset = 0
    tie = False
    for group in groups:
        if len(group) > 1:
            tie = True
            found = search(list(group), offset)
            group = found if found is not None else group
        ordered.extend(group)
        offset += sum(len(p.spec.beads) for p in group)
    return ordered, tie


def _run_real(case, mappings, ff_cg, mol, warm=None):
    options = case['options']
    kwargs = dict(attribute_keep=tuple(options['keep']), attribute_must=tuple(options['must']),
                  attribute_stash=tuple(options['stash']))
    if case['via'] == 'function':
        return do_mapping(mol, mappings, ff_cg, **kwargs)
    processor = DoMapping(mappings, ff_cg, **kwargs)
    if warm is not None:
        # the processor object (and the mappings / force field it holds) has served a molecule before
        try:
            processor.run_molecule(warm)
        except Exception:  # pylint: disable=broad-except
            pass    # the same input is judged on the molecule of the case
    if case['via'] == 'molecule':
        return processor.run_molecule(mol)
    system = System(force_field=mol.force_field)
    system.add_molecule(mol)
    processor.run_system(system)
    if system.force_field is not ff_cg:
        raise Violation('system-force-field', 'run_system left the system with force field %r' % (system.force_field,))
    if len(system.molecules) > 1:
        raise Violation('system-molecules', 'run_system produced %d molecules from one' % len(system.molecules))
    return system.molecules[0] if system.molecules else None


def compare(out, pred, ordered, atoms, bonds, logs, case_label=''):
    """Full two-directional comparison of the output with the prediction."""
    out_keys = sorted(out.nodes)
    if list(out.nodes) != out_keys:
        raise Violation('node-order', 'output nodes are not stored in ascending key order: %r' % (list(out.nodes),))
    if len(out_keys) != len(pred.beads):
        raise Violation('bead-count', 'expected %d particles (%s), output has %d (%s)' % (
            len(pred.beads), [b['fixed'].get('atomname') for b in pred.beads], len(out_keys),
            [out.nodes[k].get('atomname') for k in out_keys]))
    index_of = {key: i for i, key in enumerate(out_keys)}
    for i, (key, bead) in enumerate(zip(out_keys, pred.beads)):
        node = dict(out.nodes[key])
        label = 'particle #%d (placement %d of mapping %s, bead %d)' % (
            i, bead['placement'], ordered[bead['placement']].spec.name, bead['bead'])
        graph = node.pop('graph', None)
        weights = node.pop('mapping_weights', None)
        if weights is None or graph is None:
            raise Violation('no-bookkeeping', '%s has no graph / mapping_weights' % label)
        want_w = bead['weights']
        if set(weights) != set(want_w):
            raise Violation('weights-atoms', '%s: mapping_weights lists atoms %r, the mapping assigns %r' % (
                label, sorted(weights), sorted(want_w)))
        for atom_key, value in want_w.items():
            if not _close(weights[atom_key], value):
                raise Violation('weights-values', '%s: weight of atom %r is %r, the mapping assigns %r' % (
                    label, atom_key, weights[atom_key], float(value)))
        if set(graph.nodes) != set(want_w):
            raise Violation('graph-atoms', '%s: graph holds atoms %r, constituents are %r' % (
                label, sorted(graph.nodes), sorted(want_w)))
        want_gedges = {b for b in bonds if b <= set(want_w)}
        got_gedges = {frozenset(e) for e in graph.edges}
        if got_gedges != want_gedges:
            raise Violation('graph-edges', '%s: graph has bonds %r, the input has %r among these atoms' % (
                label, sorted(map(sorted, got_gedges)), sorted(map(sorted, want_gedges))))
        for atom_key in want_w:
            for attr in ('atomname', 'resname', 'resid'):
                if graph.nodes[atom_key].get(attr) != atoms[atom_key].get(attr):
                    raise Violation('graph-attributes', '%s: graph atom %r has %s=%r, input %r' % (
                        label, atom_key, attr, graph.nodes[atom_key].get(attr), atoms[atom_key].get(attr)))
        for attr, value in bead['fixed'].items():
            if attr not in node or node[attr] != value:
                bucket = {'resid': 'resid', 'charge_group': 'charge-group'}.get(attr, 'bead-attribute')
                raise Violation(bucket, '%s: %s is %r, expected %r (node %r)' % (
                    label, attr, node.get(attr, '<absent>'), value, node))
        for attr, values in bead['choice'].items():
            if attr not in node or node[attr] not in values:
                bucket = 'stash' if attr.startswith('_old_') else 'transferred-attribute'
                raise Violation(bucket, '%s: %s is %r, the constituent atoms have %r' % (
                    label, attr, node.get(attr, '<absent>'), values))
        for attr, values in bead['optional'].items():
            if attr in node and node[attr] not in values:
                raise Violation('transferred-attribute', '%s: %s is %r, the constituent atoms have %r' % (
                    label, attr, node[attr], values))
        unexpected = set(node) - set(bead['fixed']) - set(bead['choice']) - set(bead['optional'])
        if unexpected:
            raise Violation('extra-attribute', '%s carries unexpected attributes %r' % (
                label, {k: node[k] for k in unexpected}))
    # edges
    got_edges = set()
    for a, b in out.edges:
        if a == b:
            raise Violation('self-edge', 'particle %r is bonded to itself' % (a,))
        got_edges.add(frozenset((index_of[a], index_of[b])))
    want_edges = pred.edges()

    def describe(pair):
        i, j = sorted(pair)
        return '#%d(%s, placement %d) - #%d(%s, placement %d)' % (
            i, pred.beads[i]['fixed'].get('atomname'), pred.beads[i]['placement'],
            j, pred.beads[j]['fixed'].get('atomname'), pred.beads[j]['placement'])
    missing = want_edges - got_edges
    if missing:
        pair = sorted(missing, key=sorted)[0]
        kind = 'inter' if pair in pred.inter_edges else 'block'
        raise Violation('edge-missing-' + kind, 'no edge %s; %s' % (
            describe(pair), 'constituent atoms are bonded in the input' if kind == 'inter' else 'it is an edge of the target block'))
    surplus = got_edges - want_edges
    if pred.overlap_atoms:
        surplus = {pair for pair in surplus if not (
            pair in pred.bonded_pairs
            and len({pred.beads[i]['placement'] for i in pair}) == 1)}
    if surplus:
        pair = sorted(surplus, key=sorted)[0]
        same = len({pred.beads[i]['placement'] for i in pair}) == 1
        raise Violation('edge-extra-' + ('block' if same else 'inter'), 'edge %s is neither in the target block nor backed by bonded constituents' % describe(pair))
    # interactions
    got_inter = {}
    for itype, items in out.interactions.items():
        for item in items:
            got_inter.setdefault(itype, []).append((tuple(index_of.get(a, a) for a in item.atoms),
                                                    list(item.parameters), dict(item.meta)))
    if got_inter != pred.interactions:
        for itype in sorted(set(got_inter) | set(pred.interactions)):
            if got_inter.get(itype) != pred.interactions.get(itype):
                raise Violation('interactions', '%s in the output: %r, expected copies of the target blocks: %r' % (
                    itype, got_inter.get(itype), pred.interactions.get(itype)))
    return got_edges


def check_warnings(logs, pred, edges):
    records = [r for r in logs.records if r.levelno >= 30]
    types = [getattr(r, 'type', 'general') for r in records]
    other = [t for t in types if t not in ('unmapped-atom', 'inconsistent-data')]
    if other:
        raise Violation('unexpected-warning', 'warnings of type %r: %r' % (other, logs.messages()))
    split = pred.split_atoms(edges)
    reasons = []
    if pred.overlap_atoms:
        reasons.append('placements overlap on atoms %r' % sorted(pred.overlap_atoms))
    if pred.clash_beads:
        reasons.append('constituents disagree on %r' % (pred.clash_beads,))
    if split:
        reasons.append('atoms %r build particles that are not connected' % (split,))
    if reasons and 'inconsistent-data' not in types:
        bucket = 'overlap-not-warned' if pred.overlap_atoms else 'inconsistency-not-warned'
        raise Violation(bucket, 'no inconsistent-data warning although %s' % '; '.join(reasons))
    if not reasons and 'inconsistent-data' in types:
        raise Violation('spurious-inconsistent-data', 'inconsistent-data warning on a consistent case: %r' % (logs.messages(),))
    if pred.uncovered_heavy and 'unmapped-atom' not in types:
        raise Violation('vanished-silently', 'non-hydrogen atoms %r contribute to no particle and no unmapped-atom warning was raised' % (pred.uncovered_heavy,))
    if not pred.uncovered_heavy and 'unmapped-atom' in types:
        raise Violation('spurious-unmapped-atom', 'unmapped-atom warning although every non-hydrogen atom contributes: %r' % (logs.messages(),))
    return {'overlap': bool(pred.overlap_atoms), 'clash': bool(pred.clash_beads), 'split': bool(split)}


def _snapshot(mol):
    return ({k: dict(v) for k, v in mol.nodes.items()}, {frozenset(e) for e in mol.edges})


def _run_toy(case):
    ff_aa, ff_cg, mappings, mol, atoms, bonds, specs = build(case)
    options = case['options']
    try:
        placements = ref.all_placements(atoms, bonds, specs, limit=MAX_PLACEMENTS)
    except ref.TooManyPlacements:
        return Outcome(['skipped-too-many-placements'], False)
    before = _snapshot(mol)
    warm = None
    if case['via'] != 'function' and len(atoms) % 2 == 0:
        warm = build(case)[3]
    with capture_logs() as logs:
        out = _run_real(case, mappings, ff_cg, mol, warm)
    if _snapshot(mol) != before:
        raise Violation('input-modified', 'the input molecule was changed by the transformation')
    classes = ['via-' + case['via']]
    if out is None:
        if placements:
            raise Violation('bead-count', 'run_system dropped a molecule with %d placements' % len(placements))
        out = Molecule(force_field=ff_cg)
    groups = ref.tie_groups(placements)
    out_nodes = [out.nodes[k] for k in sorted(out.nodes)]
    ordered, tie = _resolve_order(groups, out_nodes)
    pred = ref.Prediction(atoms, bonds, ordered, options['keep'], options['must'], options['stash'])
    got_edges = compare(out, pred, ordered, atoms, bonds, logs)
    if ordered and out.nrexcl != case['nrexcl']:
        raise Violation('nrexcl', 'output nrexcl %r, target blocks have %r' % (out.nrexcl, case['nrexcl']))
    if out.force_field is not ff_cg:
        raise Violation('force-field', 'output force field is %r' % (out.force_field,))
    facts = check_warnings(logs, pred, got_edges if pred.overlap_atoms else pred.edges())

    # ---- classification
    n_place = len(ordered)
    classes.append('placements:%s' % (n_place if n_place < 4 else '4+'))
    res_of = {a['key']: a['res'] for a in case['atoms']}
    res_adj = {}
    for a, b in case['bonds']:
        ra, rb = res_of[a], res_of[b]
        if ra != rb:
            res_adj.setdefault(ra, set()).add(rb)
            res_adj.setdefault(rb, set()).add(ra)
    branch = any(len(v) >= 3 for v in res_adj.values())
    crosslinked = sum(len(v) for v in res_adj.values()) // 2 > max(0, len(set(res_of.values())) - 1)
    nonadjacent = any(abs(pred.beads[i]['placement'] - pred.beads[j]['placement']) > 1
                      for i, j in map(tuple, pred.inter_edges))
    shared = zero = False
    for placement in ordered:
        count = {}
        for bidx, weights in enumerate(placement.bead_weights):
            if placement.no_atom[bidx]:
                continue
            for key, w in weights.items():
                count[key] = count.get(key, 0) + 1
                if w == 0:
                    zero = True
        if any(c > 1 for c in count.values()):
            shared = True
    no_atom = any(b['no_atom'] for b in pred.beads)
    first_res = [min(res_of[k] for k in p.atoms) for p in ordered]
    nonmonotone = first_res != sorted(first_res)
    multi_placed = any(p.spec.name == 'multi' for p in ordered)
    features = {'branch-point': branch, 'nonadjacent-bond': nonadjacent, 'shared-atom': shared, 'zero-weight': zero,
                'no-atom-bead': no_atom, 'nonmonotone-order': nonmonotone}
    for name, flag in features.items():
        if flag and n_place >= 2:
            classes.append(name)
    if crosslinked:
        classes.append('cross-linked')
    if multi_placed:
        classes.append('two-residue-placed')
        if any(p.spec.name == 'multi' and len({b['resid'] for b in p.spec.beads}) == 2 for p in ordered):
            classes.append('two-residue-to-two-residues')
    if case['multi'] is not None and not multi_placed:
        classes.append('two-residue-not-fitting')
    if facts['overlap']:
        classes.append('overlap')
        if not facts['clash'] and not facts['split']:
            classes.append('overlap-only-reason')

            def first_weights(key):
                for placement in ordered:
                    if key in placement.atoms:
                        return [w[key] for w, empty in zip(placement.bead_weights, placement.no_atom) if key in w and not empty]
                return []
            if all(all(w == 0 for w in first_weights(key)) for key in pred.overlap_atoms):
                classes.append('overlap-on-zero-weight-atoms-only-reason')
    if facts['clash']:
        classes.append('attribute-clash')
    if facts['split']:
        classes.append('split-atom-warning')
    if tie:
        classes.append('tie')
    if pred.uncovered_heavy:
        classes.append('unmapped-heavy')
        mapped_names = {s.name for s in specs}
        covered_res = {res_of[k] for k in pred.covered}
        if any(res_of[k] not in covered_res and atoms[k]['resname'] in mapped_names for k in pred.uncovered_heavy):
            classes.append('mapping-does-not-fit')
    elif pred.uncovered_hydrogen:
        classes.append('unmapped-hydrogen-only')
    if not pred.uncovered_heavy and not (facts['overlap'] or facts['clash'] or facts['split']):
        classes.append('clean')
        if n_place >= 2:
            classes.append('clean-multi-placement')
    per_res = {}
    for p in ordered:
        for r in {res_of[k] for k in p.atoms}:
            per_res[r] = per_res.get(r, 0) + 1
    if any(v > 1 for v in per_res.values()) and not facts['overlap']:
        classes.append('residue-split-over-placements')
    if 'resid' in options['stash']:
        classes.append('stash-resid')
        if n_place >= 2 and any(b['choice'].get('_old_resid') != [b['fixed']['resid']] for b in pred.beads):
            classes.append('old-resid-differs')
    if any(s.normalize for s in specs):
        classes.append('normalized')
    if len({a['resid'] for a in case['atoms']}) < len(set(res_of.values())):
        classes.append('duplicate-resid')
    if n_place == 0:
        classes.append('nothing-placed')
    nontrivial = n_place >= 2 and any(features.values())
    if nontrivial:
        classes.append('nontrivial')
    return Outcome(sorted(set(classes)), nontrivial)


# ---------------------------------------------------------------------------
# part: shipped (real blocks and mappings)

AMINO_ACIDS = ['ALA', 'ARG', 'ASN', 'ASP', 'CYS', 'GLN', 'GLU', 'GLY', 'HIS', 'ILE', 'LEU', 'LYS', 'MET', 'PHE',
               'PRO', 'SER', 'THR', 'TRP', 'TYR', 'VAL']
# doc (workflow 3, footnote): "All attributes except a few that are not always defined must match"
NOT_MATCHED = ('atype', 'charge', 'charge_group', 'mass', 'resid', 'replace', '_old_atomname')
_REAL = {}


def _spec_from_mapping(name, mapping):
    """Reference description from the *data* of a shipped Mapping object
    (fragment, weight table, target block); Mapping.map is not used."""
    bead_index = {bead: i for i, bead in enumerate(mapping.block_to.nodes)}
    from_nodes = [(node, {k: v for k, v in attrs.items() if k not in NOT_MATCHED}, attrs.get('resid'))
                  for node, attrs in mapping.block_from.nodes(data=True)]
    table = {node: [(bead_index[bead], weight) for bead, weight in targets.items()]
             for node, targets in mapping.mapping.items()}
    beads = [{'attrs': {k: v for k, v in attrs.items() if k not in ('resid', 'charge_group')},
              'resid': attrs.get('resid', 1), 'cg': attrs.get('charge_group', 1)}
             for _, attrs in mapping.block_to.nodes(data=True)]
    interactions = {}
    for itype, items in mapping.block_to.interactions.items():
        if items:
            interactions[itype] = [(tuple(bead_index[a] for a in item.atoms), list(item.parameters), dict(item.meta))
                                   for item in items]
    return ref.MappingSpec(str(name), from_nodes, list(mapping.block_from.edges), table, beads,
                           [(bead_index[a], bead_index[b]) for a, b in mapping.block_to.edges], interactions)


def preload():
    from pathlib import Path
    from vermouth.map_input import read_mapping_directory
    force_fields = vermouth.forcefield.find_force_fields(Path(vermouth.DATA_PATH) / 'force_fields')
    mappings = read_mapping_directory(Path(vermouth.DATA_PATH) / 'mappings', force_fields)
    _REAL['ff_aa'] = force_fields['charmm']
    _REAL['ff_cg'] = force_fields['martini3001']
    _REAL['mappings'] = mappings
    _REAL['specs'] = [_spec_from_mapping(name, mapping)
                      for name, mapping in mappings['charmm']['martini3001'].items() if mapping.type == 'block']


@st.composite
def _shipped_case(draw):
    head = draw(_ints(0, 9999, 8))
    n_res = 1 + head[0] % 12
    R = draw(_ints(0, 9999, 3 * n_res))
    sequence = [AMINO_ACIDS[R[3 * i] % 20] for i in range(n_res)]
    if head[1] % 3 == 0 and n_res >= 2:
        sequence[R[1] % n_res] = 'CYS'
        sequence[R[2] % n_res] = 'CYS'
    cys = [i for i, name in enumerate(sequence) if name == 'CYS']
    disulfide = [cys[0], cys[-1]] if len(cys) >= 2 and head[1] % 3 != 2 else None
    scheme = head[2] % 4
    resids = [[i + 1, 10 + 3 * i, 200 - 2 * i, 1 + (i * 7) % 13 + 20 * (i // 13)][scheme] for i in range(n_res)]
    removed = None
    if head[3] % 5 == 0:
        removed = [R[4 % len(R)] % n_res, R[5 % len(R)]]
    breaks = [i for i in range(1, n_res) if R[3 * i + 1] % 9 == 0]
    key_scheme = head[4] % 4
    order = draw(_ints(0, 999999, 30 * n_res)) if key_scheme == 3 else []
    return {'sequence': sequence, 'resids': resids, 'disulfide': disulfide, 'removed': removed, 'breaks': breaks,
            'chains': ['A' if R[3 * i + 2] % 4 else 'B' for i in range(n_res)] if head[5] % 3 == 0 else ['A'] * n_res,
            'key_scheme': key_scheme, 'order': order, 'insertion': head[6] % 3,
            'via': ['system', 'system', 'function'][head[7] % 3]}


def _strategy_shipped(tier):
    return _shipped_case()


def _build_shipped(case):
    ff_aa = _REAL['ff_aa']
    flat = []       # (residue index, atom name)
    edges = []
    for ridx, name in enumerate(case['sequence']):
        block = ff_aa.blocks[name]
        names = list(block.nodes)
        if case['removed'] is not None and case['removed'][0] == ridx:
            victim = names[case['removed'][1] % len(names)]
            names.remove(victim)
        for atom in names:
            flat.append((ridx, atom))
        edges += [((ridx, a), (ridx, b)) for a, b in block.edges if a in names and b in names]
        if ridx and ridx not in case['breaks'] and 'N' in names and (ridx - 1, 'C') in flat:
            edges.append(((ridx - 1, 'C'), (ridx, 'N')))
    if case['disulfide'] is not None:
        a, b = case['disulfide']
        if (a, 'SG') in flat and (b, 'SG') in flat:
            edges.append(((a, 'SG'), (b, 'SG')))
    n = len(flat)
    if case['key_scheme'] == 0:
        keys = list(range(n))
    elif case['key_scheme'] == 1:
        keys = [5 + 2 * i for i in range(n)]
    elif case['key_scheme'] == 2:
        keys = [None] * n
        nxt = 0
        for ridx in reversed(range(len(case['sequence']))):
            for i, (r, _) in enumerate(flat):
                if r == ridx:
                    keys[i] = nxt
                    nxt += 1
    else:
        ranks = sorted(range(n), key=lambda i: (case['order'][i], i))
        keys = [None] * n
        for rank, i in enumerate(ranks):
            keys[i] = 3 * rank + case['order'][i] % 3
    key_of = dict(zip(flat, keys))
    mol = Molecule(force_field=ff_aa)
    atoms = {}
    entries = list(zip(flat, keys))
    if case['insertion'] == 1:
        entries.sort(key=lambda e: e[1])
    elif case['insertion'] == 2:
        entries.reverse()
    res_of = {}
    for (ridx, atom), key in entries:
        block_attrs = ff_aa.blocks[case['sequence'][ridx]].nodes[atom]
        attrs = {'atomname': block_attrs['atomname'], 'resname': case['sequence'][ridx], 'resid': case['resids'][ridx],
                 'chain': case['chains'][ridx], 'element': block_attrs['atomname'][0], 'atomid': key + 1}
        mol.add_node(key, **attrs)
        atoms[key] = dict(attrs)
        res_of[key] = ridx
    bonds = set()
    for a, b in edges:
        mol.add_edge(key_of[a], key_of[b])
        bonds.add(frozenset((key_of[a], key_of[b])))
    return mol, atoms, bonds, res_of


def _run_shipped(case):
    ff_cg = _REAL['ff_cg']
    mol, atoms, bonds, res_of = _build_shipped(case)
    keep, must, stash = ('cgsecstruct', 'chain', 'secstruct'), ('resname',), ('resid',)   # as bin/martinize2
    placements = ref.all_placements(atoms, bonds, _REAL['specs'])
    before = _snapshot(mol)
    with capture_logs() as logs:
        if case['via'] == 'function':
            out = do_mapping(mol, _REAL['mappings'], ff_cg, attribute_keep=keep, attribute_must=must,
                             attribute_stash=stash)
        else:
            system = System(force_field=mol.force_field)
            system.add_molecule(mol)
            DoMapping(_REAL['mappings'], ff_cg, attribute_keep=keep, attribute_must=must,
                      attribute_stash=stash).run_system(system)
            out = system.molecules[0] if system.molecules else Molecule(force_field=ff_cg)
    if _snapshot(mol) != before:
        raise Violation('input-modified', 'the input molecule was changed by the transformation')
    groups = ref.tie_groups(placements)
    ordered, tie = _resolve_order(groups, [out.nodes[k] for k in sorted(out.nodes)])
    pred = ref.Prediction(atoms, bonds, ordered, keep, must, stash)
    got_edges = compare(out, pred, ordered, atoms, bonds, logs)
    facts = check_warnings(logs, pred, got_edges if pred.overlap_atoms else pred.edges())
    # the generic predicates of the design, stated directly
    resids = [out.nodes[k]['resid'] for k in sorted(out.nodes)]
    if resids and (resids[0] != 1 or any(b - a not in (0, 1) for a, b in zip(resids, resids[1:]))):
        raise Violation('resid', 'output residue numbers are not consecutive: %r' % (resids,))
    classes = ['residues:%s' % ('1' if len(case['sequence']) == 1 else '2-5' if len(case['sequence']) <= 5 else '6-12')]
    n_place = len(ordered)
    first_res = [min(res_of[k] for k in p.atoms) for p in ordered]
    features = {
        'nonmonotone-order': first_res != sorted(first_res),
        'nonadjacent-bond': any(abs(pred.beads[i]['placement'] - pred.beads[j]['placement']) > 1
                                for i, j in map(tuple, pred.inter_edges)),
        'shared-atom': any(len(set(v)) > 1 for v in pred.owners.values()),
        'zero-weight': any(w == 0 for b in pred.beads for w in b['weights'].values()),
        'disulfide': case['disulfide'] is not None,
    }
    for name, flag in features.items():
        if flag and n_place >= 2:
            classes.append(name)
    if pred.uncovered_heavy:
        classes.append('unmapped-heavy')
    elif pred.uncovered_hydrogen:
        classes.append('unmapped-hydrogen-only')
    else:
        classes.append('clean')
    if case['breaks']:
        classes.append('chain-break')
    if any(b['choice'].get('_old_resid') != [b['fixed']['resid']] for b in pred.beads):
        classes.append('old-resid-differs')
    if facts['split'] or facts['clash'] or facts['overlap']:
        classes.append('inconsistent-data')
    nontrivial = n_place >= 2 and any(features[k] for k in ('nonmonotone-order', 'nonadjacent-bond', 'shared-atom', 'zero-weight'))
    if nontrivial:
        classes.append('nontrivial')
    return Outcome(sorted(set(classes)), nontrivial)


def _match_reference_atoms(params, part_name, case, violation):
    return part_name == 'toy' and any(ty.get('references') for ty in case.get('types', []))


MATCHERS = {'reference_atoms': _match_reference_atoms}

PARTS = [
    Part('toy', _run_toy, strategy=_strategy_toy, examples={'quick': 2400, 'thorough': 40000},
         floors={'nontrivial': 0.4, 'branch-point': 0.12, 'nonadjacent-bond': 0.2, 'shared-atom': 0.08, 'zero-weight': 0.05,
                 'no-atom-bead': 0.25, 'nonmonotone-order': 0.15, 'two-residue-placed': 0.05,
                 'two-residue-to-two-residues': 0.03, 'overlap': 0.12, 'overlap-only-reason': 0.01, 'clean': 0.18,
                 'clean-multi-placement': 0.1, 'unmapped-heavy': 0.15, 'unmapped-hydrogen-only': 0.08,
                 'mapping-does-not-fit': 0.04, 'stash-resid': 0.5, 'old-resid-differs': 0.2, 'cross-linked': 0.02,
                 'residue-split-over-placements': 0.015, 'normalized': 0.08, 'via-system': 0.1}),
    Part('shipped', _run_shipped, strategy=_strategy_shipped, examples={'quick': 160, 'thorough': 3000},
         shrink_budget={'quick': 40, 'thorough': 400}, max_rounds=3,   # ~0.25 s per case
         floors={'nontrivial': 0.4, 'shared-atom': 0.05, 'unmapped-heavy': 0.1, 'clean': 0.3, 'nonmonotone-order': 0.1,
                 'disulfide': 0.05, 'nonadjacent-bond': 0.1}),
]

from pbt import c01_modmap  # noqa: E402

PARTS = PARTS + c01_modmap.PARTS
RULE = RULE + ' ' + c01_modmap.RULE_TEXT
_preload_main = preload


def preload():   # noqa: F811
    _preload_main()
    c01_modmap.preload()
