"""
Independent reader for GROMACS ITP text, written for the C02 harness from the
GROMACS file format description (topology file, "molecule.itp" layout), NOT
from the repository's writer or reader.  No vermouth import on purpose.

What it understands

* ``; comment`` to the end of the line (kept, because the in-memory comment of an
  interaction is part of what must survive),
* blank lines,
* ``[ section ]`` headers; a section name may occur several times, every
  occurrence is returned separately and in file order,
* the preprocessor lines ``#ifdef X`` / ``#ifndef X`` / ``#else`` / ``#endif``
  as a stack (every data line carries the stack that was open when it was read),
  ``#define NAME value...`` and ``#include`` (recorded, not followed),
* the column layout of ``[ moleculetype ]`` and ``[ atoms ]``,
* how many leading columns of an interaction line are atom indices
  (``ATOM_COUNT``), with the two irregular layouts ``exclusions`` (all columns
  are atoms) and ``virtual_sitesn`` (site, function type, then the constructing
  atoms).
"""
import collections


class ITPFormatError(Exception):
    """The text is not a well formed ITP."""


Line = collections.namedtuple('Line', 'tokens comment guard lineno')
Section = collections.namedtuple('Section', 'name guard lines lineno')
Define = collections.namedtuple('Define', 'name value guard lineno')
Atom = collections.namedtuple('Atom', 'nr atype resnr resname atomname cgnr charge mass guard lineno')
Bonded = collections.namedtuple('Bonded', 'atoms parameters comment guard lineno')

# Number of leading atom-index columns per directive (GROMACS manual, table
# "Details of [ moleculetype ] directives").
ATOM_COUNT = {
    'bonds': 2, 'pairs': 2, 'pairs_nb': 2, 'angles': 3, 'dihedrals': 4,
    'constraints': 2, 'settles': 1, 'position_restraints': 1,
    'virtual_sites2': 3, 'virtual_sites3': 4, 'virtual_sites4': 5,
    'distance_restraints': 2, 'dihedral_restraints': 4,
    'orientation_restraints': 2, 'angle_restraints': 4,
    'angle_restraints_z': 2, 'cmap': 5, 'polarization': 2,
    'thole_polarization': 4, 'water_polarization': 5,
}


def parse(text):
    """
    Returns ``(sections, defines, includes, preamble)``.

    sections: list[Section] in file order; ``Section.lines`` holds the data
    lines (``Line``) — comment-only lines are kept too, with ``tokens == []``.
    preamble: lines before the first section header.
    """
    sections = []
    defines = []
    includes = []
    preamble = []
    stack = []
    current = None
    for lineno, raw in enumerate(text.split('\n'), 1):
        if ';' in raw:
            data, comment = raw.split(';', 1)
            comment = comment.strip()
        else:
            data, comment = raw, None
        data = data.strip()
        if not data and comment is None:
            continue
        if data.startswith('#'):
            words = data.split()
            directive = words[0]
            if directive in ('#ifdef', '#ifndef'):
                if len(words) != 2:
                    raise ITPFormatError('line %d: %s needs exactly one name: %r' % (lineno, directive, raw))
                stack.append((directive[1:], words[1]))
            elif directive == '#else':
                if not stack:
                    raise ITPFormatError('line %d: #else without open conditional' % lineno)
                kind, name = stack.pop()
                stack.append(('ifndef' if kind == 'ifdef' else 'ifdef', name))
            elif directive == '#endif':
                if not stack:
                    raise ITPFormatError('line %d: #endif without open conditional' % lineno)
                if len(words) != 1:
                    raise ITPFormatError('line %d: text after #endif: %r' % (lineno, raw))
                stack.pop()
            elif directive == '#define':
                if len(words) < 2:
                    raise ITPFormatError('line %d: #define without a name' % lineno)
                defines.append(Define(words[1], ' '.join(words[2:]), tuple(stack), lineno))
            elif directive == '#include':
                includes.append((' '.join(words[1:]), tuple(stack), lineno))
            else:
                raise ITPFormatError('line %d: unknown preprocessor line %r' % (lineno, raw))
            continue
        if data.startswith('['):
            if not data.endswith(']'):
                raise ITPFormatError('line %d: malformed section header %r' % (lineno, raw))
            name = data[1:-1].strip()
            if not name or len(name.split()) != 1:
                raise ITPFormatError('line %d: malformed section name %r' % (lineno, raw))
            current = Section(name, tuple(stack), [], lineno)
            sections.append(current)
            continue
        line = Line(data.split(), comment, tuple(stack), lineno)
        if current is None:
            preamble.append(line)
        else:
            current.lines.append(line)
    if stack:
        raise ITPFormatError('end of file with open conditional(s) %r' % (stack,))
    return sections, defines, includes, preamble


def _as_int(token, what, lineno):
    try:
        value = int(token)
    except ValueError:
        raise ITPFormatError('line %d: %s %r is not an integer' % (lineno, what, token)) from None
    if str(value) != token:
        # "+3", "03", "1_0" are accepted by int() but are not plain indices
        raise ITPFormatError('line %d: %s %r is not a plain integer' % (lineno, what, token))
    return value


def _as_float(token, what, lineno):
    try:
        return float(token)
    except ValueError:
        raise ITPFormatError('line %d: %s %r is not a number' % (lineno, what, token)) from None


def read_moleculetype(lines):
    """``name nrexcl`` -> (str, int); exactly one data line."""
    data = [ln for ln in lines if ln.tokens]
    if len(data) != 1 or len(data[0].tokens) != 2:
        raise ITPFormatError('[ moleculetype ] must hold one line "name nrexcl", got %r'
                             % ([ln.tokens for ln in data],))
    name, nrexcl = data[0].tokens
    return name, _as_int(nrexcl, 'nrexcl', data[0].lineno)


def read_atom(line):
    """``nr type resnr residue atom cgnr [charge [mass]]``"""
    tokens = line.tokens
    if not 6 <= len(tokens) <= 8:
        raise ITPFormatError('line %d: an [ atoms ] line has 6 to 8 columns, got %r' % (line.lineno, tokens))
    charge = mass = None
    if len(tokens) >= 7:
        charge = _as_float(tokens[6], 'charge', line.lineno)
    if len(tokens) == 8:
        mass = _as_float(tokens[7], 'mass', line.lineno)
    return Atom(nr=_as_int(tokens[0], 'atom nr', line.lineno), atype=tokens[1],
                resnr=_as_int(tokens[2], 'resnr', line.lineno), resname=tokens[3],
                atomname=tokens[4], cgnr=_as_int(tokens[5], 'cgnr', line.lineno),
                charge=charge, mass=mass, guard=line.guard, lineno=line.lineno)


def read_interaction(section_name, line, atom_count=None):
    """
    Split a data line of an interaction section in atom indices and parameter
    tokens.  `atom_count` is needed for directives that are not in ATOM_COUNT
    (layout then is the generic "atoms first, parameters after").
    """
    tokens = line.tokens
    if section_name == 'exclusions':
        atoms, parameters = tokens, []
    elif section_name == 'virtual_sitesn':
        if len(tokens) < 2:
            raise ITPFormatError('line %d: virtual_sitesn needs "site funct atoms...": %r' % (line.lineno, tokens))
        atoms, parameters = [tokens[0]] + tokens[2:], [tokens[1]]
    else:
        count = ATOM_COUNT.get(section_name, atom_count)
        if count is None:
            raise ITPFormatError('line %d: unknown number of atoms for [ %s ]' % (line.lineno, section_name))
        if len(tokens) < count:
            raise ITPFormatError('line %d: [ %s ] needs %d atoms, line has %r' % (line.lineno, section_name, count, tokens))
        atoms, parameters = tokens[:count], tokens[count:]
    atoms = tuple(_as_int(tok, 'atom index in [ %s ]' % section_name, line.lineno) for tok in atoms)
    return Bonded(atoms, tuple(parameters), line.comment, line.guard, line.lineno)
