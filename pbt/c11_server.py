"""
Pipeline server for C11: a long-lived subprocess (started with a given
PYTHONHASHSEED) that runs the real `entry()` of bin/martinize2 in process for
each request, with the force-field / mapping loaders memoised so that the 7 s
loading cost is paid once per process.

Protocol: one JSON object per line on stdin -> one JSON object per line on stdout.
request  {"pdb": <text>, "args": [...extra CLI args...]}
response {"ok": true, "exit": 0, "files": {name: text}, "warnings": [[type, n], ...]} | {"ok": false, "error": ...}
"""
import importlib.machinery
import importlib.util
import io
import json
import logging
import os
import shutil
import sys
import tempfile
import traceback
import warnings


def main():
    warnings.filterwarnings('ignore')
    repo = os.environ['VERIF_REPO']
    sys.path.insert(0, repo)
    real_stdout = sys.stdout
    sys.stdout = io.StringIO()   # the CLI prints; keep the protocol channel clean
    import vermouth
    import vermouth.forcefield
    from vermouth.file_writer import DeferredFileWriter
    path = os.path.join(repo, 'bin', 'martinize2')
    loader = importlib.machinery.SourceFileLoader('martinize2_cli', path)
    spec = importlib.util.spec_from_loader('martinize2_cli', loader)
    cli = importlib.util.module_from_spec(spec)
    loader.exec_module(cli)
    # silence the console handler (stderr) but keep the counter
    cli.CONSOLE_HANDLER.setLevel(100)

    cache = {}

    def memo(name, func):
        def wrapper(*args, **kwargs):
            key = (name, repr(args[0]) if args else None, len(args))
            if name == 'find_force_fields' and len(args) > 1:
                return func(*args, **kwargs)
            if key not in cache:
                cache[key] = func(*args, **kwargs)
            return cache[key]
        return wrapper

    vermouth.forcefield.find_force_fields = memo('find_force_fields', vermouth.forcefield.find_force_fields)
    cli.read_mapping_directory = memo('read_mapping_directory', cli.read_mapping_directory)
    orig_self = cli.generate_all_self_mappings

    def self_mappings(force_fields):
        if 'self' not in cache:
            cache['self'] = orig_self(force_fields)
        return cache['self']
    cli.generate_all_self_mappings = self_mappings

    home = os.getcwd()
    real_stdout.write(json.dumps({'ready': True, 'hashseed': os.environ.get('PYTHONHASHSEED')}) + '\n')
    real_stdout.flush()
    for line in sys.stdin:
        line = line.strip()
        if not line:
            continue
        req = json.loads(line)
        if req.get('quit'):
            break
        tmp = tempfile.mkdtemp(prefix='c11_', dir='/dev/shm' if os.path.isdir('/dev/shm') else None)
        resp = {}
        try:
            os.chdir(tmp)
            with open('input.pdb', 'w') as fh:
                fh.write(req['pdb'])
            cli.COUNTER.counts.clear()
            DeferredFileWriter().close()
            sys.argv = ['martinize2', '-f', 'input.pdb', '-x', 'cg.pdb', '-o', 'topol.top'] + list(req['args']) + ['-maxwarn', '1000000']
            sys.stdout = io.StringIO()
            code = 0
            try:
                cli.entry()
            except SystemExit as exc:
                code = exc.code if isinstance(exc.code, int) else (0 if exc.code is None else 1)
            files = {}
            for name in sorted(os.listdir('.')):
                if name == 'input.pdb' or name.startswith('#'):
                    continue
                if os.path.isfile(name):
                    with open(name, errors='replace') as fh:
                        files[name] = fh.read()
            warn = []
            for lvl, d in cli.COUNTER.counts.items():
                if lvl >= logging.WARNING:
                    for typ, n in d.items():
                        warn.append([str(typ), n])
            resp = {'ok': True, 'exit': code, 'files': files, 'warnings': sorted(warn)}
        except BaseException as exc:  # pylint: disable=broad-except
            resp = {'ok': False, 'error': '%s: %s' % (type(exc).__name__, exc), 'traceback': traceback.format_exc()[-4000:]}
        finally:
            os.chdir(home)
            try:
                DeferredFileWriter().close()
            except Exception:  # pylint: disable=broad-except
                pass
            shutil.rmtree(tmp, ignore_errors=True)
        real_stdout.write(json.dumps(resp) + '\n')
        real_stdout.flush()


if __name__ == '__main__':
    main()
