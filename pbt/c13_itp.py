"""
C13, Gromacs-style .itp files (vermouth.gmx.itp_read.read_itp).

itp-model    an abstract .itp file (1-3 moleculetypes; [ atoms ]; interaction sections in any order, repeated;
             #ifdef/#ifndef/#else/#endif regions around lines or around whole sections; #define lines) is serialised by
             the harness with random legal layout and loaded with read_itp; the force field is compared item by item with
             the expectation computed from the abstract model.
itp-faults   one fault is injected into a valid generated file; read_itp must raise.
itp-vsites1  probe for the documented Gromacs directive [ virtual_sites1 ] (site + one constructing atom).
itp-short-line  probe: too few atom columns in [ virtual_sites4 ] / [ dihedral_restraints ] / [ angle_restraints ].

Reference for the expectation: the Gromacs topology format (doc/source/data.rst: "Blocks can be defined through
Gromacs' .itp ... file formats"), the docstrings of itp_read.py and the repository's own tests for the representation
(node key = atom id - 1, attribute 'index' = atom id, interactions refer to node keys, parameters are the remaining
tokens, a line inside "#ifdef X" carries meta {'ifdef': 'X'}, inside the "#else" branch the inverted condition).
"""
from hypothesis import strategies as st

from pbt.core import Part, Outcome, Violation

from vermouth.forcefield import ForceField
from vermouth.gmx.itp_read import read_itp

# section -> number of leading atom columns (Gromacs manual, table "topology file"), 'all' = every token is an atom,
# 'vsn' = site, function type, constructing atoms.
SECTIONS = {
    'bonds': 2, 'pairs': 2, 'pairs_nb': 2, 'angles': 3, 'dihedrals': 4, 'constraints': 2,
    'position_restraints': 1, 'settles': 1, 'virtual_sites2': 3, 'virtual_sites3': 4, 'virtual_sites4': 5,
    'distance_restraints': 2, 'dihedral_restraints': 4, 'orientation_restraints': 2, 'angle_restraints': 4,
    'angle_restraints_z': 2, 'exclusions': 'all', 'virtual_sitesn': 'vsn',
}
SECTION_NAMES = sorted(SECTIONS)
# the common sections are drawn more often
COMMON = ['bonds', 'angles', 'dihedrals', 'constraints', 'exclusions', 'virtual_sitesn', 'pairs', 'position_restraints']
ATOM_NAMES = ['BB', 'SC1', 'SC2', 'SC3', 'CA', 'CB', 'N', 'O1']
RESNAMES = ['ALA', 'GLY', 'LYS', 'PO4']
ATYPES = ['P5', 'C1', 'Qd', 'SP2', 'TC3']
PARAM_TOKENS = ['0.47', '1250', '180', '5', '0.1', '-0.5', '1e3', '25.0', 'bb_fc', '0']
TAGS = ['FLEXIBLE', 'POSRES', 'GO_VIRT']
CHARGES = ['0', '0.0', '1.0', '-1', '-0.5', '0.25']
MASSES = ['72', '72.0', '36.0', '0', '54.5']


# ---------------------------------------------------------------------------
# strategies

def _functs(sec):
    if sec == 'dihedrals':
        return ['1', '9', '3']      # proper dihedral function types only
    return ['1', '2', '6']


# Lines are drawn as a few integers and turned into an explicit description by assemble() (no dependent draws).
_RAW_LINE = st.fixed_dictionaries({'a': st.integers(0, 6 ** 5 - 1), 'k': st.integers(2, 5), 'f': st.integers(0, 2),
                                   'p': st.lists(st.sampled_from(PARAM_TOKENS), max_size=3)})


def _cond(inner):
    return st.fixed_dictionaries({
        't': st.just('cond'), 'kind': st.sampled_from(['ifdef', 'ifndef']), 'tag': st.sampled_from(TAGS),
        'then': st.lists(inner, min_size=1, max_size=2),
        'else': st.one_of(st.none(), st.none(), st.lists(inner, min_size=1, max_size=2)),
    })


def _section(plain=False):
    item = _RAW_LINE if plain else st.one_of(_RAW_LINE, _RAW_LINE, _RAW_LINE, _cond(_RAW_LINE))
    return st.fixed_dictionaries({'t': st.just('sec'), 'sec': st.one_of(st.sampled_from(COMMON), st.sampled_from(SECTION_NAMES)),
                                  'items': st.lists(item, min_size=1, max_size=3)})


_ATOM = st.fixed_dictionaries({
    'name': st.sampled_from(ATOM_NAMES), 'atype': st.sampled_from(ATYPES), 'resid': st.integers(1, 3),
    'resname': st.sampled_from(RESNAMES), 'cgnr': st.integers(1, 6),
    'charge': st.one_of(st.none(), st.sampled_from(CHARGES)),
    'mass': st.one_of(st.none(), st.sampled_from(MASSES)),
})
_CHUNK = st.one_of(_section(), _section(), _section(), _cond(_section(plain=True)).map(lambda c: dict(c, t='condsecs')))
_BLOCK = st.fixed_dictionaries({'suffix': st.sampled_from(['A', 'B', 'C']), 'nrexcl': st.integers(0, 3),
                                'atoms': st.lists(_ATOM, min_size=1, max_size=5), 'body': st.lists(_CHUNK, max_size=4)})


def _assemble_line(sec, raw, n):
    digits, a = [], raw['a']
    for _ in range(5):
        digits.append((a % 6) % n)
        a //= 6
    spec = SECTIONS[sec]
    if spec == 'all':
        return {'atoms': digits[:raw['k']], 'params': []}
    if spec == 'vsn':
        return {'atoms': digits[:raw['k']], 'params': [['1', '2'][raw['f'] % 2]]}
    functs = _functs(sec)
    return {'atoms': digits[:spec], 'params': [functs[raw['f'] % len(functs)]] + list(raw['p'])}


def assemble(raw):
    blocks = []
    for i, rb in enumerate(raw['blocks']):
        n = len(rb['atoms'])

        def section(chunk, n=n):
            def item(it):
                if it.get('t') == 'cond':
                    return dict(it, then=[_assemble_line(chunk['sec'], l, n) for l in it['then']],
                                **{'else': None if it['else'] is None else [_assemble_line(chunk['sec'], l, n) for l in it['else']]})
                return _assemble_line(chunk['sec'], it, n)
            return {'t': 'sec', 'sec': chunk['sec'], 'items': [item(it) for it in chunk['items']]}
        body = []
        for chunk in rb['body']:
            if chunk['t'] == 'sec':
                body.append(section(chunk))
            else:
                body.append(dict(chunk, then=[section(c) for c in chunk['then']],
                                 **{'else': None if chunk['else'] is None else [section(c) for c in chunk['else']]}))
        blocks.append({'name': 'M%d%s' % (i, rb['suffix']), 'nrexcl': rb['nrexcl'], 'atoms': rb['atoms'], 'body': body})
    return {'blocks': blocks, 'layout': raw['layout']}


def file_strategy(tier):
    return st.fixed_dictionaries({'blocks': st.lists(_BLOCK, min_size=1, max_size=3), 'layout': st.integers(0, 2 ** 30)}).map(assemble)


# ---------------------------------------------------------------------------
# serialisation: returns a list of records {'text', 'kind', ...}

class Layout:
    """Deterministic layout choices derived from one drawn integer (layout only, never content)."""

    def __init__(self, seed):
        self.state = seed * 2654435761 % (2 ** 32) or 1

    def pick(self, n):
        self.state = (self.state * 1103515245 + 12345) % (2 ** 31)
        return (self.state >> 8) % n

    def sep(self):
        return [' ', '  ', '\t', '    '][self.pick(4)]


def serialise(case):
    lay = Layout(case['layout'])
    out = []

    def noise():
        k = lay.pick(12)
        if k == 0:
            out.append({'text': '', 'kind': 'blank'})
        elif k == 1:
            out.append({'text': ['; a comment line', ' ;indented comment [ bonds ]', ';#ifdef NOT_A_PRAGMA'][lay.pick(3)], 'kind': 'comment'})
        elif k == 2:
            out.append({'text': ['#define FLEXIBLE', '#define bb_fc 1250', '#define  X  1 ; def'][lay.pick(3)], 'kind': 'define'})

    def header(name, **info):
        shown = name.upper() if lay.pick(10) == 0 else name
        text = ['[ %s ]', '[%s]', '[  %s  ]', ' [ %s ]', '[ %s ] ; comment'][lay.pick(5)] % shown
        out.append(dict(info, text=text, kind='header', sec=name))
        noise()

    def data(tokens, **info):
        text = ['', ' ', '\t', '   '][lay.pick(4)] + lay.sep().join(tokens)
        if lay.pick(4) == 0:
            text += [' ; trailing comment', ';c', '  ; 1 2 3'][lay.pick(3)]
        out.append(dict(info, text=text, kind='data'))
        noise()

    def pragma(text, **info):
        text = ['', '', ' '][lay.pick(3)] + text + ['', '', '  '][lay.pick(3)]
        out.append(dict(info, text=text, kind='pragma'))
        noise()

    def line_tokens(sec, line):
        atoms = [str(i + 1) for i in line['atoms']]
        if SECTIONS[sec] == 'vsn':
            return [atoms[0]] + list(line['params']) + atoms[1:]
        return atoms + list(line['params'])

    def emit_cond(cond, emit_inner, bidx):
        pragma('#%s%s%s' % (cond['kind'], [' ', '  ', '\t'][lay.pick(3)], cond['tag']), block=bidx, role='open')
        for inner in cond['then']:
            emit_inner(inner, True)
        if cond['else'] is not None:
            pragma('#else', block=bidx, role='else')
            for inner in cond['else']:
                emit_inner(inner, True)
        pragma('#endif', block=bidx, role='close')

    for bidx, block in enumerate(case['blocks']):
        natoms = len(block['atoms'])
        header('moleculetype', block=bidx)
        if lay.pick(3) == 0:
            out.append({'text': '; name  nrexcl', 'kind': 'comment'})
        data([block['name'], str(block['nrexcl'])], block=bidx, sec='moleculetype', role='moltype')
        header('atoms', block=bidx)
        for i, atom in enumerate(block['atoms'], 1):
            toks = [str(i), atom['atype'], str(atom['resid']), atom['resname'], atom['name'], str(atom['cgnr'])]
            if atom['charge'] is not None:
                toks.append(atom['charge'])
                if atom['mass'] is not None:
                    toks.append(atom['mass'])
            data(toks, block=bidx, sec='atoms', role='atom')

        def emit_section(chunk, in_cond=False, bidx=bidx, natoms=natoms):
            sec = chunk['sec']
            header(sec, block=bidx)

            def emit_line(line, in_cond2=False):
                data(line_tokens(sec, line), block=bidx, sec=sec, role='interaction', natoms=natoms,
                     arity=SECTIONS[sec], in_cond=in_cond or in_cond2)
            for item in chunk['items']:
                if item.get('t') == 'cond':
                    emit_cond(item, emit_line, bidx)
                else:
                    emit_line(item)

        for chunk in block['body']:
            if chunk['t'] == 'sec':
                emit_section(chunk)
            else:
                emit_cond(chunk, emit_section, bidx)
    return out


def text_of(records):
    return '\n'.join(r['text'] for r in records) + '\n'


# ---------------------------------------------------------------------------
# expectation (from the abstract model only)

def expected(case):
    blocks = []
    for block in case['blocks']:
        nodes = []
        for i, atom in enumerate(block['atoms']):
            attrs = {'index': i + 1, 'atomname': atom['name'], 'atype': atom['atype'], 'resname': atom['resname'],
                     'resid': atom['resid'], 'charge_group': atom['cgnr']}
            if atom['charge'] is not None:
                attrs['charge'] = float(atom['charge'])
                if atom['mass'] is not None:
                    attrs['mass'] = float(atom['mass'])
            nodes.append((i, attrs))
        inter = {}

        def add(sec, line, meta):
            inter.setdefault(sec, []).append((tuple(line['atoms']), list(line['params']), dict(meta)))

        def walk_cond(cond, fn):
            inverse = {'ifdef': 'ifndef', 'ifndef': 'ifdef'}
            for inner in cond['then']:
                fn(inner, {cond['kind']: cond['tag']})
            for inner in cond['else'] or []:
                fn(inner, {inverse[cond['kind']]: cond['tag']})

        def walk_section(chunk, meta):
            for item in chunk['items']:
                if item.get('t') == 'cond':
                    walk_cond(item, lambda line, m, sec=chunk['sec']: add(sec, line, m))
                else:
                    add(chunk['sec'], item, meta)

        for chunk in block['body']:
            if chunk['t'] == 'sec':
                walk_section(chunk, {})
            else:
                walk_cond(chunk, walk_section)
        blocks.append({'name': block['name'], 'nrexcl': block['nrexcl'], 'nodes': nodes, 'inter': inter})
    return blocks


# ---------------------------------------------------------------------------
# part itp-model

def load(text):
    ff = ForceField(name='toy')
    read_itp(text.split('\n'), ff)
    return ff


def cmp(what, got, exp, text=None):
    if got != exp:
        raise Violation('itp-' + what.split(':')[0], '%s: loaded %r, declared %r%s' % (what, got, exp, '\n' + text if text else ''))


def classify(case):
    classes = set()
    nblocks = len(case['blocks'])
    if nblocks >= 2:
        classes.add('several-moleculetypes')
    later_inter = False
    for bidx, block in enumerate(case['blocks']):
        secs = []
        for chunk in block['body']:
            if chunk['t'] == 'sec':
                secs.append(chunk['sec'])
                for item in chunk['items']:
                    if item.get('t') == 'cond':
                        classes.add('cond-lines')
                        if item['else'] is not None:
                            classes.add('else-branch')
            else:
                classes.add('cond-sections')
                if chunk['else'] is not None:
                    classes.add('else-branch')
                secs.extend(c['sec'] for c in chunk['then'] + (chunk['else'] or []))
        if len(secs) != len(set(secs)):
            classes.add('repeated-section')
        if secs and bidx >= 1:
            later_inter = True
        if 'virtual_sitesn' in secs:
            classes.add('virtual_sitesn')
        if 'exclusions' in secs:
            classes.add('exclusions')
        if bidx >= 1 and len(block['atoms']) != len(case['blocks'][bidx - 1]['atoms']) and secs:
            classes.add('atom-count-differs-from-previous-block')
    if later_inter:
        classes.add('interactions-in-later-moleculetype')
    nontrivial = later_inter or 'else-branch' in classes
    return classes, nontrivial


def run_model(case):
    text = text_of(serialise(case))
    exp = expected(case)
    try:
        ff = load(text)
    except Exception as exc:  # a well-formed file must load
        raise Violation('itp-wellformed-rejected', 'well-formed .itp rejected: %r (cause %r)\n%s' % (exc, exc.__cause__, text)) from None
    cmp('block-list', list(ff.blocks), [b['name'] for b in exp], text)
    for b in exp:
        block = ff.blocks[b['name']]
        cmp('block-name: %s' % b['name'], block.name, b['name'])
        cmp('block-nrexcl: %s' % b['name'], block.nrexcl, b['nrexcl'], text)
        cmp('block-atoms: %s' % b['name'], [(k, dict(block.nodes[k])) for k in block.nodes], b['nodes'], text)
        got = {t: [(tuple(i.atoms), list(i.parameters), dict(i.meta)) for i in lst] for t, lst in block.interactions.items() if lst}
        cmp('block-interactions: %s' % b['name'], got, b['inter'], text)
        if block.force_field is not ff:
            raise Violation('itp-block-force-field', 'block %s does not belong to the force field it was read into' % b['name'])
    if len(ff.links) or len(ff.modifications):
        raise Violation('itp-extra-content', 'links/modifications created from an .itp: %r %r' % (ff.links, dict(ff.modifications)))
    classes, nontrivial = classify(case)
    return Outcome(sorted(classes), nontrivial)


# ---------------------------------------------------------------------------
# part itp-faults

FAULTS = ['undefined-atom-index', 'too-few-atoms', 'unknown-section', 'unknown-gromacs-like-section', 'zero-atom-index',
          'negative-atom-index', 'atom-by-name', 'duplicate-atom-id', 'atoms-line-too-short', 'moleculetype-line-tokens',
          'header-unterminated', 'endif-without-if', 'else-without-if', 'nested-ifdef', 'unclosed-ifdef', 'include', 'unknown-pragma']


# sections in which a line with fewer atoms than the directive requires is currently accepted (finding, see itp-short-line)
SHORT_LINE_DEFECT = ('virtual_sites4', 'dihedral_restraints', 'angle_restraints')


def _interaction_records(records, need_fixed=False):
    return [i for i, r in enumerate(records) if r.get('role') == 'interaction'
            and (not need_fixed or isinstance(r['arity'], int))]   # F31 fixed: the three sliced sections are included again


def _tokens(record):
    return record['text'].split(';')[0].split()


def inject(case, fault, pos):
    """Returns (text, line index) or None when the fault does not apply to this file."""
    records = serialise(case['file'] if 'file' in case else case)
    lines = [r['text'] for r in records]

    def pick(indices):
        return indices[pos % len(indices)] if indices else None

    if fault in ('unknown-section', 'unknown-gromacs-like-section'):
        i = pos % (len(lines) + 1)
        new = ['[ frobnicate ]', '1 2 1 0.2'] if fault == 'unknown-section' else ['[ bond ]', '1 2 1 0.2']
        return '\n'.join(lines[:i] + new + lines[i:]), i
    if fault in ('undefined-atom-index', 'zero-atom-index', 'negative-atom-index', 'atom-by-name'):
        i = pick(_interaction_records(records))
        if i is None:
            return None
        rec = records[i]
        toks = _tokens(rec)
        # the first token is an atom in every section
        toks[0] = {'undefined-atom-index': str(rec['natoms'] + 1 + pos % 3), 'zero-atom-index': '0',
                   'negative-atom-index': '-1', 'atom-by-name': 'BB'}[fault]
        lines[i] = ' '.join(toks)
        return '\n'.join(lines), i
    if fault == 'duplicate-atom-id':
        i = pick([k for k, r in enumerate(records) if r.get('role') == 'atom'])
        j = i
        while j + 1 < len(records) and (records[j + 1].get('role') == 'atom' or records[j + 1]['kind'] in ('blank', 'comment', 'define')):
            j += 1
        lines.insert(j + 1, lines[i].split(';')[0])
        return '\n'.join(lines), j + 1
    if fault == 'too-few-atoms':
        i = pick(_interaction_records(records, need_fixed=True))
        if i is None:
            return None
        toks = _tokens(records[i])
        lines[i] = ' '.join(toks[:records[i]['arity'] - 1])
        if not lines[i].strip():
            return None   # a one-atom section: nothing is left, that is just an empty line
        return '\n'.join(lines), i
    if fault == 'atoms-line-too-short':
        i = pick([k for k, r in enumerate(records) if r.get('role') == 'atom'])
        lines[i] = ' '.join(_tokens(records[i])[:5 - pos % 2])
        return '\n'.join(lines), i
    if fault == 'moleculetype-line-tokens':
        i = pick([k for k, r in enumerate(records) if r.get('role') == 'moltype'])
        toks = _tokens(records[i])
        lines[i] = toks[0] if pos % 2 else ' '.join(toks + ['1'])
        return '\n'.join(lines), i
    if fault == 'header-unterminated':
        i = pick([k for k, r in enumerate(records) if r['kind'] == 'header'])
        lines[i] = lines[i].split(';')[0].rstrip().rstrip(']')
        return '\n'.join(lines), i
    # pragma faults: positions outside every conditional region, after the first moleculetype header
    depth = 0
    outside = []
    inside = []
    for k, r in enumerate(records):
        if r['kind'] == 'pragma':
            if r['role'] == 'open':
                depth += 1
            elif r['role'] == 'close':
                depth -= 1
                continue
        (inside if depth else outside).append(k)
    if fault in ('endif-without-if', 'else-without-if', 'unclosed-ifdef', 'include', 'unknown-pragma'):
        i = pick(outside)
        new = {'endif-without-if': '#endif', 'else-without-if': '#else', 'unclosed-ifdef': '#ifdef FLEXIBLE',
               'include': '#include "martini.itp"', 'unknown-pragma': '#if defined(FLEXIBLE)'}[fault]
        if fault in ('include', 'unknown-pragma'):
            i = pos % (len(lines) + 1)
            lines.insert(i, new)
        else:
            lines.insert(i + 1, new)
        return '\n'.join(lines), i
    if fault == 'nested-ifdef':
        i = pick(inside)
        if i is None:
            return None
        lines.insert(i + 1, '#ifdef POSRES')
        lines.insert(i + 2, '#endif')
        return '\n'.join(lines), i
    raise AssertionError(fault)


def run_fault(case):
    res = inject(case['file'], case['fault'], case['pos'])
    if res is None:
        return Outcome(['not-applicable'], False)
    text, lineno = res
    try:
        load(text)
    except Exception:  # pylint: disable=broad-except
        blocks_before = sum(1 for ln in text.split('\n')[:lineno] if ln.split(';')[0].strip().strip('[ ]').lower() == 'moleculetype')
        return Outcome([case['fault']], blocks_before >= 2)
    raise Violation('itp-fault-accepted:' + case['fault'],
                    '.itp with injected fault %r near line %d was loaded without error:\n%s' % (case['fault'], lineno + 1, text))


def strategy_fault(tier):
    return st.fixed_dictionaries({'file': file_strategy(tier), 'fault': st.sampled_from(FAULTS), 'pos': st.integers(0, 200)})


# ---------------------------------------------------------------------------
# part itp-vsites1: [ virtual_sites1 ] "site from funct" (Gromacs manual, virtual sites: a site on top of one atom)

def strategy_vs1(tier):
    return st.fixed_dictionaries({'site': st.integers(1, 4), 'from': st.integers(1, 4), 'second_block': st.booleans(),
                                  'layout': st.integers(0, 2 ** 30)})


def run_vs1(case):
    lines = []
    if case['second_block']:
        lines += ['[ moleculetype ]', 'FIRST 1', '[ atoms ]', '1 P5 1 ALA BB 1', '[ position_restraints ]', '1 1 1000 1000 1000']
    lines += ['[ moleculetype ]', 'VS 1', '[ atoms ]'] + ['%d P5 1 ALA A%d %d' % (i, i, i) for i in range(1, 5)]
    lines += ['[ virtual_sites1 ]', '; site from funct', '%d %d 1' % (case['site'], case['from'])]
    text = '\n'.join(lines) + '\n'
    try:
        ff = load(text)
    except Exception as exc:  # pylint: disable=broad-except
        raise Violation('itp-vsites1-rejected', '[ virtual_sites1 ] rejected: %r\n%s' % (exc, text)) from None
    got = [(tuple(i.atoms), list(i.parameters)) for i in ff.blocks['VS'].interactions.get('virtual_sites1', [])]
    exp = [((case['site'] - 1, case['from'] - 1), ['1'])]
    if got != exp:
        raise Violation('itp-vsites1-constructing-atom-is-parameter',
                        '[ virtual_sites1 ] line "%d %d 1" (site, constructing atom, function type) loaded as %r, declared %r\n%s'
                        % (case['site'], case['from'], got, exp, text))
    return Outcome(['vsites1'], case['second_block'])


def match_vsites1(spec, part, case, violation):
    return part == 'itp-vsites1' and violation.bucket == 'itp-vsites1-constructing-atom-is-parameter'


# ---------------------------------------------------------------------------
# part itp-short-line: a line with fewer atom columns than the directive requires, in the sections listed in
# SHORT_LINE_DEFECT (the property's "wrong atom count for a fixed-arity interaction")

def strategy_short(tier):
    return st.fixed_dictionaries({'sec': st.sampled_from(SHORT_LINE_DEFECT), 'drop': st.integers(1, 3), 'second_block': st.booleans()})


def run_short(case):
    arity = SECTIONS[case['sec']]
    keep = max(1, arity - case['drop'])
    lines = []
    if case['second_block']:
        lines += ['[ moleculetype ]', 'FIRST 1', '[ atoms ]', '1 P5 1 ALA BB 1', '[ position_restraints ]', '1 1 1000 1000 1000']
    lines += ['[ moleculetype ]', 'SHORT 1', '[ atoms ]'] + ['%d P5 1 ALA A%d %d' % (i, i, i) for i in range(1, 6)]
    lines += ['[ %s ]' % case['sec'], ' '.join(str(i) for i in range(1, keep + 1))]
    text = '\n'.join(lines) + '\n'
    try:
        ff = load(text)
    except Exception:  # pylint: disable=broad-except
        return Outcome([case['sec']], case['second_block'])
    raise Violation('itp-fault-accepted:too-few-atoms:sliced-sections',
                    '[ %s ] needs %d atoms, a line with %d tokens was loaded as %r\n%s'
                    % (case['sec'], arity, keep, [(i.atoms, i.parameters) for i in ff.blocks['SHORT'].interactions[case['sec']]], text))


def match_short(spec, part, case, violation):
    return part == 'itp-short-line' and violation.bucket == 'itp-fault-accepted:too-few-atoms:sliced-sections'


MATCHERS = {'itp-vsites1': match_vsites1, 'itp-short-line': match_short}
DEFECT_PARTS = ['itp-vsites1', 'itp-short-line']

RULE_TEXT = ('itp-model: abstract .itp files with 1-3 moleculetypes (1-5 atoms with optional charge/mass), 0-4 body chunks each '
             '(interaction sections of 18 kinds in any order and repeated, lines wrapped in #ifdef/#ifndef[/#else]/#endif, '
             'whole sections wrapped in such regions, #define lines, comments, blank lines, header spacing/case variants), '
             'loaded by read_itp and compared with the model; non-trivial = interactions in a moleculetype that is not the '
             'first one, or an #else branch. itp-faults: one of 17 faults injected at a generated position; non-trivial = at '
             'least two moleculetype headers precede the faulty line. itp-vsites1: [ virtual_sites1 ] lines. itp-short-line: too few atom columns in the sections whose atom columns are a range.')

PARTS = [
    Part('itp-model', run_model, strategy=file_strategy, examples={'quick': 1000, 'thorough': 30000},
         floors={'several-moleculetypes': 0.4, 'interactions-in-later-moleculetype': 0.3, 'else-branch': 0.08,
                 'cond-sections': 0.1, 'cond-lines': 0.15, 'repeated-section': 0.05, 'virtual_sitesn': 0.05}),
    Part('itp-faults', run_fault, strategy=strategy_fault, examples={'quick': 500, 'thorough': 15000}),
    Part('itp-vsites1', run_vs1, strategy=strategy_vs1, examples={'quick': 32, 'thorough': 200}),
    Part('itp-short-line', run_short, strategy=strategy_short, examples={'quick': 32, 'thorough': 200}),
]
