"""
C13, backward-style .map files (vermouth.map_input.read_backmapping_file).

map-model     an abstract .map file (1-3 [ molecule ] entries; [ from ] / [ to ] / [ mapping ] force-field lists or the
              documented defaults; [ martini ]; [ atoms ] lines with multiplicity and '!' markers, possibly split over several
              [ atoms ] sections; [ extra ]; ignored [ chiral ] / [ trans ] / [ out ] sections; sections in any order) is
              serialised with random legal layout and loaded against force fields built from the same model; the mapping
              collection is compared with the expectation: exactly the (origin, target, molecule) triples for which both
              force fields have the block, weights = multiplicity / number of non-'!' targets written for that atom, 0 for '!'.
map-faults    one fault injected into a valid file; the loader must raise.
map-directory    a generated .map file and a generated .mapping file in a directory tree, read with read_mapping_directory.
map-doc-example  the literal example of doc/source/file_formats.rst.
map-nameless-molecule  probe: a [ molecule ] section without a name that is followed by another molecule.

Grounding: doc/source/file_formats.rst "File structure (.map)", docstrings of map_input.py (defaults universal ->
martini22, [ extra ], '!' = null weight), the property statement (weights), and the shipped data files, which rely on
(a) force-field names / blocks that do not exist being skipped, (b) atoms that a block of one of several origin force fields
lacks being skipped, (c) a [ mapping ] section listing further origin force fields.
"""
from fractions import Fraction

from hypothesis import strategies as st

from pbt.core import Part, Outcome, Violation

from vermouth.forcefield import ForceField
from vermouth.molecule import Block
from vermouth.map_input import read_backmapping_file

FROM_FFS = ['universal', 'ffa', 'ffc']
TO_FFS = ['martini22', 'ffb', 'ffd']
UNKNOWN_FF = 'nowhere'
ATOMS = ['N', 'HN', 'CA', 'HA', 'CB', 'C', 'O', 'OXT', 'CG', 'HB1']
BEADS = ['BB', 'SC1', 'SC2', 'SC3', 'ROH', 'R1']
IGNORED = ['chiral', 'trans', 'out']


# ---------------------------------------------------------------------------
# strategy

_TARGET = st.fixed_dictionaries({'bead': st.integers(0, 11), 'null': st.sampled_from([False, False, False, True]),
                                 'count': st.sampled_from([1, 1, 1, 2, 3])})
_ATOM = st.fixed_dictionaries({'name': st.sampled_from(ATOMS), 'targets': st.lists(_TARGET, max_size=3),
                               'absent_in': st.lists(st.sampled_from(FROM_FFS), max_size=1), 'number': st.integers(0, 40)})


def _fflist(pool):
    return st.one_of(st.just([]), st.lists(st.sampled_from(pool + [UNKNOWN_FF]), min_size=1, max_size=3))


_MOL = st.fixed_dictionaries({
    'suffix': st.sampled_from(['ALA', 'GLY', 'CHOL']),
    'atoms': st.lists(_ATOM, min_size=1, max_size=6), 'bead_names': st.lists(st.sampled_from(BEADS), min_size=1, max_size=4),
    'unlisted_atoms': st.lists(st.sampled_from(['XU1', 'XU2']), max_size=2, unique=True),
    'unlisted_beads': st.lists(st.sampled_from(['VS1', 'VS2']), max_size=1),
    'from': _fflist(FROM_FFS), 'mapping': st.one_of(st.just([]), st.just([]), st.lists(st.sampled_from(FROM_FFS), min_size=1, max_size=2)),
    'to': _fflist(TO_FFS),
    'lacking': st.lists(st.sampled_from(FROM_FFS + TO_FFS), max_size=2, unique=True),
    'extra': st.lists(st.sampled_from(['SCP', 'SCN', 'VS1']), max_size=2),
    'ignored': st.lists(st.fixed_dictionaries({'sec': st.sampled_from(IGNORED), 'n': st.integers(0, 2)}), max_size=2),
    'martini_lines': st.integers(1, 2),
    'split_atoms': st.integers(0, 6), 'order': st.integers(0, 2 ** 20),
    'one_per_line': st.booleans(),
})


def assemble(raw):
    """Normalise the raw draw: unique atom / bead names per molecule, targets unique per bead, unique molecule names."""
    mols = []
    for i, rm in enumerate(raw['mols']):
        beads = list(dict.fromkeys(rm['bead_names']))
        atoms, names = [], []
        for ra in rm['atoms']:
            if ra['name'] in names:
                continue
            names.append(ra['name'])
            targets, seen = [], set()
            for t in ra['targets']:
                b = t['bead'] % len(beads)
                if b not in seen:
                    seen.add(b)
                    targets.append(dict(t, bead=b))
            atoms.append({'targets': targets, 'absent_in': ra['absent_in'], 'number': ra['number']})
        mol = dict(rm, name='M%d%s' % (i, rm['suffix']), atom_names=names, bead_names=beads, atoms=atoms)
        del mol['suffix']
        mols.append(mol)
    return dict(raw, mols=mols)


def file_strategy(tier):
    return st.fixed_dictionaries({
        'mols': st.lists(_MOL, min_size=1, max_size=3),
        'keys': st.fixed_dictionaries({'from': st.sampled_from(['name', 'int']), 'to': st.sampled_from(['name', 'int'])}),
        'preamble': st.booleans(), 'layout': st.integers(0, 2 ** 30)}).map(assemble)


# ---------------------------------------------------------------------------
# the force fields the file is loaded against

def node_key(style, side, i, name):
    if style == 'name':
        return name
    return (100 if side == 'from' else 500) + 7 * i


def build_force_fields(case):
    ffs = {}
    for ffname in FROM_FFS + TO_FFS:
        side = 'from' if ffname in FROM_FFS else 'to'
        ff = ForceField(name=ffname)
        for mol in case['mols']:
            if ffname in mol['lacking']:
                continue
            block = Block(name=mol['name'], force_field=ff)
            block.nrexcl = 1
            if side == 'from':
                names = [n for n, a in zip(mol['atom_names'], mol['atoms']) if ffname not in a['absent_in']] + mol['unlisted_atoms']
            else:
                names = mol['bead_names'] + mol['unlisted_beads']
            keys = []
            for i, n in enumerate(names):
                key = node_key(case['keys'][side], side, i, n)
                block.add_node(key, atomname=n, resname=mol['name'], resid=1, atype='T%d' % i)
                keys.append(key)
            for a, b in zip(keys[:-1], keys[1:]):
                block.add_edge(a, b)
            ff.blocks[mol['name']] = block
        ffs[ffname] = ff
    return ffs


# ---------------------------------------------------------------------------
# serialisation

class Layout:
    def __init__(self, seed):
        self.state = seed * 2654435761 % (2 ** 32) or 1

    def pick(self, n):
        self.state = (self.state * 1103515245 + 12345) % (2 ** 31)
        return (self.state >> 8) % n

    def sep(self):
        return [' ', '  ', '\t', '     '][self.pick(4)]

    def shuffle(self, items):
        items = list(items)
        for i in range(len(items) - 1, 0, -1):
            j = self.pick(i + 1)
            items[i], items[j] = items[j], items[i]
        return items


def atom_tokens(mol, idx, lay):
    atom = mol['atoms'][idx]
    toks = []
    for t in atom['targets']:
        bead = mol['bead_names'][t['bead']]
        toks += [('!' + bead) if t['null'] else bead] * t['count']
    return lay.shuffle(toks) if lay is not None else toks


def serialise(case):
    lay = Layout(case['layout'])
    out = []

    def noise():
        k = lay.pick(10)
        if k == 0:
            out.append({'text': '', 'kind': 'blank'})
        elif k == 1:
            out.append({'text': ['; comment', '  ; [ atoms ]', ';1 N BB'][lay.pick(3)], 'kind': 'comment'})

    def header(name, **info):
        text = ['[ %s ]', '[%s]', '[  %s  ]', '  [ %s ]', '[ %s ] ; note'][lay.pick(5)] % name
        out.append(dict(info, text=text, kind='header', sec=name))
        noise()

    def data(tokens, **info):
        text = ['', ' ', '\t', '    '][lay.pick(4)] + lay.sep().join(tokens)
        if lay.pick(4) == 0:
            text += ['; trailing', '   ; L-Ala', ' ;!BB'][lay.pick(3)]
        out.append(dict(info, text=text, kind='data'))
        noise()

    def names_section(sec, names, midx, one_per_line):
        header(sec, mol=midx)
        if one_per_line:
            for n in names:
                data([n], mol=midx, sec=sec)
        else:
            data(list(names), mol=midx, sec=sec)

    if case['preamble']:
        out.append({'text': '; Copyright: a licence header', 'kind': 'comment'})
        out.append({'text': '', 'kind': 'blank'})
    for midx, mol in enumerate(case['mols']):
        header('molecule', mol=midx)
        data([mol['name']], mol=midx, sec='molecule', role='name')
        sections = []
        if mol['from']:
            sections.append(('from', mol['from']))
        if mol['mapping']:
            sections.append(('mapping', mol['mapping']))
        if mol['to']:
            sections.append(('to', mol['to']))
        sections.append(('martini', None))
        n = len(mol['atoms'])
        cut = mol['split_atoms'] if 0 < mol['split_atoms'] < n else None
        if cut is None:
            sections.append(('atoms', list(range(n))))
        else:
            sections.append(('atoms', list(range(cut))))
            sections.append(('atoms', list(range(cut, n))))
        if mol['extra']:
            sections.append(('extra', mol['extra']))
        for ig in mol['ignored']:
            sections.append(('ignored', ig))
        order = Layout(mol['order'] + 1).shuffle(sections)
        for sec, content in order:
            if sec in ('from', 'to', 'mapping', 'extra'):
                names_section(sec, content, midx, mol['one_per_line'])
            elif sec == 'martini':
                header('martini', mol=midx)
                beads = mol['bead_names'] + mol['unlisted_beads']
                if mol['martini_lines'] == 2 and len(beads) > 1:
                    data(beads[:1], mol=midx, sec='martini')
                    data(beads[1:], mol=midx, sec='martini')
                else:
                    data(beads, mol=midx, sec='martini')
            elif sec == 'atoms':
                header('atoms', mol=midx)
                for idx in content:
                    data([str(mol['atoms'][idx]['number']), mol['atom_names'][idx]] + atom_tokens(mol, idx, lay),
                         mol=midx, sec='atoms', role='atom', atom=idx)
            else:
                header(content['sec'], mol=midx)
                for k in range(content['n']):
                    data([mol['atom_names'][(k + j) % len(mol['atom_names'])] for j in range(4)], mol=midx, sec=content['sec'])
    return out


def text_of(records):
    return '\n'.join(r['text'] for r in records) + '\n'


# ---------------------------------------------------------------------------
# expectation

def expected(case):
    """{(from_ff, to_ff, name): {'weights': {(atom, bead): Fraction}, 'extra': [...]}} and the order of names."""
    exp = {}
    for mol in case['mols']:
        from_list = (mol['from'] + mol['mapping']) or ['universal']
        to_list = mol['to'] or ['martini22']
        for f in from_list:
            for t in to_list:
                if f == UNKNOWN_FF or t == UNKNOWN_FF or f in mol['lacking'] or t in mol['lacking']:
                    continue
                weights = {}
                for aname, atom in zip(mol['atom_names'], mol['atoms']):
                    if f in atom['absent_in']:
                        continue
                    total = sum(tg['count'] for tg in atom['targets'] if not tg['null'])
                    for tg in atom['targets']:
                        bead = mol['bead_names'][tg['bead']]
                        weights[(aname, bead)] = Fraction(0) if tg['null'] else Fraction(tg['count'], total)
                exp[(f, t, mol['name'])] = {'weights': weights, 'extra': list(mol['extra']), 'mol': mol}
    return exp


def describe_mapping(mapping):
    """Loaded Mapping -> {(atomname, beadname): weight}; raises Violation when a key does not belong to its block."""
    out = {}
    for kfrom, targets in mapping.mapping.items():
        if kfrom not in mapping.block_from.nodes:
            raise Violation('map-key-not-in-block', 'mapping refers to %r, which is not a node of block_from' % (kfrom,))
        for kto, weight in targets.items():
            if kto not in mapping.block_to.nodes:
                raise Violation('map-key-not-in-block', 'mapping refers to %r, which is not a node of block_to' % (kto,))
            pair = (mapping.block_from.nodes[kfrom]['atomname'], mapping.block_to.nodes[kto]['atomname'])
            if pair in out:
                raise Violation('map-duplicate-pair', 'pair %r occurs twice' % (pair,))
            out[pair] = weight
    return out


def compare_mapping(label, mapping, exp, case, ffs, text):
    f, t, name = label
    mol = exp['mol']
    got = describe_mapping(mapping)
    if set(got) != set(exp['weights']):
        raise Violation('map-pairs', '%s: pairs loaded %r, declared %r\n%s' % (label, sorted(got), sorted(exp['weights']), text))
    for pair, weight in exp['weights'].items():
        if abs(got[pair] - float(weight)) > 1e-12:
            raise Violation('map-weight', '%s: weight of %r loaded %r, declared %s\n%s' % (label, pair, got[pair], weight, text))
    # keys are those of the force-field blocks
    from_block, to_block = ffs[f].blocks[name], ffs[t].blocks[name]
    mapped = {a for (a, _b) in exp['weights']}
    exp_from = [(k, dict(from_block.nodes[k])) for k in from_block.nodes if from_block.nodes[k]['atomname'] in mapped]
    got_from = [(k, dict(mapping.block_from.nodes[k])) for k in mapping.block_from.nodes]
    if got_from != exp_from:
        raise Violation('map-block-from', '%s: block_from nodes %r, expected the mapped atoms %r\n%s' % (label, got_from, exp_from, text))
    keep = {k for k, _ in exp_from}
    exp_edges = {frozenset(e) for e in from_block.edges if e[0] in keep and e[1] in keep}
    if {frozenset(e) for e in mapping.block_from.edges} != exp_edges:
        raise Violation('map-block-from-edges', '%s: block_from edges %r, expected %r' % (label, list(mapping.block_from.edges), exp_edges))
    got_to = [(k, dict(mapping.block_to.nodes[k])) for k in mapping.block_to.nodes]
    exp_to = [(k, dict(to_block.nodes[k])) for k in to_block.nodes]
    if got_to != exp_to or {frozenset(e) for e in mapping.block_to.edges} != {frozenset(e) for e in to_block.edges}:
        raise Violation('map-block-to', '%s: block_to %r, expected %r' % (label, got_to, exp_to))
    if list(mapping.block_to.extra) != exp['extra']:
        raise Violation('map-extra', '%s: extra %r, declared %r\n%s' % (label, mapping.block_to.extra, exp['extra'], text))
    if tuple(mapping.names) != (name,):
        raise Violation('map-names', '%s: names %r' % (label, mapping.names))
    if mapping.references:
        raise Violation('map-references', '%s: references %r in a .map mapping' % (label, mapping.references))
    if mapping.ff_from is not ffs[f] or mapping.ff_to is not ffs[t]:
        raise Violation('map-force-fields', '%s: ff_from/ff_to are %r/%r' % (label, mapping.ff_from, mapping.ff_to))


def classify(case, exp):
    classes = set()
    if len(case['mols']) > 1:
        classes.add('several-molecules')
    weighted = False
    for mol in case['mols']:
        for atom in mol['atoms']:
            live = [t for t in atom['targets'] if not t['null']]
            if len(live) >= 2:
                classes.add('shared-atom')
                if len({t['count'] for t in live}) > 1:
                    classes.add('unequal-multiplicity')
                    weighted = True
            if any(t['null'] for t in atom['targets']):
                classes.add('null-marker')
                weighted = True
                if live:
                    classes.add('null-and-live-targets')
            if not atom['targets']:
                classes.add('atom-without-target')
            if atom['absent_in']:
                classes.add('atom-absent-from-a-block')
        if not mol['from'] and not mol['mapping']:
            classes.add('default-origin')
        if not mol['to']:
            classes.add('default-target')
        if mol['mapping']:
            classes.add('mapping-section')
        if mol['extra']:
            classes.add('extra')
        if mol['ignored']:
            classes.add('ignored-section')
        if mol['lacking']:
            classes.add('block-lacking-in-a-ff')
        if UNKNOWN_FF in mol['from'] + mol['to']:
            classes.add('unknown-ff-name')
        if 0 < mol['split_atoms'] < len(mol['atoms']):
            classes.add('atoms-section-split')
    if len(exp) >= 2:
        classes.add('several-mappings')
    if not exp:
        classes.add('nothing-resolvable')
    return classes, bool(exp) and weighted


def load(text, ffs):
    return read_backmapping_file(text.split('\n'), ffs)


def run_model(case):
    text = text_of(serialise(case))
    ffs = build_force_fields(case)
    exp = expected(case)
    try:
        got = load(text, ffs)
    except Exception as exc:
        raise Violation('map-wellformed-rejected', 'well-formed .map rejected: %r (cause %r)\n%s' % (exc, exc.__cause__, text)) from None
    got_keys = [(f, t, n) for f in got for t in got[f] for n in got[f][t]]
    if len(got_keys) != len(set(got_keys)) or set(got_keys) != set(exp):
        raise Violation('map-collection', 'mappings loaded %r, declared %r\n%s' % (sorted(got_keys), sorted(exp), text))
    order = [m['name'] for m in case['mols']]
    for f in got:
        for t in got[f]:
            names = list(got[f][t])
            if names != sorted(names, key=order.index):
                raise Violation('map-order', 'molecules of %s -> %s in order %r, file order %r' % (f, t, names, order))
    for label, e in exp.items():
        f, t, n = label
        compare_mapping(label, got[f][t][n], e, case, ffs, text)
    classes, nontrivial = classify(case, exp)
    return Outcome(sorted(classes), nontrivial)


# ---------------------------------------------------------------------------
# faults

FAULTS = ['null-and-weighted-target', 'duplicate-atom', 'name-redefined', 'empty-molecule', 'no-name', 'header-unterminated',
          'undefined-bead', 'atoms-line-one-token', 'no-molecule-section']


def inject(case, fault, pos):
    records = serialise(case)
    lines = [r['text'] for r in records]
    exp = expected(case)

    def pick(indices):
        return indices[pos % len(indices)] if indices else None

    atom_recs = [i for i, r in enumerate(records) if r.get('role') == 'atom']
    if fault == 'duplicate-atom':
        i = pick(atom_recs)
        # the same atom name again, somewhere later in an [ atoms ] section of the same molecule
        later = [j for j in atom_recs if j >= i and records[j]['mol'] == records[i]['mol']]
        j = later[(pos // 7) % len(later)]
        toks = lines[i].split(';')[0].split()
        lines.insert(j + 1, ' '.join(['99', toks[1]] + toks[2:3]))
        return '\n'.join(lines), j + 1
    if fault == 'null-and-weighted-target':
        cands = [i for i in atom_recs if len(lines[i].split(';')[0].split()) >= 3]
        i = pick(cands)
        if i is None:
            return None
        toks = lines[i].split(';')[0].split()
        bead = toks[2].lstrip('!')
        other = ('!' + bead) if not toks[2].startswith('!') else bead
        k = 2 + (pos // 3) % (len(toks) - 1)
        toks.insert(k, other)
        lines[i] = ' '.join(toks)
        return '\n'.join(lines), i
    name_recs = [i for i, r in enumerate(records) if r.get('role') == 'name']
    if fault == 'name-redefined':
        i = pick(name_recs)
        lines.insert(i + 1, 'OTHER')
        return '\n'.join(lines), i + 1
    mol_headers = [i for i, r in enumerate(records) if r['kind'] == 'header' and r['sec'] == 'molecule']
    if fault == 'empty-molecule':
        i = pick(mol_headers)
        lines.insert(i + 1, '[ molecule ]')
        return '\n'.join(lines), i + 1
    if fault in ('no-name', 'no-name-not-last'):
        # the molecule that loses its name is the last one of the file / is followed by another molecule
        last = len(case['mols']) - 1
        i = pick([k for k in name_recs if (records[k]['mol'] == last) == (fault == 'no-name')])
        if i is None:
            return None
        del lines[i]
        return '\n'.join(lines), i
    if fault == 'header-unterminated':
        heads = [i for i, r in enumerate(records) if r['kind'] == 'header' and i != mol_headers[0]]
        i = pick(heads)
        lines[i] = lines[i].split(';')[0].rstrip().rstrip(']')
        return '\n'.join(lines), i
    if fault == 'undefined-bead':
        cands = []
        for i in atom_recs:
            r = records[i]
            mol = case['mols'][r['mol']]
            aname = mol['atom_names'][r['atom']]
            atom = mol['atoms'][r['atom']]
            if any(n == mol['name'] and f not in atom['absent_in'] for (f, t, n) in exp):
                cands.append(i)
        i = pick(cands)
        if i is None:
            return None
        toks = lines[i].split(';')[0].split()
        if len(toks) >= 3 and pos % 2:
            toks[2 + (pos // 2) % (len(toks) - 2)] = 'ZZ9'
        else:
            toks.append('ZZ9')
        lines[i] = ' '.join(toks)
        return '\n'.join(lines), i
    if fault == 'atoms-line-one-token':
        i = pick(atom_recs)
        lines[i] = lines[i].split(';')[0].split()[0]
        return '\n'.join(lines), i
    if fault == 'no-molecule-section':
        keep = [ln for i, ln in enumerate(lines) if i not in mol_headers]
        return '\n'.join(keep), 0
    raise AssertionError(fault)


def run_fault(case):
    res = inject(case['file'], case['fault'], case['pos'])
    if res is None:
        return Outcome(['not-applicable'], False)
    text, lineno = res
    ffs = build_force_fields(case['file'])
    try:
        load(text, ffs)
    except Exception:  # pylint: disable=broad-except
        before = sum(1 for ln in text.split('\n')[:lineno] if ln.split(';')[0].strip().strip('[ ]') == 'molecule')
        return Outcome([case['fault']], before >= 2)
    raise Violation('map-fault-accepted:' + case['fault'],
                    '.map with injected fault %r near line %d was loaded without error:\n%s' % (case['fault'], lineno + 1, text))


def strategy_fault(tier):
    return st.fixed_dictionaries({'file': file_strategy(tier), 'fault': st.sampled_from(FAULTS), 'pos': st.integers(0, 200)})


def strategy_nameless(tier):
    return st.fixed_dictionaries({'file': file_strategy(tier), 'fault': st.just('no-name-not-last'), 'pos': st.integers(0, 200)})


def match_nameless(spec, part, case, violation):
    return part == 'map-nameless-molecule' and violation.bucket == 'map-fault-accepted:no-name-not-last'


# ---------------------------------------------------------------------------
# the documented example (doc/source/file_formats.rst, "Example of .map file")

DOC_EXAMPLE = """[ molecule ]
ALA ALA
[ martini ]
BB SC1
[ atoms ]
 1     N    BB
 2    HN    BB
 3    CA    BB
 5    CB    SC1
 9     C    BB
10     O    BB
"""


def _enum_doc(tier, shard, nshards):
    if shard == 0:
        yield {'name': 'rst-example', 'text': DOC_EXAMPLE}
        yield {'name': 'rst-example-single-name', 'text': DOC_EXAMPLE.replace('ALA ALA', 'ALA')}


def run_doc(case):
    ffs = {}
    for ffname, names in (('universal', ['N', 'HN', 'CA', 'CB', 'C', 'O']), ('martini22', ['BB', 'SC1'])):
        ff = ForceField(name=ffname)
        block = Block(name='ALA', force_field=ff)
        for n in names:
            block.add_node(n, atomname=n, resname='ALA', resid=1)
        ff.blocks['ALA'] = block
        ffs[ffname] = ff
    got = load(case['text'], ffs)
    try:
        mapping = got['universal']['martini22']['ALA']
    except KeyError:
        raise Violation('map-doc-example-loads-nothing',
                        'the documented example defines the mapping of ALA (universal -> martini22 by default); loaded collection: %r'
                        % ({f: {t: list(v) for t, v in d.items()} for f, d in got.items()},)) from None
    exp = {('N', 'BB'): 1, ('HN', 'BB'): 1, ('CA', 'BB'): 1, ('CB', 'SC1'): 1, ('C', 'BB'): 1, ('O', 'BB'): 1}
    if describe_mapping(mapping) != exp:
        raise Violation('map-doc-example-content', 'loaded %r' % (describe_mapping(mapping),))
    return Outcome([case['name']], True)


def match_doc(spec, part, case, violation):
    return part == 'map-doc-example' and violation.bucket == 'map-doc-example-loads-nothing'


# ---------------------------------------------------------------------------
# part map-directory: a directory tree with a .map and a .mapping file (doc: "the mappings may be organized in subfolders")

def strategy_dir(tier):
    from pbt import c13_mapping as MP
    return st.fixed_dictionaries({'map': file_strategy(tier), 'mapping': MP.file_strategy(tier), 'nested': st.booleans()})


def run_dir(case):
    import os
    import tempfile
    from pbt import c13_mapping as MP
    from vermouth.map_input import read_mapping_directory
    ffs = build_force_fields(case['map'])
    ffs.update(MP.build_force_fields(case['mapping']))
    map_text = text_of(serialise(case['map']))
    mapping_text = MP.text_of(MP.serialise(case['mapping']))
    with tempfile.TemporaryDirectory(prefix='c13b_') as tmp:
        sub = os.path.join(tmp, 'sub', 'deeper') if case['nested'] else tmp
        os.makedirs(sub, exist_ok=True)
        with open(os.path.join(tmp, 'first.map'), 'w') as fh:
            fh.write(map_text)
        with open(os.path.join(sub, 'second.mapping'), 'w') as fh:
            fh.write(mapping_text)
        with open(os.path.join(sub, 'README.txt'), 'w') as fh:
            fh.write('[ molecule ]\nnot a mapping file\n[ atoms ]\n1 A B\n')
        try:
            got = read_mapping_directory(tmp, ffs)
        except Exception as exc:
            raise Violation('map-directory-rejected', 'well-formed directory rejected: %r (cause %r)\n%s\n----\n%s'
                            % (exc, exc.__cause__, map_text, mapping_text)) from None
    exp_map = expected(case['map'])
    exp_mapping = {}
    for i, e in enumerate(MP.expected(case['mapping'])):
        exp_mapping[(e['ff_from'], e['ff_to'], e['names'])] = (i, e)   # a later mapping with the same key replaces the earlier
    got_keys = {(f, t, n) for f in got for t in got[f] for n in got[f][t]}
    want = set(exp_map) | set(exp_mapping)
    if got_keys != want:
        raise Violation('map-directory-collection', 'collection keys %r, declared %r\n%s\n----\n%s'
                        % (sorted(got_keys, key=repr), sorted(want, key=repr), map_text, mapping_text))
    for label, e in exp_map.items():
        compare_mapping(label, got[label[0]][label[1]][label[2]], e, case['map'], ffs, map_text)
    for key, (i, e) in exp_mapping.items():
        MP.compare_one(i, got[key[0]][key[1]][key[2]], e, mapping_text)
    classes = ['nested' if case['nested'] else 'flat']
    if exp_map:
        classes.append('map-entries')
    if len(exp_mapping) > 1:
        classes.append('several-mapping-entries')
    return Outcome(classes, bool(exp_map) and bool(exp_mapping))


MATCHERS = {'map-doc-example': match_doc, 'map-nameless-molecule': match_nameless}
DEFECT_PARTS = ['map-doc-example', 'map-nameless-molecule']

RULE_TEXT = ('map-model: abstract .map files with 1-3 molecules (1-6 atoms, 1-4 beads, targets with multiplicity 1-3 and "!" '
             'markers, [ from ]/[ mapping ]/[ to ] lists over 3+3 force fields plus an unknown name or the documented defaults, '
             'blocks lacking in some force fields, atoms lacking in one origin block, [ extra ], ignored sections, sections in any '
             'order, [ atoms ] split in two) loaded against force fields built from the model (node keys are names or unrelated '
             'integers); non-trivial = at least one mapping is resolvable and some atom has unequal multiplicities or a "!" target. '
             'map-faults: 9 faults at generated positions; non-trivial = the fault is in the second or later molecule. '
             'map-directory: a generated .map and a generated .mapping file (plus a file with another extension) in a directory, '
             'optionally nested two levels, read with read_mapping_directory; non-trivial = both files contribute entries. '
             'map-doc-example: the literal .map example of the documentation. map-nameless-molecule: the name line of a molecule that is '
             'not the last one is removed.')

PARTS = [
    Part('map-model', run_model, strategy=file_strategy, examples={'quick': 1000, 'thorough': 30000},
         floors={'unequal-multiplicity': 0.1, 'null-marker': 0.15, 'several-mappings': 0.2, 'atoms-section-split': 0.1,
                 'atom-absent-from-a-block': 0.1, 'block-lacking-in-a-ff': 0.1, 'default-origin': 0.1, 'extra': 0.1}),
    Part('map-faults', run_fault, strategy=strategy_fault, examples={'quick': 450, 'thorough': 12000}),
    Part('map-directory', run_dir, strategy=strategy_dir, examples={'quick': 96, 'thorough': 2000}, floors={'nested': 0.2, 'map-entries': 0.4}),
    Part('map-doc-example', run_doc, enumerate=_enum_doc),
    Part('map-nameless-molecule', run_fault, strategy=strategy_nameless, examples={'quick': 48, 'thorough': 400},
         shrink_budget={'quick': 40, 'thorough': 200}),
]
