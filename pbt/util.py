"""Small shared helpers for the checks."""
import importlib.machinery
import importlib.util
import logging
import os

REPO = os.path.abspath(os.environ.get('VERIF_REPO', '/repo'))
_CLI = None


def load_cli():
    """Import bin/martinize2 of the repository under test as a module."""
    global _CLI
    if _CLI is None:
        path = os.path.join(REPO, 'bin', 'martinize2')
        loader = importlib.machinery.SourceFileLoader('martinize2_cli', path)
        spec = importlib.util.spec_from_loader('martinize2_cli', loader)
        module = importlib.util.module_from_spec(spec)
        loader.exec_module(module)
        _CLI = module
    return _CLI


class ListHandler(logging.Handler):
    """Collects the log records emitted on logger 'vermouth' during a case."""

    def __init__(self):
        super().__init__(level=1)
        self.records = []

    def emit(self, record):
        self.records.append(record)

    def types(self, level=logging.WARNING):
        return [getattr(r, 'type', 'general') for r in self.records if r.levelno >= level]

    def messages(self, level=logging.WARNING):
        out = []
        for r in self.records:
            if r.levelno >= level:
                try:
                    out.append(r.getMessage())
                except Exception:  # pylint: disable=broad-except
                    out.append(str(r.msg))
        return out


class capture_logs:
    """Context manager attaching a ListHandler to logger 'vermouth'."""

    def __init__(self, name='vermouth'):
        self.logger = logging.getLogger(name)
        self.handler = ListHandler()

    def __enter__(self):
        self.old_level = self.logger.level
        self.logger.setLevel(1)
        self.logger.addHandler(self.handler)
        return self.handler

    def __exit__(self, *exc):
        self.logger.removeHandler(self.handler)
        self.logger.setLevel(self.old_level)
        return False
