"""
Core of the property-based checking framework for vermouth / martinize2.

A *check module* (pbt/checks/cXX.py) exposes

    PROPERTY = "C08"
    LEVEL    = "exploration" | "fault_enumeration"
    RULE     = "how cases are generated and what makes one non-trivial"
    ASSUMPTIONS = [...]
    PARTS    = [Part(...), ...]
    MATCHERS = {name: fn(params, part_name, case, violation) -> bool}   (optional)
    preload()                                                           (optional)

A Part is either Hypothesis driven (``strategy(tier)`` returns a strategy that
draws a plain JSON-serialisable *case*), or an enumeration (``enumerate(tier,
shard, nshards)`` yields cases of a finite domain).  ``run(case)`` executes the
real code on the case and returns an ``Outcome`` or raises ``Violation``.

Everything random goes through Hypothesis; seeds are derived from VERIF_SEED.
"""
import hashlib
import json
import os
import sys
import time
import traceback
import multiprocessing as mp

ROOT = os.path.dirname(os.path.dirname(os.path.abspath(__file__)))
REPO = os.path.abspath(os.environ.get('VERIF_REPO', '/repo'))


class Violation(Exception):
    """The oracle found the property broken on a case."""

    def __init__(self, bucket, message, detail=None):
        super().__init__('[%s] %s' % (bucket, message))
        self.bucket = bucket
        self.message = message
        self.detail = detail


class HarnessError(Exception):
    """Something is wrong with the harness, never with the code under test."""


class _AbortShrink(BaseException):
    pass


class Outcome:
    """What a case turned out to be: the classes it belongs to and whether it
    is non-trivial by the property's stated rule."""
    __slots__ = ('classes', 'nontrivial')

    def __init__(self, classes=(), nontrivial=False):
        self.classes = tuple(classes)
        self.nontrivial = bool(nontrivial)


class Part:
    def __init__(self, name, run, strategy=None, enumerate=None,
                 examples=None, floors=None, shrink_budget=None, max_rounds=6,
                 per_shard_min=8, case_timeout=900, shrink_wall=240.0):
        self.name = name
        # case_timeout: seconds after which one case is given up as inconclusive (never a violation; 0 = no limit; the
        # default is far above the slowest case of any check on the unchanged tree, see slowest_case_s in the evidence);
        # shrink_wall: seconds after the first failure of a round after which shrinking stops (the verdict is settled by then)
        self.case_timeout = case_timeout
        self.shrink_wall = shrink_wall
        self.run = run
        self.strategy = strategy
        self.enumerate = enumerate
        self.examples = examples or {'quick': 200, 'thorough': 2000}
        self.floors = floors or {}
        self.shrink_budget = shrink_budget or {'quick': 400, 'thorough': 4000}
        self.max_rounds = max_rounds
        self.per_shard_min = per_shard_min
        assert (strategy is None) != (enumerate is None)


def case_hash(case):
    data = json.dumps(case, sort_keys=True, separators=(',', ':'), default=str)
    return int.from_bytes(hashlib.blake2b(data.encode(), digest_size=8).digest(), 'big')


def derive_seed(*parts):
    data = '/'.join(str(p) for p in parts).encode()
    return int.from_bytes(hashlib.blake2b(data, digest_size=4).digest(), 'big')


def crash_bucket(exc):
    """Bucket an unexpected exception by type and innermost frame that lies in
    the repository under test.  Returns None when no such frame exists (then
    it is a harness problem)."""
    tb = traceback.extract_tb(exc.__traceback__)
    inner = None
    for frame in tb:
        fn = os.path.abspath(frame.filename)
        if fn.startswith(REPO + os.sep):
            inner = frame
    if inner is None:
        return None
    rel = os.path.relpath(inner.filename, REPO)
    return 'crash:%s:%s:%s' % (type(exc).__name__, rel, inner.name)


# ---------------------------------------------------------------------------
# known findings

def load_known(prop):
    path = os.path.join(ROOT, 'known_findings.json')
    if not os.path.exists(path):
        return []
    with open(path) as fh:
        data = json.load(fh)
    return [e for e in data.get('findings', []) if e.get('property') == prop]


def match_known(module, known_open, part_name, case, violation):
    matchers = getattr(module, 'MATCHERS', {})
    for entry in known_open:
        spec = entry.get('match', {})
        fn = matchers.get(spec.get('matcher'))
        if fn is None:
            continue
        try:
            if fn(spec, part_name, case, violation):
                return entry['id']
        except Exception:  # a matcher that cannot judge does not match
            continue
    return None


# ---------------------------------------------------------------------------
# per-shard statistics

class Stats:
    def __init__(self):
        self.evaluations = 0
        self.nontrivial_hashes = set()
        self.nontrivial_count = 0   # for enumerations (distinct by construction)
        self.classes = {}
        self.samples = []
        self.excluded_known = {}
        self.excluded_bucket = 0
        self.invalid = 0
        self.slowest = 0.0

    def record(self, case, outcome, hashed=True, max_samples=3):
        self.evaluations += 1
        for c in outcome.classes:
            self.classes[c] = self.classes.get(c, 0) + 1
        if outcome.nontrivial:
            if hashed:
                self.nontrivial_hashes.add(case_hash(case))
            else:
                self.nontrivial_count += 1
            if len(self.samples) < max_samples:
                self.samples.append(case)

    def as_dict(self):
        return {
            'evaluations': self.evaluations,
            'nontrivial_hashes': self.nontrivial_hashes,
            'nontrivial_count': self.nontrivial_count,
            'classes': self.classes,
            'samples': self.samples,
            'excluded_known': self.excluded_known,
            'excluded_bucket': self.excluded_bucket,
            'slowest': self.slowest,
        }


def _case_size(case):
    return len(json.dumps(case, default=str))


class _CaseTimeout(BaseException):
    pass


_TIMEOUTS = [0]


def _run_with_timeout(part, case):
    import signal

    def on_alarm(signum, frame):
        raise _CaseTimeout()
    previous = signal.signal(signal.SIGALRM, on_alarm)
    # after three cases given up in this process the remaining ones get a tenth of the time: a tree on which cases hang
    # must not keep the check running for hours
    limit = part.case_timeout if _TIMEOUTS[0] < 3 else max(5.0, part.case_timeout / 10.0)
    signal.setitimer(signal.ITIMER_REAL, limit)
    try:
        return part.run(case)
    except _CaseTimeout:
        _TIMEOUTS[0] += 1
        raise
    finally:
        signal.setitimer(signal.ITIMER_REAL, 0)
        signal.signal(signal.SIGALRM, previous)


def _execute(module, part, case, known_open, excluded, stats, hashed=True):
    """Run one case.  Returns None if fine/excluded, else a Violation."""
    t0 = time.time()
    try:
        if part.case_timeout:
            outcome = _run_with_timeout(part, case)
        else:
            outcome = part.run(case)
    except _CaseTimeout:
        stats.record(case, Outcome(['inconclusive:case-exceeded-%ds' % part.case_timeout], False), hashed=hashed)
        stats.slowest = max(stats.slowest, time.time() - t0)
        return None
    except Violation as v:
        viol = v
    except HarnessError:
        raise
    except Exception as exc:  # pylint: disable=broad-except
        bucket = crash_bucket(exc)
        if bucket is None:
            raise HarnessError('harness exception in %s/%s: %s\n%s' % (
                module.PROPERTY, part.name, exc, traceback.format_exc())) from exc
        viol = Violation(bucket, '%s: %s' % (type(exc).__name__, exc),
                         detail=traceback.format_exc()[-3000:])
    else:
        if outcome is None:
            outcome = Outcome()
        stats.record(case, outcome, hashed=hashed)
        stats.slowest = max(stats.slowest, time.time() - t0)
        return None
    stats.evaluations += 1
    kid = match_known(module, known_open, part.name, case, viol)
    if kid is not None:
        stats.excluded_known[kid] = stats.excluded_known.get(kid, 0) + 1
        return None
    if viol.bucket in excluded:
        stats.excluded_bucket += 1
        return None
    return viol


def run_hypothesis_part(module, part, tier, seed, n_examples, known_open):
    import hypothesis
    from hypothesis import given, settings, HealthCheck, Phase
    stats = Stats()
    excluded = set()
    failures = {}
    remaining = n_examples
    rounds = 0
    import warnings
    warnings.filterwarnings('ignore', category=SyntaxWarning)
    strategy = part.strategy(tier)
    shrink_budget = part.shrink_budget[tier]
    while remaining > 0 and rounds < part.max_rounds:
        state = {'count': 0, 'best': None, 'since_fail': None, 'fail_time': None}

        def body(case):
            state['count'] += 1
            if state['since_fail'] is not None:
                state['since_fail'] += 1
                if state['since_fail'] > shrink_budget or time.time() - state['fail_time'] > part.shrink_wall:
                    raise _AbortShrink()
            viol = _execute(module, part, case, known_open, excluded, stats)
            if viol is None:
                return
            if state['since_fail'] is None:
                state['since_fail'] = 0
                state['fail_time'] = time.time()
            size = _case_size(case)
            if state['best'] is None or size <= state['best'][2]:
                state['best'] = (viol, case, size)
            raise viol

        test = given(strategy)(body)
        test = hypothesis.seed(derive_seed(seed, rounds))(test)
        test = settings(
            max_examples=remaining, database=None, deadline=None,
            report_multiple_bugs=False, derandomize=False,
            phases=[Phase.generate, Phase.shrink],
            suppress_health_check=[HealthCheck.too_slow, HealthCheck.data_too_large,
                                   HealthCheck.large_base_example],
        )(test)
        try:
            test()
        except _AbortShrink:
            pass
        except Violation:
            pass
        except HarnessError:
            raise
        except hypothesis.errors.Flaky as exc:
            if state['best'] is None:
                raise HarnessError('flaky without failure: %s' % exc) from exc
        except hypothesis.errors.FailedHealthCheck as exc:
            raise HarnessError('health check failed in %s/%s: %s' % (
                module.PROPERTY, part.name, exc)) from exc
        if state['best'] is None:
            break
        viol, case, _ = state['best']
        failures[viol.bucket] = {'part': part.name, 'bucket': viol.bucket,
                                 'message': viol.message, 'detail': viol.detail,
                                 'case': case}
        excluded.add(viol.bucket)
        remaining -= state['count']
        rounds += 1
    out = stats.as_dict()
    out['failures'] = failures
    return out


def run_enum_part(module, part, tier, shard, nshards, known_open):
    stats = Stats()
    excluded = set()
    failures = {}
    for case in part.enumerate(tier, shard, nshards):
        viol = _execute(module, part, case, known_open, excluded, stats, hashed=False)
        if viol is not None:
            failures[viol.bucket] = {'part': part.name, 'bucket': viol.bucket,
                                     'message': viol.message, 'detail': viol.detail,
                                     'case': case}
            excluded.add(viol.bucket)
    out = stats.as_dict()
    out['failures'] = failures
    out['exhaustive'] = True
    return out


# ---------------------------------------------------------------------------
# worker entry (top-level so it pickles)

_MODULE = None


def _worker(task):
    part_name, tier, shard, nshards, seed, n = task
    module = _MODULE
    part = {p.name: p for p in module.PARTS}[part_name]
    known_open = [e for e in load_known(module.PROPERTY) if e.get('status') == 'open']
    t0 = time.time()
    try:
        if part.strategy is not None:
            res = run_hypothesis_part(module, part, tier, derive_seed(seed, module.PROPERTY, part_name, shard), n, known_open)
        else:
            res = run_enum_part(module, part, tier, shard, nshards, known_open)
        res['error'] = None
    except HarnessError as exc:
        res = {'error': str(exc)}
    except BaseException as exc:  # pylint: disable=broad-except
        res = {'error': 'worker crashed: %r\n%s' % (exc, traceback.format_exc())}
    res['part'] = part_name
    res['shard'] = shard
    res['wall'] = time.time() - t0
    return res


def replay_case(module, part_name, case):
    """Plain regression run of one stored case, bypassing Hypothesis."""
    part = {p.name: p for p in module.PARTS}[part_name]
    stats = Stats()
    return _execute(module, part, case, [], set(), stats)


def run_check(module, tier, seed, nshards=16):
    """Run all parts of a check module, sharded.  Returns a result dict."""
    global _MODULE
    _MODULE = module
    tasks = []
    for part in module.PARTS:
        total = int(part.examples.get(tier, 0) * float(os.environ.get('VERIF_SCALE', '1')))
        if part.strategy is not None and total <= 0:
            continue
        if part.strategy is not None:
            k = max(1, min(nshards, total // part.per_shard_min))
            per = max(1, total // k)
            for i in range(k):
                tasks.append((part.name, tier, i, k, seed, per))
        else:
            for i in range(nshards):
                tasks.append((part.name, tier, i, nshards, seed, 0))
    ctx = mp.get_context('fork')
    if nshards == 1:
        results = [_worker(t) for t in tasks]
    else:
        with ctx.Pool(min(nshards, len(tasks))) as pool:
            results = pool.map(_worker, tasks, chunksize=1)
    return results
