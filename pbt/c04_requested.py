"""
C04, extra part `requested-modifications`: residues that carry a *requested* modification (what -nter / -cter / -modify leave
on the atoms) are repaired against the block extended by that modification.  The statement quantifies over "requested
mutations/modifications" as well: the extended reference has to contain the atoms the modification adds, bonded as the
modification says -- to the block atoms and to each other -- or names, re-added atoms and flags come out wrong.

A dipeptide is generated; residue 1 may carry an N-terminal modification, residue 2 a C-terminal one, and either a side-chain
modification that fits its block.  The input is the expected residue (block + atoms of the requested modifications) with
names canonical / scrambled, atoms permuted, some leaf atoms (hydrogens, OXT, HO ...) left out.  After RepairGraph each residue
must consist of exactly the expected atom names, once each, bonded exactly as block + modifications say, every name on an
atom of the right element, and no input atom may be lost or flagged as unrecognised.
"""
import numpy as np
from hypothesis import strategies as st

import vermouth
from vermouth.molecule import Molecule
from vermouth.processors.repair_graph import RepairGraph

from pbt.core import Part, Outcome, Violation, HarnessError
from pbt.util import capture_logs

FF_NAMES = ('charmm', 'amber')
RESIDUES = ['ALA', 'GLY', 'SER', 'ASP', 'GLU', 'LYS', 'VAL', 'THR']
NTER = ['N-ter', 'NH2-ter', 'NCAP-ter']
CTER = ['C-ter', 'COOH-ter', 'CCAP-ter']
_FF = {}
_TABLE = {}

RULE_TEXT = ('requested-modifications: dipeptides of charmm / amber residues; residue 1 with none or one of the N-terminal '
             'modifications, residue 2 with none or one of the C-terminal ones, each possibly with a side-chain modification that '
             'fits its block (anchors present, added names new); input = expected atoms with canonical or scrambled names, '
             'permuted, 0-3 leaf atoms left out; non-trivial = a requested modification adds two atoms bonded to each other, or '
             'an atom added by a requested modification is left out of the input')


def _first_letter(name):
    for char in name:
        if char.isalpha():
            return char
    raise HarnessError('no letter in %r' % name)


def _mod_parts(mod):
    anchors = [mod.nodes[n]['atomname'] for n in mod.nodes if not mod.nodes[n].get('PTM_atom')]
    new = [mod.nodes[n]['atomname'] for n in mod.nodes if mod.nodes[n].get('PTM_atom')]
    edges = {frozenset((mod.nodes[a]['atomname'], mod.nodes[b]['atomname'])) for a, b in mod.edges}
    removes = any((mod.nodes[n].get('replace') or {}).get('atomname', 0) is None for n in mod.nodes)
    return anchors, new, edges, removes


def preload():
    if _FF:
        return
    for ffname in FF_NAMES:
        ff = vermouth.forcefield.get_native_force_field(ffname)
        _FF[ffname] = ff
        table = {}
        for resname in RESIDUES:
            block = ff.blocks.get(resname)
            if block is None:
                continue
            names = [block.nodes[n]['atomname'] for n in block.nodes]
            edges = {frozenset((block.nodes[a]['atomname'], block.nodes[b]['atomname'])) for a, b in block.edges if a != b}
            fits = {}
            for mod_name, mod in ff.modifications.items():
                anchors, new, medges, removes = _mod_parts(mod)
                if removes or not set(anchors) <= set(names) or set(new) & set(names):
                    continue
                if any(frozenset((a, b)) not in edges for a in anchors for b in anchors if frozenset((a, b)) in medges):
                    continue
                fits[mod_name] = (anchors, new, medges)
            table[resname] = (names, edges, fits)
        _TABLE[ffname] = table


def _strategy(tier):
    return st.fixed_dictionaries({
        'ff': st.sampled_from(FF_NAMES),
        'res': st.lists(st.integers(0, len(RESIDUES) - 1), min_size=2, max_size=2),
        'nter': st.integers(0, 5), 'cter': st.integers(0, 5), 'side': st.lists(st.integers(0, 7), min_size=2, max_size=2),
        'names': st.sampled_from(['canonical', 'scrambled', 'scrambled', 'swapped-within-element']),
        'perm': st.lists(st.integers(0, 99), min_size=5, max_size=16),
        'drop': st.lists(st.integers(0, 60), min_size=0, max_size=3),
        'drop_ptm_first': st.booleans(),
        'key0': st.sampled_from([0, 1, 7]), 'keystep': st.sampled_from([1, 1, 2]),
        # the residue is requested by a mutation: the input holds a glycine backbone (N, CA, C, O, canonical names) under the
        # name GLY, everything else of the requested residue and of its modifications has to be built
        'mutated': st.lists(st.sampled_from([False, False, False, True]), min_size=2, max_size=2),
    })


def _expected(case):
    table = _TABLE[case['ff']]
    out = []
    for ridx in range(2):
        avail = sorted(table)
        resname = avail[case['res'][ridx] % len(avail)]
        names, edges, fits = table[resname]
        mods = []
        ter = NTER if ridx == 0 else CTER
        pick = case['nter'] if ridx == 0 else case['cter']
        ter_fit = [m for m in ter if m in fits]
        if pick < len(ter_fit) * 2 and ter_fit:
            mods.append(ter_fit[pick % len(ter_fit)])
        side_fit = sorted(m for m in fits if m not in NTER + CTER)
        spick = case['side'][ridx]
        if side_fit and spick < 4:
            mods.append(side_fit[spick % len(side_fit)])
        all_names = list(names)
        all_edges = set(edges)
        ptm = []
        for mod_name in mods:
            anchors, new, medges = fits[mod_name]
            if set(new) & set(all_names):
                mods = [m for m in mods if m != mod_name]   # two modifications adding the same name: keep the first
                continue
            all_names.extend(new)
            ptm.extend(new)
            all_edges |= {e for e in medges if e & set(new)}
        out.append({'resname': resname, 'mods': mods, 'names': all_names, 'edges': all_edges, 'ptm': ptm})
    return out


def _run(case):
    preload()
    ff = _FF[case['ff']]
    expected = _expected(case)
    mol = Molecule(force_field=ff, nrexcl=3)
    key = case['key0']
    keymap = [{}, {}]
    shown_names = [{}, {}]
    dropped_ptm = False
    any_mutated = False
    counter = 0
    for ridx, exp in enumerate(expected):
        degree = {}
        for edge in exp['edges']:
            for name in edge:
                degree[name] = degree.get(name, 0) + 1
        # leaf atoms that may be left out; the atoms of the peptide bond stay
        leaves = sorted(n for n in exp['names'] if degree.get(n, 0) == 1 and n not in ('N', 'C'))
        if case['drop_ptm_first']:
            leaves = sorted(leaves, key=lambda n: (n not in exp['ptm'], n))
        drop = set()
        for d in case['drop']:
            if leaves:
                cand = leaves[(d + ridx) % len(leaves)]
                # keep the neighbour of a dropped leaf
                drop.add(cand)
        present = [n for n in exp['names'] if n not in drop]
        mutated = bool(case.get('mutated', [False, False])[ridx]) and exp['resname'] != 'GLY'
        if mutated:
            present = [n for n in ('N', 'CA', 'C', 'O') if n in exp['names']] + \
                      [n for n in exp['ptm'] if n not in drop and _first_letter(n) != 'H' and all(
                          _first_letter(m) != 'H' and (m in ('N', 'CA', 'C', 'O') or m in exp['ptm'])
                          for e in exp['edges'] if n in e for m in e)]
            drop = set(exp['names']) - set(present)
            any_mutated = True
        if any(n in exp['ptm'] for n in drop):
            dropped_ptm = True
        order = sorted(range(len(present)), key=lambda i: (case['perm'][(i + 3 * ridx) % len(case['perm'])], i))
        by_element = {}
        for n in present:
            by_element.setdefault(_first_letter(n), []).append(n)
        for i in order:
            name = present[i]
            if case['names'] == 'canonical' or mutated:
                shown = name
            elif case['names'] == 'scrambled':
                counter += 1
                shown = '%s%d' % (_first_letter(name), 40 + counter)
            else:
                group = by_element[_first_letter(name)]
                shown = group[(group.index(name) + 1) % len(group)]
            attrs = dict(resname=exp['resname'], resid=ridx + 1, chain='A', atomname=shown, element=_first_letter(name),
                         position=np.array([0.13 * counter + 0.1 * i, 0.07 * (i % 4), 0.05 * ridx]), atomid=len(mol) + 1)
            if exp['mods']:
                attrs['modification'] = list(exp['mods'])
            if mutated:
                attrs['resname'] = 'GLY'
                attrs['mutation'] = [exp['resname']]
            mol.add_node(key, **attrs)
            keymap[ridx][name] = key
            shown_names[ridx][key] = shown
            key += case['keystep']
        for edge in exp['edges']:
            a, b = sorted(edge)
            if a in keymap[ridx] and b in keymap[ridx]:
                mol.add_edge(keymap[ridx][a], keymap[ridx][b])
    mol.add_edge(keymap[0]['C'], keymap[1]['N'])
    requests = [(exp['resname'], exp['mods']) for exp in expected]
    with capture_logs():
        out = RepairGraph(include_graph=False).run_molecule(mol)
    for ridx, exp in enumerate(expected):
        label = '%s residue %d %s with requested %r (names %s)' % (case['ff'], ridx + 1, exp['resname'], exp['mods'], case['names'])
        members = [k for k in out.nodes if out.nodes[k].get('resid') == ridx + 1]
        for name, k in keymap[ridx].items():
            if k not in out.nodes:
                raise Violation('requested-atom-lost', '%s: input atom %s (shown as %s) is gone after repair' % (
                    label, name, shown_names[ridx][k]))
        got = [out.nodes[k].get('atomname') for k in members]
        if len(set(got)) != len(got):
            raise Violation('requested-duplicate-name', '%s: names not unique: %r' % (label, sorted(map(str, got))))
        if set(got) != set(exp['names']):
            raise Violation('requested-atoms', '%s: atoms %r, expected block + modification atoms %r (missing %r, surplus %r)' % (
                label, sorted(map(str, got)), sorted(exp['names']), sorted(set(exp['names']) - set(got)),
                sorted(map(str, set(got) - set(exp['names'])))))
        by_name = {out.nodes[k]['atomname']: k for k in members}
        wrong = sorted((out.nodes[k]['atomname'], out.nodes[k].get('resname')) for k in members if out.nodes[k].get('resname') != exp['resname'])
        if wrong:
            raise Violation('requested-resname', '%s: atoms with another residue name after repair: %r' % (label, wrong))
        for name, k in by_name.items():
            if out.nodes[k].get('element') != _first_letter(name):
                raise Violation('requested-element', '%s: atom named %s has element %r' % (label, name, out.nodes[k].get('element')))
        inside = set(members)
        got_edges = {frozenset((out.nodes[a]['atomname'], out.nodes[b]['atomname'])) for a, b in out.edges
                     if a in inside and b in inside}
        if got_edges != exp['edges']:
            raise Violation('requested-bonds', '%s: bonds absent %r, bonds beyond the reference %r' % (
                label, sorted(map(sorted, exp['edges'] - got_edges)), sorted(map(sorted, got_edges - exp['edges']))))
        flagged = [out.nodes[k]['atomname'] for k in members if out.nodes[k].get('PTM_atom') and out.nodes[k]['atomname'] not in exp['ptm']]
        if flagged:
            raise Violation('requested-flagged', '%s: block atoms %r are marked unrecognised' % (label, flagged))
    if not out.has_edge(keymap[0]['C'], keymap[1]['N']):
        raise Violation('requested-peptide-bond', 'peptide bond lost (%r)' % (requests,))
    classes = ['names-' + case['names']]
    ptm_ptm = any(len(edge & set(exp['ptm'])) == 2 for exp in expected for edge in exp['edges'])
    if ptm_ptm:
        classes.append('modification-adds-bonded-atoms')
    if dropped_ptm:
        classes.append('modification-atom-left-out')
    if any_mutated:
        classes.append('residue-requested-by-mutation')
    if any(exp['mods'] for exp in expected):
        classes.append('modification-requested')
    if any(len(exp['mods']) > 1 for exp in expected):
        classes.append('two-modifications-on-one-residue')
    return Outcome(classes, ptm_ptm or dropped_ptm)


PARTS = [
    Part('requested-modifications', _run, strategy=_strategy, case_timeout=240, examples={'quick': 320, 'thorough': 8000},
         floors={'modification-adds-bonded-atoms': 0.1, 'modification-atom-left-out': 0.1, 'modification-requested': 0.6}),
]
