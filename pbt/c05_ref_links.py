"""
Reference interpreter for links (property C05).

Written from the documentation only (doc/source/file_formats.rst,
doc/source/martinize2_workflow.rst "Apply Links", doc/source/data.rst "Link",
the comparison matrix documented for ``match_order`` and the docstrings of
``Choice``, ``NotDefinedOrNot``, ``add_or_replace_interaction``,
``interaction_match`` and the parameter effectors).  It does not import
vermouth, networkx or numpy: placements are found by plain enumeration of
injective assignments link node -> molecule node and every condition is
evaluated separately so that the deciding condition of a rejected candidate
is known.

Data model (all plain JSON, produced by the generator in checks/c05.py)

molecule  {'meta': {...},
           'nodes': [[id, {attr: value, 'position': [x, y, z]}], ...],
           'edges': [[id, id], ...],
           'inter': [[type, [ids], [params], meta], ...]}
link      {'all': [[attr, spec], ...]          selection statements of the link
           'nodes': [{'key', 'order', 'attrs': [[attr, spec], ...], 'replace': {..}|None}],
           'edges': [[key, key], ...]          explicit [ edges ]
           'inter': [[type, [keys], [param], meta], ...]
           'removed': [[type, [keys], [[[attr, spec], ...] per atom], [param], meta], ...]
           'non_edges': [[anchor key, order, [[attr, spec], ...]], ...]
           'patterns': [[[key, [[attr, spec], ...]], ...], ...]
           'molmeta': [[attr, spec], ...], 'features': [...]}
spec      ['=', value] | ['in', [values]] | ['not', value]
param     'text' | [effector, [keys], format or None]
"""
import math

# interaction types whose consecutive atoms become edges of the link graph
# (file_formats.rst: "bonds, angles, dihedrals, cmap, and constraints will
# automatically add the corresponding edges ... unless ... 'edge' to false")
EDGE_TYPES = ('bonds', 'angles', 'dihedrals', 'cmap', 'constraints')

CONDITIONS = ('attr', 'edge-missing', 'edge-extra', 'order', 'non-edge', 'pattern')


# ---------------------------------------------------------------------------
# the documented order comparison matrix (rows: left, columns: right)

_COLS = ('>', '>>', '<', '<<', 'n', '0', '*', '**')
_ROWS = {
    '>':  ('=', '<', '>', '>', '!', '>', '!', '!'),
    '>>': ('>', '=', '>', '>', '!', '>', '!', '!'),
    '<':  ('<', '<', '=', '>', '!', '<', '!', '!'),
    '<<': ('<', '<', '<', '=', '!', '<', '!', '!'),
    'n':  ('!', '!', '!', '!', '?', '?', '!', '!'),
    '0':  ('<', '<', '>', '>', '?', '=', '/', '/'),
    '*':  ('!', '!', '!', '!', '!', '/', '=', '/'),
    '**': ('!', '!', '!', '!', '!', '/', '/', '='),
}
ORDER_TABLE = {row: dict(zip(_COLS, cells)) for row, cells in _ROWS.items()}


def order_category(order):
    if isinstance(order, bool):
        raise ValueError(order)
    if isinstance(order, int):
        return '0' if order == 0 else 'n'
    if order in ('>', '>>', '<', '<<', '*', '**'):
        return order
    raise ValueError('order %r is outside the documented table' % (order,))


def order_cell(order1, order2):
    return ORDER_TABLE[order_category(order1)][order_category(order2)]


def order_relation(order1, resid1, order2, resid2):
    """True if residue numbers resid1/resid2 satisfy the documented relation
    for a node with order1 (left) and a node with order2 (right)."""
    cell = order_cell(order1, order2)
    if cell == '!':
        return True
    if cell == '=':
        return resid1 == resid2
    if cell == '/':
        return resid1 != resid2
    if cell == '<':
        return resid1 < resid2
    if cell == '>':
        return resid1 > resid2
    # '?': "depends on the comparison of the actual numbers": an integer order
    # is "the expected distance in resid with a reference residue"
    return (order2 - order1) == (resid2 - resid1)


# ---------------------------------------------------------------------------
# attribute predicates

def spec_matches(attrs, key, spec):
    kind, value = spec
    if kind == '=':
        # equality; an attribute that is not defined counts as None
        return attrs.get(key) == value
    if kind == 'in':
        # Choice: "Test if an attribute is defined and in a predefined list"
        return key in attrs and attrs[key] in value
    if kind == 'not':
        # NotDefinedOrNot: passes if not defined or different from the reference
        return key not in attrs or attrs[key] != value
    raise ValueError(kind)


def attrs_match(attrs, specs):
    return all(spec_matches(attrs, key, spec) for key, spec in specs)


# ---------------------------------------------------------------------------
# geometry, written with plain floats

def _sub(a, b):
    return (a[0] - b[0], a[1] - b[1], a[2] - b[2])


def _dot(a, b):
    return a[0] * b[0] + a[1] * b[1] + a[2] * b[2]


def _cross(a, b):
    return (a[1] * b[2] - a[2] * b[1], a[2] * b[0] - a[0] * b[2], a[0] * b[1] - a[1] * b[0])


def _norm(a):
    return math.sqrt(_dot(a, a))


def geometry(kind, points):
    """Returns (value, conditioning) with conditioning in [0, 1]: small values
    mean the quantity is ill defined for these points."""
    if kind == 'dist':
        a, b = points
        return _norm(_sub(a, b)), 1.0
    if kind == 'angle':
        a, b, c = points
        ba = _sub(a, b)
        bc = _sub(c, b)
        cr = _norm(_cross(ba, bc))
        scale = _norm(ba) * _norm(bc)
        if scale == 0:
            return 0.0, 0.0
        return math.degrees(math.atan2(cr, _dot(ba, bc))), cr / scale
    if kind in ('dihedral', 'dihphase'):
        p0, p1, p2, p3 = points
        b0 = _sub(p0, p1)
        b1 = _sub(p2, p1)
        b2 = _sub(p3, p2)
        n1 = _norm(b1)
        if n1 == 0:
            return 0.0, 0.0
        b1 = (b1[0] / n1, b1[1] / n1, b1[2] / n1)
        d0 = _dot(b0, b1)
        v = (b0[0] - d0 * b1[0], b0[1] - d0 * b1[1], b0[2] - d0 * b1[2])
        d2 = _dot(b2, b1)
        w = (b2[0] - d2 * b1[0], b2[1] - d2 * b1[1], b2[2] - d2 * b1[2])
        x = _dot(v, w)
        y = _dot(_cross(b1, v), w)
        cond = min(_norm(v) / max(_norm(b0), 1e-300), _norm(w) / max(_norm(b2), 1e-300))
        value = math.degrees(math.atan2(y, x))
        if kind == 'dihphase':
            value -= 180.0
            if value < -180.0:
                value += 360.0
        return value, cond
    raise ValueError(kind)


class Computed:
    """A parameter computed from the geometry of the matched atoms."""
    __slots__ = ('kind', 'value', 'cond', 'fmt')

    def __init__(self, kind, value, cond, fmt):
        self.kind = kind
        self.value = value
        self.cond = cond
        self.fmt = fmt

    def text(self):
        return format(self.value, self.fmt)

    def __repr__(self):
        return '<%s %r fmt=%r>' % (self.kind, self.value, self.fmt)


def format_decimals(fmt):
    # only '.Nf' style formats are generated
    assert fmt.startswith('.') and fmt.endswith('f')
    return int(fmt[1:-1])


def param_equal(expected, got):
    """Compare an expected parameter (str or Computed) with the one found in
    the molecule (str, float, numpy scalar)."""
    if isinstance(expected, Computed):
        if expected.cond <= 1e-9:
            # coincident / collinear points: the quantity is not defined
            # (NaN or any number is acceptable), only the kind of value is checked
            if expected.fmt is None:
                return not isinstance(got, (str, bytes, bool))
            return isinstance(got, str)
        periodic = expected.kind in ('dihedral', 'dihphase')
        loose = expected.cond < 1e-3
        if expected.fmt is None:
            if isinstance(got, (str, bytes)) or isinstance(got, bool):
                return False
            try:
                gotv = float(got)
            except (TypeError, ValueError):
                return False
            tol = 1e-9 * max(1.0, abs(expected.value))
            if loose:
                tol = 1e-3 if expected.cond > 1e-9 else 400.0
            elif expected.kind != 'dist':
                tol = max(tol, 1e-9 / max(expected.cond, 1e-3))
        else:
            if not isinstance(got, str):
                return False
            try:
                gotv = float(got)
            except ValueError:
                return False
            digits = format_decimals(expected.fmt)
            if format(gotv, expected.fmt) != got:
                return False
            tol = 0.5 * 10.0 ** (-digits) + 1e-9 * max(1.0, abs(expected.value))
            if loose:
                tol += 1e-3 if expected.cond > 1e-9 else 400.0
        diff = abs(gotv - expected.value)
        if periodic:
            diff = min(diff, abs(diff - 360.0))
        return diff <= tol
    if isinstance(got, str):
        return got == expected
    return False


def params_equal(expected, got):
    try:
        got = list(got)
    except TypeError:
        return False
    return len(expected) == len(got) and all(param_equal(e, g) for e, g in zip(expected, got))


def _param_static_equal(a, b):
    """Equality between two reference-side parameters (for removal templates:
    "If the template defines parameters, then they have to match")."""
    ta = a.text() if isinstance(a, Computed) and a.fmt is not None else a
    tb = b.text() if isinstance(b, Computed) and b.fmt is not None else b
    if isinstance(ta, Computed) or isinstance(tb, Computed):
        return False   # an unformatted number never equals a text token
    return ta == tb


# ---------------------------------------------------------------------------
# the model molecule

class Model:
    def __init__(self, mol):
        self.meta = dict(mol['meta'])
        self.nodes = {}
        self.order = []
        for key, attrs in mol['nodes']:
            self.nodes[key] = dict(attrs)
            self.order.append(key)
        self.adj = {key: set() for key in self.nodes}
        for a, b in mol['edges']:
            self.adj[a].add(b)
            self.adj[b].add(a)
        # type -> list of dicts(atoms, params, meta, origin); list order is
        # kept like "add or replace" implies: new ones at the end, replaced
        # ones in place
        self.inter = {}
        for type_, atoms, params, meta in mol['inter']:
            self.inter.setdefault(type_, []).append(
                {'atoms': tuple(atoms), 'params': list(params), 'meta': dict(meta), 'origin': None})
        self.ambiguous_types = set()
        self.notes = []

    def remove_node(self, key):
        if key not in self.nodes:
            return
        del self.nodes[key]
        self.order.remove(key)
        for other in self.adj.pop(key):
            self.adj[other].discard(key)
        for type_ in list(self.inter):
            self.inter[type_] = [i for i in self.inter[type_] if key not in i['atoms']]


# ---------------------------------------------------------------------------
# link interpretation

def link_node_specs(link):
    """key -> list of (attr, spec): the selection statements of the link apply
    to every atom of the link."""
    out = {}
    for node in link['nodes']:
        out[node['key']] = [tuple(x) for x in link['all']] + [tuple(x) for x in node['attrs']]
    return out


def effective_edges(link):
    edges = set()
    for a, b in link['edges']:
        edges.add(frozenset((a, b)))
    for type_, keys, _params, meta in link['inter']:
        if type_ in EDGE_TYPES and meta.get('edge', True):
            for a, b in zip(keys[:-1], keys[1:]):
                if a != b:
                    edges.add(frozenset((a, b)))
    return edges


def non_edge_violated(model, link, anchor_mol, order, specs):
    """data.rst: "Where there is a non-edge in the link there cannot be an edge
    in the molecule, and the atoms involved do not need to be present".  The
    partner is described by its attributes and its residue offset (prefix)
    relative to the anchor, which is a node of the reference residue."""
    resid = model.nodes[anchor_mol]['resid']
    full = [tuple(x) for x in link['all']] + [tuple(x) for x in specs]
    for neighbour in model.adj[anchor_mol]:
        attrs = model.nodes[neighbour]
        if attrs['resid'] == resid + order and attrs_match(attrs, full):
            return True
    return False


def enumerate_placements(model, link, budget=1):
    """
    Enumerate injective assignments of link nodes to molecule nodes.

    Returns (placements, single) where placements is a list of dicts
    {link key: molecule node} that satisfy every condition, and single maps a
    condition name to the number of complete assignments that violate exactly
    that one condition (and no other).  Branches of the enumeration that
    already violate more than `budget` different conditions are abandoned:
    every condition is a conjunction over nodes/pairs, so extending an
    assignment can only add violated conditions.
    """
    keys = [node['key'] for node in link['nodes']]
    orders = {node['key']: node['order'] for node in link['nodes']}
    specs = link_node_specs(link)
    edges = effective_edges(link)
    anchors = {}
    for anchor, order, nspecs in link['non_edges']:
        anchors.setdefault(anchor, []).append((order, nspecs))
    patterns = link['patterns']
    mol_nodes = list(model.order)
    placements = []
    single = {}
    assignment = {}
    used = set()

    def finish(failed):
        failed = set(failed)
        if patterns:
            ok = False
            for pattern in patterns:
                if all(attrs_match(model.nodes[assignment[key]], [tuple(x) for x in pspecs])
                       for key, pspecs in pattern):
                    ok = True
                    break
            if not ok:
                failed.add('pattern')
        if not failed:
            placements.append(dict(assignment))
        elif len(failed) == 1:
            cond = next(iter(failed))
            single[cond] = single.get(cond, 0) + 1

    def rec(idx, failed):
        if idx == len(keys):
            finish(failed)
            return
        key = keys[idx]
        for cand in mol_nodes:
            if cand in used:
                continue
            now = set(failed)
            attrs = model.nodes[cand]
            if not attrs_match(attrs, specs[key]):
                now.add('attr')
            for prev in keys[:idx]:
                other = assignment[prev]
                has = other in model.adj[cand]
                wants = frozenset((key, prev)) in edges
                if wants and not has:
                    now.add('edge-missing')
                elif has and not wants:
                    now.add('edge-extra')
                r1 = model.nodes[other]['resid']
                r2 = attrs['resid']
                if orders[prev] == orders[key] and type(orders[prev]) is type(orders[key]):
                    # "Multiple atoms with the same [order] are expected to be
                    # part of the same residue"
                    if r1 != r2:
                        now.add('order')
                elif not order_relation(orders[prev], r1, orders[key], r2):
                    now.add('order')
            if len(now) > budget:
                continue
            if key in anchors:
                for order, nspecs in anchors[key]:
                    if non_edge_violated(model, link, cand, order, nspecs):
                        now.add('non-edge')
                        break
                if len(now) > budget:
                    continue
            assignment[key] = cand
            used.add(cand)
            rec(idx + 1, now)
            used.discard(cand)
            del assignment[key]

    rec(0, set())
    return placements, single


def violated_conditions(model, link, assignment):
    """All conditions a complete assignment {link key: molecule node} violates
    (independent second formulation, used to explain disagreements)."""
    failed = set()
    keys = [node['key'] for node in link['nodes']]
    orders = {node['key']: node['order'] for node in link['nodes']}
    specs = link_node_specs(link)
    edges = effective_edges(link)
    if len(set(assignment.values())) != len(keys) or set(assignment) != set(keys):
        failed.add('not-injective')
        return failed
    for key in keys:
        if assignment[key] not in model.nodes:
            failed.add('unknown-node')
            return failed
        if not attrs_match(model.nodes[assignment[key]], specs[key]):
            failed.add('attr')
    for i, k1 in enumerate(keys):
        for k2 in keys[i + 1:]:
            has = assignment[k2] in model.adj[assignment[k1]]
            wants = frozenset((k1, k2)) in edges
            if wants and not has:
                failed.add('edge-missing')
            if has and not wants:
                failed.add('edge-extra')
            r1 = model.nodes[assignment[k1]]['resid']
            r2 = model.nodes[assignment[k2]]['resid']
            if orders[k1] == orders[k2] and type(orders[k1]) is type(orders[k2]):
                if r1 != r2:
                    failed.add('order')
            elif not order_relation(orders[k1], r1, orders[k2], r2):
                failed.add('order')
    for anchor, order, nspecs in link['non_edges']:
        if non_edge_violated(model, link, assignment[anchor], order, nspecs):
            failed.add('non-edge')
    if link['patterns']:
        if not any(all(attrs_match(model.nodes[assignment[key]], [tuple(x) for x in pspecs])
                       for key, pspecs in pattern) for pattern in link['patterns']):
            failed.add('pattern')
    if not attrs_match(model.meta, [tuple(x) for x in link['molmeta']]):
        failed.add('molmeta')
    return failed


def evaluate_params(model, params, placement):
    out = []
    for param in params:
        if isinstance(param, str):
            out.append(param)
        else:
            kind, keys, fmt = param
            points = [model.nodes[placement[key]]['position'] for key in keys]
            value, cond = geometry(kind, points)
            out.append(Computed(kind, value, cond, fmt))
    return out


def _meta_template_matches(meta, template):
    # "attributes_match(interaction.meta, template.meta)": plain equality per key
    return all(meta.get(key) == value for key, value in template.items())


def removal_matches(model, inter, atoms, atom_specs, params, meta):
    """interaction_match docstring: same atoms in the same order; if the
    template defines parameters they have to match; atom attributes of the
    template have to match the molecule's atoms; template meta must match."""
    if inter['atoms'] != atoms:
        return False
    if params:
        if len(params) != len(inter['params']):
            return False
        if not all(_param_static_equal(a, b) for a, b in zip(params, inter['params'])):
            return False
    for atom, aspecs in zip(atoms, atom_specs):
        if not attrs_match(model.nodes[atom], [tuple(x) for x in aspecs]):
            return False
    return _meta_template_matches(inter['meta'], meta)


def _content_key(params, meta):
    out = []
    for p in params:
        if isinstance(p, Computed):
            out.append(('c', p.kind, round(p.value, 6), p.fmt))
        else:
            out.append(('s', p))
    return (tuple(out), repr(sorted(meta.items(), key=lambda kv: kv[0])))


def apply_link(model, link, index, budget=1):
    """Apply one link at all its placements.  Returns a report dict."""
    report = {'placements': [], 'single': {}, 'molmeta': True, 'justified': set(),
              'removed_hits': 0, 'overrides': 0, 'self_replaced': 0, 'deleted': [],
              'replace_applied': 0, 'replace_conflict': False, 'would_place': 0}
    molmeta_ok = attrs_match(model.meta, [tuple(x) for x in link['molmeta']])
    placements, single = enumerate_placements(model, link, budget)
    report['single'] = single
    if not molmeta_ok:
        report['molmeta'] = False
        report['would_place'] = len(placements)
        return report
    report['placements'] = placements
    if not placements:
        return report

    replace_keys = set()
    for node in link['nodes']:
        if node['replace']:
            replace_keys.update(k for k in node['replace'])

    # --- is the outcome independent of the order in which the placements
    # are visited?  (The documentation does not define an order.)
    add_sources = {}     # (type, atoms, version) -> {content: set(placement idx)}
    add_atoms = {}       # (type, atoms) -> set(placement idx)
    for pidx, placement in enumerate(placements):
        for type_, keys, params, meta in link['inter']:
            atoms = tuple(placement[k] for k in keys)
            report['justified'].add((type_, atoms))
            content = _content_key(evaluate_params(model, params, placement), meta)
            add_sources.setdefault((type_, atoms, meta.get('version', 0)), {}).setdefault(content, set()).add(pidx)
            add_atoms.setdefault((type_, atoms), set()).add(pidx)
    for (type_, atoms, _version), contents in add_sources.items():
        if len(contents) > 1:
            owners = set()
            for pset in contents.values():
                owners |= pset
            if len(owners) > 1:
                model.ambiguous_types.add(type_)
                model.notes.append('link %d: different placements write different content to %s %r' % (index, type_, atoms))
    for pidx, placement in enumerate(placements):
        for type_, keys, atom_specs, params, meta in link['removed']:
            atoms = tuple(placement[k] for k in keys)
            if any(key in replace_keys for aspecs in atom_specs for key, _ in aspecs):
                model.ambiguous_types.add(type_)
                model.notes.append('link %d: removal condition on an attribute the link replaces' % index)
            owners = add_atoms.get((type_, atoms), set())
            if owners - {pidx}:
                model.ambiguous_types.add(type_)
                model.notes.append('link %d: a placement removes what another placement adds (%s %r)' % (index, type_, atoms))
            tparams = evaluate_params(model, params, placement)
            matching = [i for i in model.inter.get(type_, [])
                        if removal_matches(model, i, atoms, atom_specs, tparams, meta)]
            if len(matching) > 1:
                # "Removes any interactions that match the template": whether
                # one or all of several matching interactions go is not defined
                model.ambiguous_types.add(type_)
                model.notes.append('link %d: removal template matches %d interactions (%s %r)' % (index, len(matching), type_, atoms))
    replace_values = {}
    for placement in placements:
        for node in link['nodes']:
            if node['replace'] and node['replace'].get('atomname', 0) is not None:
                for key, value in node['replace'].items():
                    replace_values.setdefault((placement[node['key']], key), set()).add(repr(value))
    report['replace_conflict'] = any(len(v) > 1 for v in replace_values.values())

    # --- apply
    to_delete = []
    for pidx, placement in enumerate(placements):
        for node in link['nodes']:
            if node['replace']:
                target = placement[node['key']]
                if 'atomname' in node['replace'] and node['replace']['atomname'] is None:
                    to_delete.append(target)
                else:
                    model.nodes[target].update(node['replace'])
                    report['replace_applied'] += 1
        for type_, keys, atom_specs, params, meta in link['removed']:
            atoms = tuple(placement[k] for k in keys)
            tparams = evaluate_params(model, params, placement)
            lst = model.inter.get(type_, [])
            for pos, inter in enumerate(lst):
                if removal_matches(model, inter, atoms, atom_specs, tparams, meta):
                    del lst[pos]
                    report['removed_hits'] += 1
                    break
        for type_, keys, params, meta in link['inter']:
            atoms = tuple(placement[k] for k in keys)
            new = {'atoms': atoms, 'params': evaluate_params(model, params, placement),
                   'meta': dict(meta), 'origin': (index, pidx)}
            lst = model.inter.setdefault(type_, [])
            for pos, inter in enumerate(lst):
                # "Interactions are deemed the same if they're the same type,
                # and they involve the same atoms, and their meta['version']
                # is the same."
                if inter['atoms'] == atoms and inter['meta'].get('version', 0) == meta.get('version', 0):
                    if inter['origin'] is None or inter['origin'][0] != index:
                        report['overrides'] += 1
                    elif inter['origin'][1] != pidx:
                        report['self_replaced'] += 1
                    lst[pos] = new
                    break
            else:
                lst.append(new)
    for key in to_delete:
        model.remove_node(key)
    report['deleted'] = sorted(set(to_delete))
    return report


def apply_links(mol, links):
    model = Model(mol)
    reports = []
    for index, link in enumerate(links):
        reports.append(apply_link(model, link, index))
    return model, reports
