"""
Independent reference for C01 (resolution transformation).

Written from the property statement and /repo/doc/source/martinize2_workflow.rst
("3) Resolution transformation") + file_formats.rst.  Plain Python data only:
imports neither vermouth nor networkx, and uses none of Mapping.map, the VF2 /
ISMAGS matchers or Molecule.merge_molecule.

Data model
----------
molecule   atoms: {key: {'resname', 'atomname', 'element', 'resid', ...}}
           bonds: set of frozenset({key, key})
mapping    MappingSpec (below): the fragment (nodes with the attributes that
           have to be equal on the input atom, their residue index inside the
           mapping, fragment edges), the target block (beads in order with
           their attributes, residue index, charge group, edges, interactions)
           and the weight table {fragment node: {bead index: weight}}.

A mapping *fits* (doc: "We find all the ways these mappings can fit onto the
input molecule"; "the atom and residue names need to match"; ".mapping files can
also cross residue boundaries (where specified)") on a set of input atoms when
there is a one-to-one assignment of the mapped fragment nodes to input atoms
such that names/attributes are equal, two fragment nodes are bonded exactly
when their atoms are (the fragment is found as it is, no bond more, no bond
less), and a bond stays inside one residue of the input exactly when it stays
inside one residue of the mapping.  Only fragment nodes that occur in the
weight table take part (Mapping docstring: "Only nodes described in mapping
will be used").
"""
from fractions import Fraction


class MappingSpec:
    def __init__(self, name, from_nodes, from_edges, table, beads, bead_edges,
                 interactions, normalize=False, references=None):
        # from_nodes: list of (node_id, match_attrs dict, resid_in_mapping)
        # from_edges: list of (node_id, node_id)
        # table: {node_id: [(bead_index, weight), ...]}
        # beads: list of {'attrs': {...}, 'resid': int, 'cg': int}
        # bead_edges: list of (i, j)
        # interactions: {type: [(atoms tuple of bead indices, parameters list, meta dict)]}
        self.name = name
        self.from_nodes = [n for n in from_nodes if table.get(n[0])]
        self.from_edges = list(from_edges)
        self.table = {k: list(v) for k, v in table.items() if v}
        self.beads = beads
        self.bead_edges = [tuple(e) for e in bead_edges]
        self.interactions = interactions
        self.normalize = normalize
        # {bead index: fragment node id}: Mapping docstring: "which node in
        # blocks_from should be taken as a reference when determining node
        # attributes for nodes in block_to"
        self.references = dict(references or {})

    def weights(self):
        """{node_id: {bead: weight}} with the declared normalisation applied:
        the weights of the atoms building one bead are divided by their sum."""
        if not self.normalize:
            return {k: dict(v) for k, v in self.table.items()}
        sums = {}
        for targets in self.table.values():
            for bead, weight in targets:
                sums[bead] = sums.get(bead, Fraction(0)) + Fraction(weight)
        return {k: {bead: Fraction(weight) / sums[bead] for bead, weight in v}
                for k, v in self.table.items()}


class TooManyPlacements(Exception):
    """More placements than the caller wants to handle (fragments that fall
    apart into pieces fit on every combination of residues)."""


def find_placements(atoms, bonds, spec, limit=None):
    """All assignments {fragment node id: atom key} under which `spec` fits."""
    neighbours = {key: set() for key in atoms}
    for bond in bonds:
        a, b = tuple(bond)
        neighbours[a].add(b)
        neighbours[b].add(a)
    nodes = spec.from_nodes
    ids = [n[0] for n in nodes]
    frag_res = {n[0]: n[2] for n in nodes}
    frag_bonded = set()
    for a, b in spec.from_edges:
        if a in frag_res and b in frag_res:
            frag_bonded.add(frozenset((a, b)))
    # candidates by attribute equality; deterministic order (sorted keys)
    candidates = []
    for node_id, attrs, _ in nodes:
        cands = [key for key in sorted(atoms)
                 if all(atoms[key].get(name) == value for name, value in attrs.items())]
        candidates.append(cands)
    found = []
    if any(not cands for cands in candidates):
        return found
    assignment = {}
    used = set()

    def compatible(idx, key):
        node = ids[idx]
        for prev in ids[:idx]:
            other = assignment[prev]
            bonded_frag = frozenset((node, prev)) in frag_bonded
            bonded_mol = other in neighbours[key]
            if bonded_frag != bonded_mol:
                return False
            if bonded_frag:
                same_frag = frag_res[node] == frag_res[prev]
                same_mol = atoms[key].get('resid') == atoms[other].get('resid')
                if same_frag != same_mol:
                    return False
        return True

    def extend(idx):
        if idx == len(ids):
            found.append(dict(assignment))
            if limit is not None and len(found) > limit:
                raise TooManyPlacements(spec.name)
            return
        for key in candidates[idx]:
            if key in used or not compatible(idx, key):
                continue
            assignment[ids[idx]] = key
            used.add(key)
            extend(idx + 1)
            used.discard(key)
            del assignment[ids[idx]]

    if ids:
        extend(0)
    return found


class Placement:
    def __init__(self, spec, assignment):
        self.spec = spec
        self.assignment = assignment
        self.atoms = set(assignment.values())
        self.low = min(self.atoms)
        weights = spec.weights()
        self.bead_weights = [dict() for _ in spec.beads]
        for node_id, key in assignment.items():
            for bead, weight in weights[node_id].items():
                self.bead_weights[bead][key] = weight
        # particles nobody maps to: doc of do_mapping: "None to one - whole
        # block taken as origin, with weights 0"
        self.no_atom = [not w for w in self.bead_weights]
        self.reference_atom = {bead: assignment[node] for bead, node in spec.references.items()}
        for bead, empty in enumerate(self.no_atom):
            if empty:
                self.bead_weights[bead] = {key: 0 for key in self.atoms}

    def signature(self):
        return [(bead['attrs'].get('atomname'), sorted((k, float(w)) for k, w in weights.items()))
                for bead, weights in zip(self.spec.beads, self.bead_weights)]


def all_placements(atoms, bonds, specs, limit=None):
    out = []
    for spec in specs:
        for assignment in find_placements(atoms, bonds, spec, limit=limit):
            out.append(Placement(spec, assignment))
        if limit is not None and len(out) > limit:
            raise TooManyPlacements(spec.name)
    return out


def tie_groups(placements):
    """Placements in input order (lowest atom key first); placements with the
    same lowest key form one group whose internal order is not specified."""
    groups = {}
    for placement in placements:
        groups.setdefault(placement.low, []).append(placement)
    return [groups[low] for low in sorted(groups)]


class Prediction:
    """Everything the statement fixes about the output for an ordered list of
    placements."""

    def __init__(self, atoms, bonds, ordered, keep, must, stash):
        self.beads = []          # dicts: placement index, bead index, fixed attrs, choice attrs, weights, no_atom
        self.block_edges = set()
        self.interactions = {}
        self.clash_beads = []
        offset = 0
        last_resid = 0
        last_cg = 0
        relevant = list(keep) + [a for a in must if a not in keep] + [a for a in stash if a not in keep and a not in must]
        for pidx, placement in enumerate(ordered):
            spec = placement.spec
            for bidx, bead in enumerate(spec.beads):
                fixed = dict(bead['attrs'])
                fixed['resid'] = last_resid + bead['resid']
                fixed['charge_group'] = last_cg + bead['cg']
                weights = placement.bead_weights[bidx]
                choice = {}
                optional = {}
                clash = []
                sources = sorted(weights)
                if bidx in placement.reference_atom:
                    sources = [placement.reference_atom[bidx]]
                for attr in relevant:
                    values = [atoms[key][attr] for key in sources if attr in atoms[key]]
                    if not values:
                        continue
                    distinct = []
                    for value in values:
                        if value not in distinct:
                            distinct.append(value)
                    if len(distinct) > 1:
                        clash.append(attr)
                    if attr in keep or (attr in must and attr not in fixed):
                        # keep: always transferred; must: taken from the
                        # input when the block does not provide it
                        fixed.pop(attr, None)
                        choice[attr] = distinct
                    elif attr not in fixed:
                        # only stashed and not provided by the block: the
                        # documentation promises the prefixed copy only
                        optional[attr] = distinct
                    if attr in stash:
                        choice['_old_' + attr] = distinct
                if clash:
                    self.clash_beads.append((offset + bidx, clash))
                self.beads.append({'placement': pidx, 'bead': bidx, 'fixed': fixed, 'choice': choice, 'optional': optional,
                                   'weights': weights, 'no_atom': placement.no_atom[bidx]})
            for i, j in spec.bead_edges:
                if i != j:
                    self.block_edges.add(frozenset((offset + i, offset + j)))
            for itype, items in spec.interactions.items():
                for inter_atoms, params, meta in items:
                    self.interactions.setdefault(itype, []).append(
                        (tuple(offset + a for a in inter_atoms), list(params), dict(meta)))
            last_resid = last_resid + spec.beads[-1]['resid']
            last_cg = last_cg + spec.beads[-1]['cg']
            offset += len(spec.beads)
        # edges between placements: some constituent atoms bonded in the input
        self.inter_edges = set()
        self.bonded_pairs = set()   # any two particles with bonded constituents
        owners = {}
        for index, bead in enumerate(self.beads):
            if bead['no_atom']:
                continue
            for key in bead['weights']:
                owners.setdefault(key, []).append(index)
        for bond in bonds:
            a, b = tuple(bond)
            for i in owners.get(a, ()):
                for j in owners.get(b, ()):
                    if i == j:
                        continue
                    pair = frozenset((i, j))
                    self.bonded_pairs.add(pair)
                    if self.beads[i]['placement'] != self.beads[j]['placement']:
                        self.inter_edges.add(pair)
        self.owners = owners
        # sanity facts
        covered = set()
        seen = set()
        self.overlap_atoms = set()
        for placement in ordered:
            self.overlap_atoms |= seen & placement.atoms
            seen |= placement.atoms
            covered |= placement.atoms
        self.covered = covered
        self.uncovered_heavy = sorted(key for key in atoms
                                      if key not in covered and atoms[key].get('element', '') != 'H')
        self.uncovered_hydrogen = sorted(key for key in atoms
                                         if key not in covered and atoms[key].get('element', '') == 'H')

    def edges(self):
        return self.block_edges | self.inter_edges

    def split_atoms(self, edges):
        """Input atoms that build several particles which do not hang together
        in the output (doc: 'there is an atom which maps to multiple particles
        in the output, but these particles are disconnected')."""
        out = []
        for key in sorted(self.owners):
            members = sorted(set(self.owners[key]))
            if len(members) < 2:
                continue
            reach = {members[0]}
            frontier = [members[0]]
            while frontier:
                cur = frontier.pop()
                for other in members:
                    if other not in reach and frozenset((cur, other)) in edges:
                        reach.add(other)
                        frontier.append(other)
            if len(reach) != len(members):
                out.append(key)
        return out
