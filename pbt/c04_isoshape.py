"""
C04, extra part `isoshape-pairs`: two bonded residues whose heavy-atom skeletons have the same shape but different
elements (ASP/ASN, GLU/GLN, VAL/THR, LEU/ASN, ...).  The first residue is presented canonically, the second one carries
the *names of the first residue's atoms* (transferred through the shape isomorphism), with its own, correct elements.
Names therefore mislead and the two residues look alike to anything that identifies atoms by name, node layout or
cached symmetry; connectivity + elements still determine every atom.  After RepairGraph both residues must be
complete, canonically named for their own block, with no atom flagged.
"""
import itertools

import networkx as nx
import numpy as np
from hypothesis import strategies as st
from networkx.algorithms.isomorphism import GraphMatcher

import vermouth
from vermouth.molecule import Molecule
from vermouth.processors.repair_graph import RepairGraph

from pbt.core import Part, Outcome, Violation, HarnessError
from pbt.util import capture_logs

FF_NAMES = ('charmm', 'amber', 'gromos')
CANDIDATES = ['ASP', 'ASN', 'GLU', 'GLN', 'VAL', 'THR', 'LEU', 'SER', 'CYS', 'ILE', 'ALA', 'MET', 'LYS']
_FF = {}
_PAIRS = {}

RULE_TEXT = ('isoshape-pairs: every ordered pair of standard residues of one force field whose heavy-atom graphs are isomorphic as '
             'unlabelled graphs but differ in elements (enumerated at load time), first residue canonical, second residue named '
             'with the atom names of the first through one of the shape isomorphisms, bonded C-N, heavy atoms only, node order and '
             'keys generated; non-trivial = at least one heavy atom of the second residue carries a name whose element differs')


def _first_letter(name):
    for char in name:
        if char.isalpha():
            return char
    raise HarnessError('no letter in %r' % name)


def _heavy(block):
    names = [block.nodes[n]['atomname'] for n in block.nodes]
    idx = {n: i for i, n in enumerate(block.nodes)}
    elements = [_first_letter(a) for a in names]
    keep = [i for i in range(len(names)) if elements[i] != 'H']
    graph = nx.Graph()
    for i in keep:
        graph.add_node(i)
    for u, v in block.edges:
        if idx[u] in graph and idx[v] in graph and u != v:
            graph.add_edge(idx[u], idx[v])
    return names, elements, graph


def preload():
    if _FF:
        return
    for ffname in FF_NAMES:
        ff = vermouth.forcefield.get_native_force_field(ffname)
        _FF[ffname] = ff
        infos = {}
        for name in CANDIDATES:
            block = ff.blocks.get(name)
            if block is None:
                continue
            names, elements, graph = _heavy(block)
            if 'N' in names and 'C' in names and nx.is_connected(graph):
                infos[name] = (names, elements, graph, block)
        pairs = []
        for a, b in itertools.permutations(sorted(infos), 2):
            na, ea, ga, _ = infos[a]
            nb, eb, gb, _ = infos[b]
            if len(ga) != len(gb) or ga.number_of_edges() != gb.number_of_edges():
                continue
            isos = []
            for iso in itertools.islice(GraphMatcher(gb, ga).isomorphisms_iter(), 12):
                # iso: node of b -> node of a
                if any(eb[i] != ea[j] for i, j in iso.items()):
                    isos.append(sorted(iso.items()))
            if isos:
                pairs.append((a, b, isos[:4]))
        _PAIRS[ffname] = (infos, pairs)


def _strategy(tier):
    return st.fixed_dictionaries({
        'ff': st.sampled_from(FF_NAMES), 'pair': st.integers(0, 200), 'iso': st.integers(0, 3),
        'perm1': st.lists(st.integers(0, 99), min_size=4, max_size=12), 'perm2': st.lists(st.integers(0, 99), min_size=4, max_size=12),
        'key0': st.sampled_from([0, 1, 10]), 'keystep': st.sampled_from([1, 1, 3]),
        'ident': st.sampled_from(['resid', 'resid', 'chain', 'icode']),
        'second_canonical': st.sampled_from([False, False, False, True]),
        'same_layout': st.booleans(),
    })


def _run(case):
    preload()
    infos, pairs = _PAIRS[case['ff']]
    if not pairs:
        return Outcome(['no-pairs'], False)
    a, b, isos = pairs[case['pair'] % len(pairs)]
    iso = dict(isos[case['iso'] % len(isos)])
    na, ea, ga, block_a = infos[a]
    nb, eb, gb, block_b = infos[b]
    mol = Molecule(force_field=_FF[case['ff']], nrexcl=3)
    idents = {'resid': ({'resid': 4, 'chain': 'A'}, {'resid': 5, 'chain': 'A'}),
              'chain': ({'resid': 4, 'chain': 'A'}, {'resid': 4, 'chain': 'B'}),
              'icode': ({'resid': 4, 'chain': 'A'}, {'resid': 4, 'chain': 'A', 'insertion_code': 'A'})}[case['ident']]
    key = case['key0']
    keys = [{}, {}]
    pos = 0
    misleading = 0
    for ridx, (graph, names, elements, resname, perm) in enumerate(((ga, na, ea, a, case['perm1']), (gb, nb, eb, b, case['perm2']))):
        order = sorted(graph.nodes, key=lambda i: (perm[i % len(perm)], i))
        if ridx == 0:
            order_a = order
        elif case['same_layout']:
            # the second residue lists its atoms, and later its bonds, exactly like the first one lists its counterparts
            order = sorted(graph.nodes, key=lambda i: order_a.index(iso[i]))
        for i in order:
            if ridx == 0 or case['second_canonical']:
                shown = names[i]
            else:
                shown = na[iso[i]]
                if _first_letter(shown) != elements[i]:
                    misleading += 1
            attrs = dict(idents[ridx], resname=resname, atomname=shown, element=elements[i],
                         position=np.array([0.11 * pos, 0.04 * (pos % 3), 0.06 * (pos % 5)]), atomid=pos + 1)
            mol.add_node(key, **attrs)
            keys[ridx][i] = key
            key += case['keystep']
            pos += 1
        edge_list = list(graph.edges)
        if ridx == 1 and case['same_layout']:
            inv = {j: i for i, j in iso.items()}
            edge_list = [(inv[u], inv[v]) for u, v in ga.edges]
        for u, v in edge_list:
            mol.add_edge(keys[ridx][u], keys[ridx][v])
    mol.add_edge(keys[0][na.index('C')], keys[1][nb.index('N')])
    n_in = len(mol)
    with capture_logs():
        out = RepairGraph(include_graph=False).run_molecule(mol)
    for ridx, (resname, block, ident) in enumerate(((a, block_a, idents[0]), (b, block_b, idents[1]))):
        members = [k for k in out.nodes if all(out.nodes[k].get(attr) == ident.get(attr) for attr in ('resid', 'chain', 'insertion_code'))]
        label = '%s residue %d (%s, presented with the names of %s)' % (case['ff'], ridx, resname, a if ridx else resname)
        flagged = [k for k in members if out.nodes[k].get('PTM_atom')]
        if flagged:
            raise Violation('isoshape-flagged', '%s: atoms %r are marked unrecognised although the residue is the block with other names' % (
                label, [(out.nodes[k].get('atomname'), out.nodes[k].get('element')) for k in flagged]))
        got_names = [out.nodes[k].get('atomname') for k in members]
        block_names = [block.nodes[n]['atomname'] for n in block.nodes]
        if len(set(got_names)) != len(got_names):
            raise Violation('isoshape-duplicate-name', '%s: names not unique: %r' % (label, sorted(got_names)))
        if set(got_names) != set(block_names):
            raise Violation('isoshape-incomplete', '%s: atom names %r, block has %r' % (label, sorted(got_names), sorted(block_names)))
        by_name = {out.nodes[k]['atomname']: k for k in members}
        for name, k in by_name.items():
            if out.nodes[k].get('element') != _first_letter(name):
                raise Violation('isoshape-element', '%s: atom named %s has element %r' % (label, name, out.nodes[k].get('element')))
        want = {frozenset((block.nodes[u]['atomname'], block.nodes[v]['atomname'])) for u, v in block.edges if u != v}
        got = {frozenset((out.nodes[u]['atomname'], out.nodes[v]['atomname'])) for u, v in out.edges
               if u in by_name.values() and v in by_name.values()}
        if got != want:
            raise Violation('isoshape-bonds', '%s: bonds differ from the block: missing %r, extra %r' % (
                label, sorted(map(sorted, want - got))[:4], sorted(map(sorted, got - want))[:4]))
        for i, k in keys[ridx].items():
            if k not in out.nodes:
                raise Violation('isoshape-atom-lost', '%s: input atom %r is gone' % (label, k))
    classes = ['pair:%s/%s' % (a, b)]
    if misleading:
        classes.append('misleading-names')
    if case['same_layout']:
        classes.append('same-layout')
    return Outcome(classes, misleading > 0)


PARTS = [
    Part('isoshape-pairs', _run, strategy=_strategy, case_timeout=240, examples={'quick': 240, 'thorough': 6000},
         floors={'misleading-names': 0.5}),
]
